#!/usr/bin/env python3
"""Regenerate /verif/mutants/<ID>/<name>.diff from /verif/mutants/specs.json.
Each spec {id, name, file, old, new, [count]} is a textual replacement applied in a
scratch worktree of /repo HEAD (never in /repo itself)."""
import json, subprocess, os, sys, shutil
W='/root/scratch/mkmut/repo'
only = sys.argv[1] if len(sys.argv) > 1 else None
shutil.rmtree('/root/scratch/mkmut', ignore_errors=True)
subprocess.run(['git','-C','/repo','worktree','prune'])
os.makedirs('/root/scratch/mkmut')
subprocess.run(['git','-C','/repo','worktree','add','-q','--detach',W,'HEAD'],check=True)
specs=json.load(open('/verif/mutants/specs.json'))
bad=0
for sp in specs:
    if only and sp['id']!=only: continue
    p=os.path.join(W,sp['file'])
    orig=open(p).read()
    edits=[(sp['old'],sp['new'])]+[(e['old'],e['new']) for e in sp.get('more',[])]
    if any(o not in orig for o,_ in edits):
        print('STALE', sp['id'], sp['name']); bad+=1; continue
    s=orig
    for o,n in edits:
        s=s.replace(o,n,sp.get('count',1))
    open(p,'w').write(s)
    d=subprocess.run(['git','-C',W,'diff'],capture_output=True,text=True).stdout
    os.makedirs(f"/verif/mutants/{sp['id']}",exist_ok=True)
    open(f"/verif/mutants/{sp['id']}/{sp['name']}.diff",'w').write(d)
    open(p,'w').write(orig)
    print('ok', sp['id'], sp['name'])
subprocess.run(['git','-C','/repo','worktree','remove','--force',W])
shutil.rmtree('/root/scratch/mkmut', ignore_errors=True)
sys.exit(1 if bad else 0)
