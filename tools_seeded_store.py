#!/usr/bin/env python3
"""tools_seeded_store.py <ID> <n> <adv out dir> <seedlog> : store a confirmed independent change under /verif/seeded/<ID>-<n>/"""
import sys, json, shutil, os, re
pid, n, src, log = sys.argv[1:5]
dst = f"/verif/seeded/{pid}-{n}"
os.makedirs(dst, exist_ok=True)
for f in ("patch.diff", "demo.rs", "demo.md"):
    if os.path.exists(os.path.join(src, f)):
        shutil.copy(os.path.join(src, f), os.path.join(dst, f))
meta = json.load(open(os.path.join(src, "meta.json")))
text = open(log).read()
rc = dict(re.findall(r"^(\w+_rc)=(\d+)$", text, re.M))
checks = {}
for m in re.finditer(r"^(C\d+) quick: (.*)$", text, re.M):
    checks[m.group(1)] = m.group(2)
meta_out = {
    "property": pid,
    "origin": "fresh sub-agent given only the property text and its own worktree of /repo",
    "what_it_breaks": meta.get("what_it_breaks"),
    "needs_to_manifest": meta.get("needs_to_manifest"),
    "files_touched": meta.get("files_touched"),
    "agent_ran": meta.get("ran"),
    "confirmed_by_coordinator": {
        "how": "/verif/seeded_verify.sh in a scratch worktree of /repo HEAD (never applied to /repo)",
        "demo_without_change_rc": rc.get("demo_without_rc"),
        "demo_with_change_rc": rc.get("demo_with_rc"),
        "repository_suite_with_change_rc": rc.get("suite_rc"),
        "check_exit_codes": {k: v for k, v in rc.items() if k.startswith("check_")},
        "check_summaries": checks,
    },
}
json.dump(meta_out, open(os.path.join(dst, "meta.json"), "w"), indent=1)
shutil.copy(log, os.path.join(dst, "verification.log"))
print("stored", dst, meta_out["confirmed_by_coordinator"]["check_exit_codes"])
