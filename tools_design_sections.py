#!/usr/bin/env python3
"""Regenerate the data-driven sections (13-15) of DESIGN.md from known_findings.json,
/repo's git log, mutants/ and seeded/."""
import json, subprocess, glob, os, re
D='/verif/DESIGN.md'
s=open(D).read()
kf=json.load(open('/verif/known_findings.json'))
log=subprocess.run(['git','-C','/repo','log','--reverse','--format=%h %s'],capture_output=True,text=True).stdout.splitlines()
fixes=[l for l in log if ' fix: ' in l]
hooks=[l for l in log if 'verif hooks' in l]
sec13=["## 13. What the checks found on the pinned tree, and what was done\n",
"Every violation reported on the unchanged tree was triaged (real code wrong vs check wrong). Check-side mistakes that were corrected include: the f-string printer produced `{{` for an interpolated block (C08), `return if ..` needs parentheses (C08), `&&`/`||` mixtures in generated conditions (C03), a closure that captured only the `Copy` field of a tracked value (C11), the address order of the two lists became an uncontrolled input after the lock-order repair (C16: both orders are now enumerated), a seeded change that only made the evaluator panic (C20, not a violation), an equivalent mutant (C01 `else-branch-skips-assign`), and many generator / oracle corrections inside the sub-agent-built checks (listed in their reports; e.g. C04 a name that designated two things, C07 let-shadowing treated as unspecified, C13 `pkg.`-prefixed lookups unspecified). Two mistakes in the machinery itself were found late and are worth recording: (1) the thorough tier of C01 materialised a 16-bit truth table (2^32 input pairs) and 888 246 expanded skeleton programs (19 GB) per worker; the kernel's OOM killer shot 530 worker processes during that run and the memory pressure made *other* checks that ran at the same time report wall-clock `hang`s that were not real (a seeded change was briefly recorded as caught on the strength of such deaths and had to be re-verified: it was missed, and C13 was then strengthened). Since then skeleton programs are expanded per chunk (0.4 GB per worker), the 16-bit table is `all x 7 pivots` both ways, the unit table is computed once by the parent, every verdict `hang` is decided by **CPU time** (vcore watchdog: CPU seconds used on the marked case, with an 8x wall-clock backstop for blocked workers; C06 fork probes: RLIMIT_CPU), `c00wd` self-tests the watchdog (spinner killed, sleeper killed, slow-but-progressing unit not killed), and a seeded change only counts as caught when the check reports violations with `deaths=0` or deaths whose class is the expected crash. (2) `seeded_verify.sh` truncated the check's output after eight lines, which hid the summary line of two runs. Observed but outside the 20 properties (no check claims it, nothing was repaired): the parser rejects some valid programs — `return 0xFF`, `return 'a'`, `return f\"..\"`, `return if c { 1 } else { 2 }` and `let y = { f\"a{x}\" };` are parse errors while their parenthesised forms compile (`can_start_expression` lacks the hex, char, f-string, `if` and `match` tokens; a block that starts with an f-string is mis-lexed by the three-token look-ahead); the generators of C01/C08 put parentheses there. Integer literals above `i64::MAX` are rejected even where the context is `u64`. **Auditing sub-agents.** Late in the build one sub-agent per property was asked to find inputs on which the *current* tree violates the property (reports under `/tmp/audit/CNN/report.md` at the time; every confirmed item is now either a repair in `/repo` with a regression mutant, a known finding reproduced by a check, or listed here). They found what the bounded enumerations had not reached: 14 of the repairs below and most of the known findings added on the last day come from them, and each one led to a new family in a check (C03 early exits in aggregates and guards, C06 L8 and the uninhabited-type / sharing / file-name inputs, C07 never-type and type-path edits, C08 f-string first in a block, C09 head operands / escaped braces / CRLF, C11 script-made lists, C12 StringBuf constants and stack discipline, C13 type positions and module names, C14 container constants, C15 float elements and zero-sized doubling, C05 over-aligned types). Confirmed by an audit but NOT reproduced by a check (no claim is made about them): `==` / `contains` / `index` on a list of lists hold only the outer lock and take the inner locks pair by pair, so a concurrent push to two inner lists can make `o1 == o2` true although the lists differ at every instant (C16 explores flat `u64` lists only); `String.repeat(u64::MAX)` aborts with `capacity overflow` (treated as memory exhaustion); `print` to a closed stdout aborts the host; dependency chains of more than ~15 000 declarations overflow the compiler's stack depending on declaration order.\n",
f"Genuine defects: **{len(fixes)} were repaired** with `fix:` commits in `/repo` (each small, the 415-test suite unedited and green after each), **{len(kf['findings'])} are recorded as known findings**. `known_findings.json` holds the literal failing inputs (`fixed` entries suppress nothing).\n",
"### Repairs (`git -C /repo log`)\n"]
for l in fixes:
    h,msg=l.split(' ',1)
    sec13.append(f"* `{h}` {msg[5:]}")
sec13.append("\n### Known findings (recorded, not repaired)\n")
sec13.append("| id | property | why not repaired |")
sec13.append("|---|---|---|")
why={
 'C10-div-by-zero':'needs a language decision (what is `x / 0`?)',
 'C10-min-div-minus-one':'same decision',
 'C10-prefix-new-len-out-of-range':'needs a language decision (Option[Prefix]? saturate?)',
 'C06-N10-never-type-annotation':'needs a language decision (reject a written `!` outside return position, or support it)',
 'C06-N12-const-division-by-zero':'same as the run-time division traps',
 'C12-registered-closure-not-sync':'repair = add `Sync` to `RegisterableFn`, API-breaking for embedders',
 'C13-import-order':'candidate patch of ~30 lines in mc/c13/fixes judged too delicate to apply',
 'C15-N2-rust-contains-index-option-untransformed':'needs an API bound change',
 'C15-N8-script-zero-sized-clone-skipped':'needs a lowering decision for zero-sized clone/drop types',
 'C17-lines-slice-0-1-of-empty-string':"pinned by the repository's own unit test `string_line_slice`",
 'C18-use-in-module-binds-in-root':'patch leaves open whether `m.name` should resolve (language design)',
 'C18-import-and-declaration-share-a-name':'candidate patch is ~90 lines',
}
for f in kf['findings']:
    sec13.append(f"| {f['id']} | {f['property']} | {why.get(f['id'],'see description in known_findings.json')} |")
sec13.append("\nKnown findings are matched by predicates on the failing case itself (operator and operands, built-in and argument, probe name and capture class, import pattern plus the prediction of a defect model, element type and side), so a different violation of the same property is still reported.\n")

sec14=["## 14. Seeded changes written while building the checks\n",
"`mutants/<ID>/*.diff` (regenerated from `mutants/specs.json` by `tools_mkmut.py` in a scratch worktree, applied by `selftest.sh`; the sub-agent-built checks keep theirs in `mc/cNN/mutants/`). Every one listed is caught by its check (exit 1 with a VIOLATION line) unless noted.\n"]
for d in sorted(glob.glob('/verif/mutants/C*')):
    names=sorted(os.path.basename(x)[:-5] for x in glob.glob(d+'/*.diff'))
    sec14.append(f"* **{os.path.basename(d)}**: " + ", ".join(names))
for d in sorted(glob.glob('/verif/mc/c[0-9]*/mutants')):
    names=sorted(os.path.basename(x).rsplit('.',1)[0] for x in glob.glob(d+'/*.diff'))
    if names:
        sec14.append(f"* **{d.split('/')[3].upper()}** (in `{d[7:]}`): {len(names)} changes")
sec14.append("\nNot caught, and why: C08 `args-before-receiver` was missed at first (no construct had an effectful call as receiver AND as argument; `es(k)` and the forms were added, then caught); C15 `compute_capacity -> required` and C06 `bump(i-1) -> bump(i)` / missing-fields guard do not break their property; C20 `eval-slt-unsigned` only makes the evaluator panic (allowed).\n")

tab=subprocess.run(['python3','/verif/tools_seeded_table.py'],capture_output=True,text=True).stdout
sec15=["## 15. Independent seeded changes (sub-agents given only the property text)\n",
"Each change was produced by a fresh sub-agent that saw only the property text and its own worktree, and was confirmed by `seeded_verify.sh` in a scratch worktree (patch applies; the repository's suite passes with it; the demonstration fails with it and passes without it) before the check(s) were run against it. Files: `seeded/<id>/{patch.diff, demo.rs, demo.md, meta.json, verification.log}`. 'First verdict' is what the check said before it was strengthened.\n",
tab]
new="\n".join(sec13)+"\n"+"\n".join(sec14)+"\n"+"\n".join(sec15)
i=s.index('## 13. What the checks found')
s=s[:i]+new
open(D,'w').write(s)
print(len(fixes),'fixes',len(kf['findings']),'findings')
