#!/usr/bin/env python3
"""Regenerate the data-driven sections (13-15) of DESIGN.md from known_findings.json,
/repo's git log, mutants/ and seeded/."""
import json, subprocess, glob, os, re
D='/verif/DESIGN.md'
s=open(D).read()
kf=json.load(open('/verif/known_findings.json'))
log=subprocess.run(['git','-C','/repo','log','--reverse','--format=%h %s'],capture_output=True,text=True).stdout.splitlines()
fixes=[l for l in log if ' fix: ' in l]
hooks=[l for l in log if 'verif hooks' in l]
# the prose of section 13 (before "Genuine defects:") is hand-written: keep what DESIGN.md has
_a=s.index('## 13. What the checks found'); _b=s.index('Genuine defects: **', _a)
sec13=[s[_a:_b].rstrip("\n")+"\n",
f"Genuine defects: **{len(fixes)} were repaired** with `fix:` commits in `/repo` (each small, the 415-test suite unedited and green after each), **{len(kf['findings'])} are recorded as known findings**. `known_findings.json` holds the literal failing inputs (`fixed` entries suppress nothing).\n",
"### Repairs (`git -C /repo log`)\n"]
for l in fixes:
    h,msg=l.split(' ',1)
    sec13.append(f"* `{h}` {msg[5:]}")
sec13.append("\n### Known findings (recorded, not repaired)\n")
sec13.append("| id | property | why not repaired |")
sec13.append("|---|---|---|")
why={
 'C10-div-by-zero':'needs a language decision (what is `x / 0`?)',
 'C10-min-div-minus-one':'same decision',
 'C10-prefix-new-len-out-of-range':'needs a language decision (Option[Prefix]? saturate?)',
 'C06-N10-never-type-annotation':'needs a language decision (reject a written `!` outside return position, or support it)',
 'C06-N12-const-division-by-zero':'same as the run-time division traps',
 'C12-registered-closure-not-sync':'repair = add `Sync` to `RegisterableFn`, API-breaking for embedders',
 'C13-import-order':'candidate patch of ~30 lines in mc/c13/fixes judged too delicate to apply',
 'C15-N2-rust-contains-index-option-untransformed':'needs an API bound change',
 'C15-N8-script-zero-sized-clone-skipped':'needs a lowering decision for zero-sized clone/drop types',
 'C17-lines-slice-0-1-of-empty-string':"pinned by the repository's own unit test `string_line_slice`",
 'C18-use-in-module-binds-in-root':'patch leaves open whether `m.name` should resolve (language design)',
 'C18-import-and-declaration-share-a-name':'candidate patch is ~90 lines',
}
for f in kf['findings']:
    sec13.append(f"| {f['id']} | {f['property']} | {why.get(f['id'],'see description in known_findings.json')} |")
sec13.append("\nKnown findings are matched by predicates on the failing case itself (operator and operands, built-in and argument, probe name and capture class, import pattern plus the prediction of a defect model, element type and side), so a different violation of the same property is still reported.\n")

sec14=["## 14. Seeded changes written while building the checks\n",
"`mutants/<ID>/*.diff` (regenerated from `mutants/specs.json` by `tools_mkmut.py` in a scratch worktree, applied by `selftest.sh`; the sub-agent-built checks keep theirs in `mc/cNN/mutants/`). Every one listed is caught by its check (exit 1 with a VIOLATION line) unless noted.\n"]
for d in sorted(glob.glob('/verif/mutants/C*')):
    names=sorted(os.path.basename(x)[:-5] for x in glob.glob(d+'/*.diff'))
    sec14.append(f"* **{os.path.basename(d)}**: " + ", ".join(names))
for d in sorted(glob.glob('/verif/mc/c[0-9]*/mutants')):
    names=sorted(os.path.basename(x).rsplit('.',1)[0] for x in glob.glob(d+'/*.diff'))
    if names:
        sec14.append(f"* **{d.split('/')[3].upper()}** (in `{d[7:]}`): {len(names)} changes")
sec14.append("\nNot caught, and why: C08 `args-before-receiver` was missed at first (no construct had an effectful call as receiver AND as argument; `es(k)` and the forms were added, then caught); C15 `compute_capacity -> required` and C06 `bump(i-1) -> bump(i)` / missing-fields guard do not break their property; C20 `eval-slt-unsigned` only makes the evaluator panic (allowed).\n")

tab=subprocess.run(['python3','/verif/tools_seeded_table.py'],capture_output=True,text=True).stdout
sec15=["## 15. Independent seeded changes (sub-agents given only the property text)\n",
"Each change was produced by a fresh sub-agent that saw only the property text and its own worktree, and was confirmed by `seeded_verify.sh` in a scratch worktree (patch applies; the repository's suite passes with it; the demonstration fails with it and passes without it) before the check(s) were run against it. Files: `seeded/<id>/{patch.diff, demo.rs, demo.md, meta.json, verification.log}`. 'First verdict' is what the check said before it was strengthened. Six changes of the fourth round (C02-4 wildcard payload positions in match patterns, C03-5 working variable reassigned while in use, C06-4 arity check skipped for forward references, C08-4 literal operands folded with their effects, C10-4 `Prefix.new` on IPv6 addresses embedding an IPv4 address, C11-5 drops during panic unwinding / code pages not freed) were confirmed and drove the families named in the commit log of `/verif`, but their files lived under `/tmp` and were lost when the sandbox was restored before they had been copied here; they are not counted below. The fifth round (ids C01-4, C02-5, C03-6, C04-4, C05-4, C06-5, C07-4, C08-5, C09-4, C10-5, C11-6, C12-4, C15-4, C16-5, C20-5 and later) gave each sub-agent a focus line of my own next to the property text (never anything from `/verif`): first a suggestion, then, for the second, third and fourth agent on the same property, a requirement of the form 'NOT <what earlier authors did>, look at <other mechanisms named in the property's anchors>', because authors kept re-inventing earlier changes (the matched-local-used-in-place change was delivered three times, for C02, C03 and C08). Most were caught by the checks as delivered; two ended in a machinery error instead of a verdict (a textual hook lint in C16, a preflight sanity compile in C14; both are verdicts now); the misses each led to a new family, operation, oracle clause or domain value in a check and are caught now; C12-4 (two threads wrongly admitted into one critical section) stays outside what the scheduler of C12 can interleave and is caught by C16's free-running pass only. One more delivered change is not counted (C09, see there). The table's last column is computed from the stored verification logs.\n",
tab]
new="\n".join(sec13)+"\n"+"\n".join(sec14)+"\n"+"\n".join(sec15)
i=s.index('## 13. What the checks found')
s=s[:i]+new
open(D,'w').write(s)
print(len(fixes),'fixes',len(kf['findings']),'findings')
