#!/bin/bash
# Build the framework offline from files on disk: every check claimed in MANIFEST.json.
set -e
cd /verif/mc
export CARGO_NET_OFFLINE=true
cp /repo/Cargo.lock Cargo.lock
mkdir -p /verif/work /verif/evidence /verif/replays
ids=$(python3 -c "import json; print(' '.join(c['property_id'].lower() for c in json.load(open('/verif/MANIFEST.json'))['checks']))")
pk=""
for i in $ids; do pk="$pk -p $i"; done
cargo build -q $pk 2>&1 | grep -E "^error" -A8 || true
cargo build -q $pk
echo "setup ok: $ids"
