#!/bin/bash
# Build the whole framework offline from files on disk.
set -e
cd /verif/mc
export CARGO_NET_OFFLINE=true
cp /repo/Cargo.lock Cargo.lock
mkdir -p /verif/work /verif/evidence /verif/replays
cargo build -q --workspace 2>&1 | grep -v "^warning\|^ *|\|^ *=\|^ *-->\|^$\|^[0-9]* *|" | tail -20 || true
cargo build -q --workspace
echo "setup ok"
