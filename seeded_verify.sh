#!/bin/bash
# seeded_verify.sh <ID> <dir with patch.diff demo.rs meta.json> [extra check ids...]
# Confirms an independently produced property-breaking change in a scratch worktree
# (never in /repo): the patch applies and compiles, the repository's own test suite
# still passes with it, the demonstration fails with it and passes without it; then
# runs the check(s) against the changed tree. Writes a transcript and removes the worktree.
set -u
ID="$1"; SRC="$(readlink -f "$2")"; shift 2
CHECKS="$ID $*"
W=/root/scratch/seed-$ID
rm -rf "$W"; mkdir -p "$W"
git -C /repo worktree prune
git -C /repo worktree add -q --detach "$W/repo" HEAD || exit 2
cd "$W/repo"
idl=$(echo "$ID" | tr 'A-Z' 'a-z')
cp "$SRC/demo.rs" tests/adv_$idl.rs
echo "== demo WITHOUT the change (must pass)"
cargo test --offline --features verif-hooks --test adv_$idl -- --test-threads 1 2>&1 | tail -4
echo "demo_without_rc=${PIPESTATUS[0]}"
git apply "$SRC/patch.diff" || { echo "PATCH DOES NOT APPLY"; exit 3; }
echo "== demo WITH the change (must fail)"
cargo test --offline --features verif-hooks --test adv_$idl -- --test-threads 1 2>&1 | tail -6
echo "demo_with_rc=${PIPESTATUS[0]}"
rm tests/adv_$idl.rs
echo "== repository test suite WITH the change (must pass)"
cargo nextest run --workspace --no-fail-fast --test-threads 6 --offline 2>&1 | tail -3
echo "suite_rc=${PIPESTATUS[0]}"
cd /verif
for c in $CHECKS; do
  echo "== check $c quick against the changed tree"
  VERIF_REPO="$W/repo" ./check $c quick > "$W/check-$c.out" 2>&1
  rc=$?
  grep -E "VIOLATION|MACHINERY" "$W/check-$c.out" | head -5
  grep -E "^$c: |^$c quick:" "$W/check-$c.out" | cut -c1-400
  echo "check_${c}_rc=$rc"
done
git -C /repo worktree remove --force "$W/repo"; rm -rf "$W"
