#!/bin/bash
# selftest.sh <ID> <patch-file> [tier]
# Applies one property-breaking patch to a scratch worktree of /repo (never to
# /repo itself), runs the check against it and expects exit 1 + VIOLATION.
# Removes the worktree and its build output afterwards unless KEEP=1.
set -u
ID="$1"; PATCH="$(readlink -f "$2")"; TIER="${3:-quick}"
tag=$(basename "$PATCH" .diff)
base=/root/scratch/selftest-$ID-$tag
rm -rf "$base"; mkdir -p "$base"
git -C /repo worktree add -q --detach "$base/repo" HEAD || exit 2
# warm start: dependencies are already built in /verif/target
[ -d /verif/target/debug ] && mkdir -p "$base/target-verif" && cp -a /verif/target/debug "$base/target-verif/debug" 2>/dev/null
if ! git -C "$base/repo" apply "$PATCH"; then
    echo "SELFTEST $ID $tag: patch does not apply"; rc=3
else
    out=$(VERIF_REPO="$base/repo" /verif/check "$ID" "$TIER" 2>&1); code=$?
    echo "$out" | tail -3
    if [ $code -eq 1 ] && echo "$out" | grep -q "^VIOLATION property=$ID"; then
        echo "SELFTEST $ID $tag: CAUGHT"; rc=0
    else
        echo "SELFTEST $ID $tag: MISSED (exit $code)"; rc=1
    fi
fi
if [ "${KEEP:-0}" != 1 ]; then
    git -C /repo worktree remove --force "$base/repo"; rm -rf "$base"
fi
exit $rc
