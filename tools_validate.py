#!/usr/bin/env python3
"""Validate MANIFEST.json and evidence/*.json against the schemas in /root/.vp."""
import json, sys, glob
import jsonschema
ok = True
def check(path, schema):
    global ok
    try:
        jsonschema.validate(json.load(open(path)), json.load(open(schema)))
        print("ok  ", path)
    except Exception as e:
        ok = False
        print("FAIL", path, str(e).splitlines()[0])
import os
if os.path.exists('/verif/MANIFEST.json'):
    check('/verif/MANIFEST.json', '/root/.vp/MANIFEST.schema.json')
for p in sorted(glob.glob('/verif/evidence/*.json')):
    check(p, '/root/.vp/EVIDENCE.schema.json')
sys.exit(0 if ok else 1)
