#!/usr/bin/env python3
"""Regenerate /verif/MANIFEST.json from the table below (single source of truth)."""
import json, subprocess

BASELINE_OFF = ("cd /repo && cargo nextest run --workspace --no-fail-fast --test-threads 8 --offline "
                "|| (cd /repo && cargo test --workspace --no-fail-fast --offline)")

# id -> (design section, technique, level text, level note)
CHECKS = {
 "C01": ("4/C01",
         "bounded-exhaustive program enumeration on the real pipeline (parse, typecheck, MIR, LIR, Cranelift) against a reference interpreter: every expression/skeleton/template program of the bounded grammar x every boundary input vector",
         "Every numeric expression over all operators (all 8 integer widths, f32, f64) with every operator at every operand position of every other operator, all comparison/logic forms, COMPLETE truth tables of all depth-1 programs on all 65 536 operand pairs of u8/i8, every control-flow skeleton of up to 3 constructs (16 constructs: if/else/else-if, while, for, match with guards and `_`, block expressions, early return, short-circuit operands with effects, calls, recursion, compound assignment, shadowing) nested to depth 2, and hand-enumerated templates for arity 0-7, argument permutations over distinct types, self/mutual recursion and every literal-typing context x every numeric type; each program is compiled through the public API and called on the boundary cross product; value and host-call log must equal the reference interpreter c00ref. Exhaustive within the bounds; thorough widens to full depth-2 products and size-4 skeletons.",
         "Programs larger than the bound and operand values strictly between boundary values of >=32-bit types are not enumerated; the reference interpreter (c00ref, ~700 lines) is trusted; x86-64 only."),
 "C02": ("4/C02",
         "bounded-exhaustive program enumeration over field layouts: every layout x 14 type shapes x a fixed family of copy / write / compare / match programs, compiled on the real pipeline and compared with the reference interpreter's host-call log, plus a ledger oracle for tracked fields",
         "Every sequence of <= 3 field types over the size/alignment classes {u8, u32, u64, (), String, Tr} (258 layouts; thorough: 16 classes / 4 fields) as named record, generic record in both orientations, anonymous record, payload of 1-3 variant enums, generic enum, Option, Result and Verdict; for each type 15-30 programs with distinct sentinel values per field: construct, copy by let / assignment / argument / return / outer record (nested write a.b.c) / Some / list element / match binding / ?, then write one field (each in turn) through ONE name and emit every component of EVERY name; == and != with none or exactly one differing component; guarded matches and `_` arms reading each payload position; list-typed fields pushed / swapped through one copy and observed through the other, incl. push inside a for over the same list. Log and value must equal the reference interpreter (value semantics for everything but lists); the ledger of tracked fields must balance.",
         "Only Option[u32] is returned to Rust directly (other aggregates are observed per component through host calls; Rust-side layouts are C05's subject); programs beyond the family."),
 "C03": ("4/C03",
         "bounded-exhaustive program enumeration on the real pipeline with a drop-tracking ledger and a counting allocator as oracles: every statement body over every control-flow construct x every ownership form in every expression hole x entry signatures x path-steering inputs",
         "All statement bodies of up to 2 statements (thorough 3) over 28 statement forms (discard, let, reassign, consume, field overwrite, constructors, list operations, strings, if/else and while with owned temporaries in the condition, for, match with owned guard temporaries and `_` arms, early return/reject, `?`, block values, short-circuit operands, early exit in the middle of a record / enum / list / call-argument / method-argument construction) nested to depth 2, each expression hole filled by rotation with 10 ownership forms of a drop-tracked host value, under 6 entry signatures (plain, tracked argument, tracked return, Option return with `?`, filtermap, String+List arguments), called 4 times on each of 16 input vectors; after every call the ledger of live tracked values must be unchanged, with no double drop, no clone of a dead value, no drop of never-initialised memory, and the live heap block count must be steady (strings, lists).",
         "Drop order and clone counts are not constrained; programs beyond the size bound; heap steady state measured by block count, not bytes."),
 "C04": ("4/C04",
         "exhaustive enumeration of (script signature, requested Rust signature) pairs through the public Package::get_function against an independent structural type-equality oracle",
         "One generated package declares a function for every type of a 588-type grammar (20 leaves, Option/List/Result/Verdict nestings to depth 2), 57 filtermaps, all arity signatures up to 7 (plus 8/9), shadowing declarations, tests and 1 300+ compiler-generated helpers; EVERY target is requested under EVERY one of 365 Rust function types (663 116 decisions quick, 2.96 M thorough): Ok iff the descriptors are structurally equal, never a panic; diagonal handles are called once.",
         "Rust-side nesting depth is bounded by rustc instantiation time (depth 2); types that cannot be named outside the crate are not reachable; descriptor oracle (Desc trait) trusted."),
 "C05": ("4/C05",
         "exhaustive enumeration of boundary types x edge values x routes across the host boundary (Rust<->script argument positions 1..7, returns, host calls, constants, context fields in all field orders, script-constructed / script-matched enums, script-computed small integers), structural equality of what arrives with what was sent",
         "112 boundary types (the 20 leaves, Option / List over one representative per size/alignment class, Result / Verdict pairs, 38 depth-2 nestings) x their exhaustive edge values (ALL 256 values of 8-bit types, boundary sets otherwise, every variant x payload edge, lists of length 0/1/4/5) x EVERY route: argument at each of the 7 positions with fillers of other size classes (each register and stack slot), script literal returned, script->host argument at each position, host->script return, registered constant, context field for 125 context structs (5 field sets x all 24 orders + default layout), enums built in the script from Rust payloads and Rust-built enums matched in the script, and script-computed 8/16-bit integers and bools handed to widening host functions built at opt-level 3 (all 65 536 8-bit operand pairs).",
         "Nesting depth 2; table thinned by size class, never by route; small integers in stack-slot positions of host calls are not observable with optimised host code; x86-64 SysV ABI."),
 "C06": ("4/C06",
         "bounded-exhaustive input enumeration (token sequences, untyped expression trees, type expressions, deviation-bounded mutations of valid seeds, module trees) through the public compile API with a totality oracle; stack-overflow candidates are probed in a forked copy of the worker",
         "All token sequences of length <= 2 (thorough 3) over the 75-token alphabet in 3 wrappers, all untyped expressions over every ast::Expr form (49 atoms x 140 one-hole templates, 6 positions), all type expressions to depth 2, every single-character deletion/insertion/truncation and single-token replacement of 36 seeds (thorough: deviation 2 on micro seeds), all texts over a multi-byte alphabet in 53 position kinds, and module trees of <= 3 files in memory and on disk: compile returns a package or a report, never a panic/abort/stack overflow/hang; the report renders with and without colour and every cited location lies in its file on character boundaries.",
         "Inputs more than two deviations from a seed or longer than the token bound are not enumerated; nesting depth bounded."),
 "C07": ("4/C07",
         "exhaustive single-edit enumeration: every applicable type-breaking edit from a closed list at every position of every well-typed seed program, compiled through the public API; a mutant that compiles is the violation",
         "2 670 well-typed seeds (all depth-1 numeric / comparison / logic expressions for the 10 numeric types, the 93 C01 templates, all control-flow skeleton bodies of size <= 2, 48 hand-written seeds over records, enums, Option/?, match, lists, loops, filtermaps, constants, imports, f-strings, methods, context) x EVERY applicable edit of the closed list e1-e10 (concretely typed expression of another type in every operand/argument/field/condition/element/return/assignment position, argument count, undeclared / out-of-scope names, missing / duplicate / unknown fields, non-exhaustive or unreachable arms, unary minus on unsigned, arithmetic / ordering on non-numbers, ? / accept / reject / return where forbidden, assignment to non-locals, redeclaration, recursive types and constants) = 565 k mutants quick, 3.4 M thorough: each must be rejected with a type error report (a compile is class `accepted`, a compiler crash class `crash-instead-of-type-error`).",
         "The edit list, not the implementation, defines ill-typedness (each operator cites its rule); doubtful cases (let-shadowing) are executed but not judged."),
 "C08": ("4/C08",
         "bounded-exhaustive program enumeration with an effect marker at every sub-expression position, executed on the real pipeline and compared with the reference interpreter's host-call log",
         "All effect-marker expressions over every multi-operand construct (operators, calls with 1-4 arguments, method calls with effectful receiver and arguments, record literals in non-declared order, list literals, enum constructors, f-strings, blocks, if/else, match) to depth 2 (thorough 3), and all statement bodies (compound assignment reading its target first, return, for, if, while, guarded match with interleaved `_` arms, `?`, early return) to size 2 (thorough 3); each program runs on all 16 vectors of its four bool inputs; the log (function, arguments, order, multiplicity) and the value must equal the model's.",
         "Programs beyond the depth/size bound; reference interpreter c00ref defines the order semantics."),
 "C09": ("4/C09",
         "exhaustive enumeration of literal spellings, identifiers and operator sequences against independent decoders and a reference precedence parser written from the documentation",
         "Every integer/hex/float spelling of the bounded grammar with every underscore placement and suffix, every escape (all 256 \\xNN, \\u{} boundaries), line continuations, f-string texts over a multi-byte alphabet around 0-2 interpolations, IPv4/IPv6/ASN/prefix forms, identifier class representatives (thorough: EVERY Unicode scalar value as first and second character), keywords, comments/shebang at every token gap, and ALL sequences of k <= 3 (thorough 5) binary operators with unary masks: accepted spellings must denote the decoded value; unparenthesised and reference-parenthesised programs must agree on all input vectors; forbidden chains must be rejected.",
         "Only accepted spellings are judged for value; `unicode-ident` is the trusted XID reference; operand domain {-3..3}."),
 "C10": ("4/C10",
         "bounded-exhaustive input enumeration on the real JIT: every (operator, int type) on all operand pairs of the bounded domain and every built-in on the cross product of edge domains, each call in a crash-isolated worker",
         "Every integer operator of every width runs on ALL 65 536 operand pairs (8-bit; thorough: all 2^32 pairs for 16-bit) or on the boundary cross product (wider types), and every built-in runs on the full cross product of per-parameter edge domains; the oracle is survival of the worker process, so any trap, abort or panic across the FFI boundary on any enumerated input is reported with the exact operands. Exhaustive inside the stated bounds, real compiled code, no sampling.",
         "Values strictly between boundary values for >=32-bit operands are not enumerated; x86-64 only; resource-exhaustion excluded by construction."),
 "C17": ("4/C17",
         "exhaustive enumeration of argument domains for every built-in of the default runtime (table checked against the runtime's generated documentation at run time) through compiled scripts and direct Rust calls against std/inetnum references",
         "Every built-in (77 built-ins, 117 surface forms; the list is read from the runtime so a new built-in without a reference is a machinery error) on the full cross product of its domains: all strings of <= 3 symbols (thorough 5) over a multi-byte alphabet incl. CR/LF forms, every index 0..=len+1 plus 2^32/2^63/u64::MAX, all 8/16-bit integers and all 1.1 M chars for to_string, float edge sets, IPv4/IPv6/prefix sets, all StringBuf push sequences <= 3: the value through the compiled script (and through the public Rust method) equals the std / inetnum reference given by the documentation.",
         "The documentation defines the reference; `lines().slice(len, len)` treated as unspecified; List.* belongs to C15."),
 "C18": ("4/C18",
         "exhaustive enumeration of libraries built with the non-macro registration API (item trees x name patterns x injected defects x splits over add calls x all item permutations) against a reference model of the scope rules, followed by generated probe scripts for every bound and unbound path",
         "All item trees with <= 3 items (4 reduced; thorough <= 4 complete) and module nesting <= 2 over {module, clone/copy type, function, method, static method, constant, use} with every name-equality pattern over the valid pool plus every single invalid name (keyword, leading digit, blank, empty, surrounding white space), zero or one injected defect, every distribution over 1-2 Runtime::add calls and EVERY permutation of each add's items: the model predicts Ok/Err for constructors and adds (a panic is a violation); after Ok one generated script calls every function/method, reads every constant and round-trips every type at its declared path and at every `use` path, one script per path the model does not bind must fail to compile, and the outcome must be identical for all permutations. 15 library! macro forms are checked on the valid subset.",
         "Valid names are assumed interchangeable up to their equality pattern; the state after a failed add is unspecified (histories stop there)."),
 "C19": ("4/C19",
         "exhaustive enumeration of test-block placements x outcome vectors (library API) and of (sub-command, script kind) pairs (the roto binary built from the tree under test, run as a subprocess)",
         "Part A: four module trees, k <= 3 test blocks (k = 4 reduced; thorough k <= 6) with ALL placements and ALL 2^k accept/reject vectors in nine naming/outcome flavours (sorted vs source order, cross-module and in-module name collisions, same-named functions and filtermaps), each package compiled twice and run_tests called twice: Ok iff all accept, every block's mark logged exactly once per run in the same order, get_function never returns a test, a script cannot call a test (180 caller cases). Part B: all 8 sub-command forms x 20 script kinds = 160 launches of the roto binary: exit status and printed marks as the statement demands.",
         "NoCtx packages only; any deterministic test order is accepted."),
 "C20": ("4/C20",
         "differential bounded-exhaustive enumeration: each generated program is lowered once (hook H4), evaluated by the crate's IR evaluator and JIT-compiled from the same IR; results and host-call logs compared on every input vector",
         "The C01 program families restricted to scalar parameters (all operators and widths at depth 1, truth-table programs, comparison/logic forms, control-flow skeletons up to size 2 (thorough 3) including calls, match, loops and early return) on a path-covering boundary input set; a completed evaluation must equal the JIT's value and log; evaluator panics are allowed and counted per message class so vacuity is visible (about 70% of evaluations complete).",
         "Inputs on which the language leaves the result open are skipped; only scalar-returning functions; evaluator panics in debug builds on overflow are 'stops loudly'."),
 "C11": ("4/C11",
         "explicit-state search (BFS with model-state deduplication) over operation histories executed on the real Runtime / Package / TypedFunc objects, with a drop-tracking ledger and code-liveness hooks as oracles",
         "All sequences up to depth 8 (thorough 11) of {new runtime, compile script version 1|2, get handle, clone handle, call handle, drop handle here or on another thread, drop package, drop runtime} with at most 1 live runtime, 2 live packages and 3 live handles, deduplicated by the reference model's state; every transition is executed on fresh real objects by replaying the representative history. After every step: each call returns the value its version defines, the ledger of live tracked values (script constant, registered constant, value captured by a registered closure) equals what the model says must be alive, machine code was freed for exactly the dead modules (hook H3), nothing is dropped twice; at the end everything is released. Part B (independence of packages of different runtimes): for every pair of names out of a pool of 16 (thorough 24), a subject with two independent constants initialised by a counting host closure is compiled after every one of 17 earlier histories of the process (nothing, or an unrelated package mentioning the names in either order as functions / locals / fields / constants, dropped or kept), each history in a forked copy of the worker; the values read through a handle must equal those of the empty history.",
         "Equal model keys have equal futures (argued in the evidence); depth bound; two script versions."),
 "C12": ("4/C12",
         "stateless model checking of real threads calling real compiled code under a controlled scheduler (all interleavings up to a preemption bound at script host-call / type-registry-lock / list-lock granularity) plus exhaustive enumeration of type-level API probes decided by rustc and, where wrongly accepted, exhibited as a concrete losing schedule",
         "Part A: all programs of 2 threads x 1 operation over 8 operations (unbounded) and 2 x 2 over 5 operations (bound 2; thorough 3 threads / 3 operations, bound 3) from {call with locals+record / tracked values+tracked constant / strings / shared list across host calls, clone+call, get_function, compile+call on the shared runtime (hot reload), drop the package}; every schedule is executed on the real code: each call returns its single-threaded value, the shared list holds exactly what was pushed, the ledger balances, no panic or deadlock. Part B: 18 probes = every API entry point that accepts user state x {Sync, Send+!Sync, !Send}, type-checked by rustc; state reachable from two threads must be Sync; a wrongly accepted probe is run under the scheduler until a lost update is exhibited.",
         "Interleavings inside compiled code between two schedule points and weak-memory behaviour are not explored (generated code touches only its own stack frame and read-only constants: argued from the code)."),
 "C13": ("4/C13",
         "exhaustive enumeration of module trees x item placements x reference forms x import placements, compiled in memory and from disk, against a reference resolver written from the documented lookup rules",
         "All module-tree shapes with <= 3 modules (thorough 4, depth 2), a function, a constant and a record each placed in every subset of the modules with distinct tags, referenced from every module and five nesting positions by 16 path forms, 7 shadowing variants, 6 import kinds x 10 import placements; plus get_function for 22 module paths incl. non-existent ones, in memory and in every on-disk layout (name.roto vs name/mod.roto, distractor files, both present): the compiled call returns exactly the tag the reference resolver designates, or compilation fails exactly when the resolver says the name is not reachable.",
         "Reference resolver (declarations of the innermost scope, then its imports, then outward; later segments among direct members only) is the oracle; cases the documentation leaves open are counted as unspecified."),
 "C14": ("4/C14",
         "exhaustive enumeration of labelled dependency DAGs of constants and functions (all graphs on n positions x kinds x module placements x reference forms, plus every injected back edge and context read) compiled on the real pipeline with an evaluation-order log oracle",
         "ALL labelled DAGs on n <= 3 declaration positions (n = 4 with one reference form; thorough n = 4 complete, n = 5 restricted) x every node a constant or a function x every placement in pkg / pkg.m x 9 reference forms, the same graphs with every cycle-closing back edge (rejected iff the cycle contains a constant, else accepted recursion) and with a context read reached directly or through functions (rejected iff a constant reaches it): each constant's initialiser is logged exactly once during compile, after all constants it transitively depends on; every getter/function returns the model value afterwards and logs nothing; rejected graphs log nothing.",
         "i32 constants only; filtermaps/tests as graph nodes not covered."),
 "C15": ("4/C15",
         "explicit-state search (BFS, states deduplicated by the Vec model's canonical key) over operation histories on up to 3 aliased list handles, every transition executed on real lists rebuilt by replaying the representative history, from Rust and from compiled script one-liners alternately",
         "All operation sequences to depth 4 (thorough 6) from the empty state and from 54 seeded states around the growth boundaries (lengths 0,3,4,5,7,8,9,16,17; aliased / distinct / made by Rust or by script) over {new, from/literal, clone, drop, push, get, len, is_empty, capacity, swap (all index pairs), contains, index, concat / + (incl. self and aliases), == on all ordered pairs, to_vec, into_iter / for, join, Debug} with indices {0,1,len-1,len,len+1,MAX}, for element types u8, u64, String, List[u8], Val<Z> (zero-sized tracked), Val<Tr> (24-byte tracked) and Option<u32>; every result and the full observable state (contents, len, capacity >= len, aliasing partition) equal the shared-vector model, operands of concat unchanged, ledger balanced after dropping all handles, list buffer events consistent, heap block count unchanged, `==` terminates for every aliasing pattern (watchdog). The harness allocator poisons fresh/freed memory and always moves on realloc.",
         "Exact capacity values are unspecified (only capacity >= len); depth bound; 79 k states quick / 800 k thorough."),
 "C16": ("4/C16",
         "stateless model checking of the real List/ErasedList/RawList code: controlled scheduler over real OS threads, all interleavings up to a preemption bound at lock-acquisition / element-pointer-use granularity (exact blocking via try_lock probe), with stale-pointer, lockset, deadlock and brute-force linearizability oracles",
         "All programs of 2 threads x 2 operations over a 10-operation menu (thorough: 17 operations unbounded, plus 2x3 and 3x2 shapes at bound 3) on two colliding lists, one pre-filled to capacity so that a push relocates, in both address orders of the two lists; for each program EVERY schedule with at most 2 preemptions is executed on the real code. Each execution is checked for use of an element pointer whose buffer generation changed (deterministic use-after-free detector), element reads outside the critical section (lockset probe), deadlock (no enabled thread), linearizability of the recorded call/return history against the Vec model (brute force) and final contents. Nested family: two List<List<u64>> whose five inner lists are shared too (element clone / drop / == take locks of their own), all 2x2 programs over a 7-operation menu (thorough 13) in both address orders of the outer lists, same oracles with a model of five inner vectors and two vectors of handles.",
         "Schedule points exist only where hook lines are (a lint fails the check with exit 2 when a .lock() in list.rs has no hook line before it); sequentially consistent interleavings only (no weak-memory effects); Arc reference counting trusted. Two threads wrongly admitted into one critical section (a lock that became shared) never overlap under a lock-granularity scheduler: for that class only, a supplementary free-running pass (28 cases x 4 unscheduled OS threads, invariants of every linearizable execution; sampling, labelled exhaustive=false, not counted in states) runs after the exhaustive part."),
}

# sentences appended to the level text (families added in later rounds)
EXTRA = {
 "C02": " Also: anonymous records written in every permutation against every permutation of the written-out type at 12 unification sites; two written-out types listing the same fields in different orders at 4 site groups (a type error is an allowed answer; otherwise fields are addressed by name); a failing guard that assigns to the matched variable (the examinee is evaluated once); and `==` on the SAME value for 8 element types holding NaN / -0.0 / a number (a copy, an aliased list, contains / index).",
 "C03": " Match arms whose whole body is an exit while owned bindings are alive. A tracked value that is compared (`==`, contains, index) must be live: read-after-drop is an event of its own.",
 "C04": " Twin family: two Rust types with equal printed names, one registered: every request sequence up to length 3 on one package (516 histories). History family: 2-3 packages compiled one after another in a process of its own.",
 "C06": " Further layers: scaling repeaters (L6), self-reference through type constructors (L7), constants in every position (L8), uninhabited / unconstrained bindings (L9), type names with 0-3 arguments in every type position (L10), diagnostics across 2-3 modules behind comment headers in 1-4 byte characters (L11, 47 096 inputs), every directed reference graph on up to three constants / functions (L12, 12 400), the same name twice in every kind of name list (L13).",
 "C07": " Edit kind e1-foreign-receiver: a function filed under the receiver's type whose first parameter has another type, called as a method on a variable.",
 "C08": " Also: unit-typed effect expressions (host / script / nested calls of type ()) in every position that takes a unit value, incl. accept / reject / return operands; a failing guard that assigns to the matched variable; f-string parts whose conversion is a logging host call.",
 "C11": " Script constants of script-declared aggregate types holding a tracked value; registered closures capturing a 24-byte and a zero-sized tracked value; a constant registered after packages were compiled (AddLater); into_func closures; script-made lists; drops during unwinding; code-page accounting.",
 "C12": " Part C: stack discipline on spawned threads (13 forked scenarios). Part D: all histories up to length 3 (thorough 4) of registry-facing operations (refused / accepted lookups, registration, get_function + call) over two long-lived threads, each in a forked copy of the worker. The 2 x 1 menu includes a compilation whose constant initialiser is a schedule point and a call that keeps a 4096-byte record live across a host call.",
 "C14": " Family copy: 16 constant types as script and registered constants x 13 ways of overwriting a COPY of the constant, the constant read again in the call, in later calls, from another function and from a second package (279 programs).",
 "C16": " Secondary entry points: 2x2 programs over the type-erased script-side operations (contains_owned, index_owned, push, swap, +, len), Rust index and Rust == on two handles of one list. Third initial configuration: the threads share ONE handle of each list by reference (reference count 1).",
 "C18": " Invalid names include words of identifier characters that are not one identifier token (AS number literals, booleans); library! forms include nested use groups.",
 "C19": " Part A bodies include test blocks calling into recursion cycles of helpers; Part B includes scripts with 2 / 255 / 256 / 257 / 512 rejecting blocks.",
 "C20": " Also: records nested to depth 3 and enums with record payloads (every leaf x every template), ten registered compound constants read through seven access forms, and the aggregate family over u64 with values above 2^32.",
}

NOT_YET = {
}

def hooks_commits():
    out = subprocess.run(["git","-C","/repo","log","--format=%H %s"],capture_output=True,text=True).stdout
    return [l.split()[0] for l in out.splitlines() if "verif hook" in l.lower()]

props = [json.loads(l) for l in open('/verif/properties.jsonl')]
checks, na = [], []
for p in props:
    i = p["id"]
    if i in CHECKS:
        sec, tech, text, note = CHECKS[i]
        text = text + EXTRA.get(i, "")
        checks.append({
            "property_id": i,
            "quick_cmd": f"./check {i} quick",
            "thorough_cmd": f"./check {i} thorough",
            "evidence_file": f"/verif/evidence/{i}.json",
            "replay_cmd_template": f"./check {i} --replay {{path}}",
            "engine": "mc/" + i.lower(),
            "level_claimed": {"category": "model_checking", "text": text, "design_ref": "DESIGN.md section " + sec},
            "level_note": note,
            "technique": tech,
        })
    else:
        na.append({"property_id": i, "reason": NOT_YET.get(i, "check not completed yet (bounded-exhaustive check designed in DESIGN.md section 4, not built/validated at this commit)")})

m = {
 "version": 1,
 "setup_cmd": "./setup.sh",
 "hooks": {
   "guard": "verif-hooks",
   "enable": "cargo feature `verif-hooks` of the roto crate, switched on by the dependency declaration in /verif/mc/Cargo.toml",
   "baseline_off_cmd": BASELINE_OFF,
   "source_commits": hooks_commits(),
   "add_only": True,
 },
 "engines": [
   {"name": "vcore", "path": "mc/vcore", "serves_properties": sorted(CHECKS), "kind_free_text": "work-unit pool over crash-isolated worker processes, shared-memory case marks, watchdog, known-findings classification, replay, evidence"},
   {"name": "host", "path": "mc/host", "serves_properties": sorted(CHECKS), "kind_free_text": "host library registered into every harness runtime: effect log, drop-tracking ledger, tracked types (opt-level 3)"},
 ],
 "checks": checks,
 "not_applicable": na,
 "notes": "Exit codes of every check: 0 held (known findings printed as KNOWN-FINDING lines), 1 unlisted violation (VIOLATION line + replay file), 2 machinery error (never a verdict). Known findings: /verif/known_findings.json.",
}
json.dump(m, open('/verif/MANIFEST.json','w'), indent=1)
print("claimed:", [c["property_id"] for c in checks])
