#!/usr/bin/env python3
"""Regenerate /verif/MANIFEST.json from the table below (single source of truth)."""
import json, subprocess

BASELINE_OFF = ("cd /repo && cargo nextest run --workspace --no-fail-fast --test-threads 8 --offline "
                "|| (cd /repo && cargo test --workspace --no-fail-fast --offline)")

# id -> (design section, technique, level text, level note)
CHECKS = {
 "C10": ("4/C10",
         "bounded-exhaustive input enumeration on the real JIT: every (operator, int type) on all operand pairs of the bounded domain and every built-in on the cross product of edge domains, each call in a crash-isolated worker",
         "Every integer operator of every width runs on ALL 65 536 operand pairs (8-bit; thorough: all 2^32 pairs for 16-bit) or on the boundary cross product (wider types), and every built-in runs on the full cross product of per-parameter edge domains; the oracle is survival of the worker process, so any trap, abort or panic across the FFI boundary on any enumerated input is reported with the exact operands. Exhaustive inside the stated bounds, real compiled code, no sampling.",
         "Values strictly between boundary values for >=32-bit operands are not enumerated; x86-64 only; resource-exhaustion excluded by construction."),
 "C16": ("4/C16",
         "stateless model checking of the real List/ErasedList/RawList code: controlled scheduler over real OS threads, all interleavings up to a preemption bound at lock-acquisition / element-pointer-use granularity (exact blocking via try_lock probe), with stale-pointer, lockset, deadlock and brute-force linearizability oracles",
         "All programs of 2 threads x 2 operations over a 10-operation menu (thorough: 17 operations unbounded, plus 2x3 and 3x2 shapes at bound 3) on two colliding lists, one pre-filled to capacity so that a push relocates, in both address orders of the two lists; for each program EVERY schedule with at most 2 preemptions is executed on the real code. Each execution is checked for use of an element pointer whose buffer generation changed (deterministic use-after-free detector), element reads outside the critical section (lockset probe), deadlock (no enabled thread), linearizability of the recorded call/return history against the Vec model (brute force) and final contents.",
         "Schedule points exist only where hook lines are (a lint fails the check with exit 2 when a .lock() in list.rs has no hook line before it); sequentially consistent interleavings only (no weak-memory effects); Arc reference counting trusted."),
}

NOT_YET = {
}

def hooks_commits():
    out = subprocess.run(["git","-C","/repo","log","--format=%H %s"],capture_output=True,text=True).stdout
    return [l.split()[0] for l in out.splitlines() if "verif hook" in l.lower()]

props = [json.loads(l) for l in open('/verif/properties.jsonl')]
checks, na = [], []
for p in props:
    i = p["id"]
    if i in CHECKS:
        sec, tech, text, note = CHECKS[i]
        checks.append({
            "property_id": i,
            "quick_cmd": f"./check {i} quick",
            "thorough_cmd": f"./check {i} thorough",
            "evidence_file": f"/verif/evidence/{i}.json",
            "replay_cmd_template": f"./check {i} --replay {{path}}",
            "engine": "mc/" + i.lower(),
            "level_claimed": {"category": "model_checking", "text": text, "design_ref": "DESIGN.md section " + sec},
            "level_note": note,
            "technique": tech,
        })
    else:
        na.append({"property_id": i, "reason": NOT_YET.get(i, "check not completed yet (bounded-exhaustive check designed in DESIGN.md section 4, not built/validated at this commit)")})

m = {
 "version": 1,
 "setup_cmd": "./setup.sh",
 "hooks": {
   "guard": "verif-hooks",
   "enable": "cargo feature `verif-hooks` of the roto crate, switched on by the dependency declaration in /verif/mc/Cargo.toml",
   "baseline_off_cmd": BASELINE_OFF,
   "source_commits": hooks_commits(),
   "add_only": True,
 },
 "engines": [
   {"name": "vcore", "path": "mc/vcore", "serves_properties": sorted(CHECKS), "kind_free_text": "work-unit pool over crash-isolated worker processes, shared-memory case marks, watchdog, known-findings classification, replay, evidence"},
   {"name": "host", "path": "mc/host", "serves_properties": sorted(CHECKS), "kind_free_text": "host library registered into every harness runtime: effect log, drop-tracking ledger, tracked types (opt-level 3)"},
 ],
 "checks": checks,
 "not_applicable": na,
 "notes": "Exit codes of every check: 0 held (known findings printed as KNOWN-FINDING lines), 1 unlisted violation (VIOLATION line + replay file), 2 machinery error (never a verdict). Known findings: /verif/known_findings.json.",
}
json.dump(m, open('/verif/MANIFEST.json','w'), indent=1)
print("claimed:", [c["property_id"] for c in checks])
