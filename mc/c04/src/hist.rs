//! History family: what `get_function` hands out must not depend on what was
//! compiled or requested earlier in the same process.
//!
//! A *variant* is a one-function package `main` in which exactly one type X
//! differs from its siblings: the accept payload of a filtermap (FA), its
//! reject payload (FR), a parameter (FP), the return value (FV), or both (FB).
//! X ranges over the 10 numeric types, bool, String, Option/List of u8 and
//! u64, and the registered type `Thing`, which three runtimes bind to three
//! different Rust types (so those variants are textually identical).
//!
//! A *history* compiles 2 or 3 variants one after another and, after each
//! compilation, requests the true signatures of all variants seen so far from
//! the newest package (the foreign ones first), then goes back to the older
//! packages. Every history runs in a process of its own (the check binary
//! re-executed with `C04_HISTORY=<tier>:<index>`), so what it observes cannot
//! depend on other cases, and a replay re-runs the whole history.
//!
//! Oracle: a request is answered `Ok` iff the requested signature equals the
//! true signature of the package it is sent to; handles obtained under the
//! true signature are called once.

use std::collections::HashMap;
use std::io::Write;

use c04p::probe::{Got, Table, thing_runtime};
use c04p::ty::{Leaf, T, l, list, opt, unit, ver};
use roto::{FileTree, NoCtx, Package, Runtime};
use vcore::util::{catch, fnv_str, mix};
use vcore::{Cx, Tier, Value, json};

pub const HIST_PER_UNIT: usize = 50;

#[derive(Clone, Copy, PartialEq, Eq, Debug)]
pub enum Pos {
    /// filtermap accept payload
    FA,
    /// filtermap reject payload
    FR,
    /// parameter
    FP,
    /// return value
    FV,
    /// parameter and return value
    FB,
}

const POSITIONS: [Pos; 5] = [Pos::FA, Pos::FR, Pos::FP, Pos::FV, Pos::FB];

struct HType {
    ty: T,
    /// expression of that type (the type is pinned by an annotation)
    expr: &'static str,
    /// runtime the variant is compiled on
    rt: u8,
}

fn types() -> Vec<HType> {
    let h = |ty, expr, rt| HType { ty, expr, rt };
    vec![
        h(l(Leaf::U8), "5", 0),
        h(l(Leaf::U16), "5", 0),
        h(l(Leaf::U32), "5", 0),
        h(l(Leaf::U64), "5", 0),
        h(l(Leaf::I8), "5", 0),
        h(l(Leaf::I16), "5", 0),
        h(l(Leaf::I32), "5", 0),
        h(l(Leaf::I64), "5", 0),
        h(l(Leaf::F32), "1.5", 0),
        h(l(Leaf::F64), "1.5", 0),
        h(l(Leaf::Bool), "true", 0),
        h(l(Leaf::Str), "\"s\"", 0),
        h(opt(l(Leaf::U8)), "Option.Some(5)", 0),
        h(opt(l(Leaf::U64)), "Option.Some(5)", 0),
        h(list(l(Leaf::U8)), "[5]", 0),
        h(list(l(Leaf::U64)), "[5]", 0),
        h(T::Reg(0), "mk_thing()", 0),
        h(T::Reg(1), "mk_thing()", 1),
        h(T::Reg(2), "mk_thing()", 2),
    ]
}

/// indices into `types()` of the reduced set used for the third package
const REDUCED: [usize; 5] = [0, 3, 11, 16, 17];

#[derive(Clone, Debug)]
pub struct Variant {
    pub pos: Pos,
    pub ty: T,
    pub rt: u8,
    pub src: String,
    pub params: Vec<T>,
    pub ret: T,
}

/// position-major: FA x 19, FR x 19, FP x 19, FV x 19, FB x 19
pub fn variants() -> Vec<Variant> {
    let mut v = vec![];
    for pos in POSITIONS {
        for h in types() {
            let ty = h.ty.roto();
            let e = h.expr;
            let u32_ = l(Leaf::U32);
            let (src, params, ret) = match pos {
                Pos::FA => (
                    format!("filtermap main(x: u32) {{\n    let v: {ty} = {e};\n    if x > 10 {{ accept v }} else {{ reject }}\n}}\n"),
                    vec![u32_],
                    ver(h.ty.clone(), unit()),
                ),
                Pos::FR => (
                    format!("filtermap main(x: u32) {{\n    let v: {ty} = {e};\n    if x > 10 {{ accept }} else {{ reject v }}\n}}\n"),
                    vec![u32_],
                    ver(unit(), h.ty.clone()),
                ),
                Pos::FP => (format!("fn main(v: {ty}) {{}}\n"), vec![h.ty.clone()], unit()),
                Pos::FV => (format!("fn main() -> {ty} {{\n    {e}\n}}\n"), vec![], h.ty.clone()),
                Pos::FB => (format!("fn main(v: {ty}) -> {ty} {{\n    v\n}}\n"), vec![h.ty.clone()], h.ty.clone()),
            };
            v.push(Variant { pos, ty: h.ty.clone(), rt: h.rt, src, params, ret });
        }
    }
    v
}

/// groups of variants whose texts differ in one type only (FA and FR share
/// the stored return type `Verdict[_, _]`, so they form one group)
fn groups() -> Vec<(Vec<usize>, Vec<usize>)> {
    let n = types().len();
    let full = |lo: usize, hi: usize| -> Vec<usize> { (lo * n..hi * n).collect() };
    let red = |lo: usize, hi: usize| -> Vec<usize> {
        (lo..hi).flat_map(|p| REDUCED.iter().map(move |t| p * n + t)).collect()
    };
    vec![(full(0, 2), red(0, 2)), (full(2, 3), red(2, 3)), (full(3, 4), red(3, 4)), (full(4, 5), red(4, 5))]
}

/// Every history of the tier as a sequence of variant indices: all ordered
/// pairs within a group (including (a, a)), then triples (a, c, b) — quick:
/// a, c, b over the reduced set of the group; thorough: a, b over the whole
/// group, c over its reduced set.
pub fn histories(tier: Tier) -> Vec<Vec<usize>> {
    let mut out = vec![];
    for (full, _) in groups() {
        for &a in &full {
            for &b in &full {
                out.push(vec![a, b]);
            }
        }
    }
    for (full, red) in groups() {
        let ab: &Vec<usize> = if tier == Tier::Thorough { &full } else { &red };
        for &a in ab {
            for &c in &red {
                for &b in ab {
                    out.push(vec![a, c, b]);
                }
            }
        }
    }
    out
}

#[derive(Clone, Copy, Debug, PartialEq)]
pub enum Step {
    /// compile variant `seq[slot]` into package `slot`
    Compile { slot: usize },
    /// request the true signature of variant `seq[of]` from package `slot`
    Request { slot: usize, of: usize },
}

pub fn steps(seq: &[usize]) -> Vec<Step> {
    let n = seq.len();
    let mut s = vec![];
    for i in 0..n {
        s.push(Step::Compile { slot: i });
        // the foreign signatures first, then its own
        for j in 0..=i {
            s.push(Step::Request { slot: i, of: j });
        }
    }
    // back to the older packages: the newest signature, then their own again
    for j in 0..n - 1 {
        s.push(Step::Request { slot: j, of: n - 1 });
        s.push(Step::Request { slot: j, of: j });
    }
    s
}

fn same_sig(a: &Variant, b: &Variant) -> bool {
    a.params == b.params && a.ret == b.ret
}

pub fn table() -> Table {
    let mut v: Table = vec![];
    c04t7::fill(&mut v);
    v
}

/// variant index -> probe index (the probe whose signature is the variant's true one)
fn probe_of(vs: &[Variant], tb: &Table) -> Result<Vec<usize>, String> {
    let mut m: HashMap<(Vec<T>, T), usize> = HashMap::new();
    for (i, p) in tb.iter().enumerate() {
        if m.insert((p.params(), p.ret()), i).is_some() {
            return Err(format!("history probe {i} listed twice"));
        }
    }
    vs.iter()
        .map(|v| m.get(&(v.params.clone(), v.ret.clone())).copied().ok_or_else(|| format!("no history probe for {}", v.src)))
        .collect()
}

pub fn preflight() -> Result<(), String> {
    let vs = variants();
    let tb = table();
    let po = probe_of(&vs, &tb)?;
    let mut seen = std::collections::HashSet::new();
    for p in &po {
        if !seen.insert(*p) {
            return Err("two history variants share a true signature".into());
        }
    }
    if tb.len() != vs.len() {
        return Err(format!("{} history probes for {} variants", tb.len(), vs.len()));
    }
    Ok(())
}

fn sig_rust(params: &[T], ret: &T) -> String {
    let ps: Vec<String> = params.iter().map(|p| p.rust()).collect();
    format!("fn({}) -> {}", ps.join(", "), ret.rust())
}

// ------------------------------------------------------------------ child

fn compile(rt: &Runtime<NoCtx>, src: &str) -> Result<Package<NoCtx>, String> {
    match catch(|| FileTree::test_file("pkg.roto", src, 0).compile(rt)) {
        Ok(Ok(p)) => Ok(p),
        Ok(Err(report)) => {
            let mut s = String::new();
            match catch(|| report.write(&mut s, false)) {
                Ok(_) => Err(format!("error report: {}", s.lines().take(8).collect::<Vec<_>>().join(" / "))),
                Err(p) => Err(format!("panic while rendering report: {p}")),
            }
        }
        Err(p) => Err(format!("compiler panic: {p}")),
    }
}

/// Runs history `index` of `tier` in this (fresh) process. Protocol on stdout:
/// `@<step>` before a step starts, `=<step> <observation>` after it.
pub fn child_main(spec: &str) -> ! {
    vcore::util::install_quiet_panic_hook();
    // a history takes milliseconds; anything longer is a hang
    unsafe { libc::alarm(60) };
    let (tier, index) = spec.split_once(':').unwrap_or(("quick", "0"));
    let tier = if tier == "thorough" { Tier::Thorough } else { Tier::Quick };
    let index: usize = index.parse().unwrap_or(0);
    let hs = histories(tier);
    let Some(seq) = hs.get(index) else { std::process::exit(3) };
    let vs = variants();
    let tb = table();
    let po = probe_of(&vs, &tb).unwrap_or_else(|_| std::process::exit(3));
    let out = std::io::stdout();
    let mut say = |s: String| {
        let mut o = out.lock();
        let _ = writeln!(o, "{s}");
        let _ = o.flush();
    };
    let mut pkgs: Vec<Option<Package<NoCtx>>> = (0..seq.len()).map(|_| None).collect();
    for (i, st) in steps(seq).iter().enumerate() {
        say(format!("@{i}"));
        let obs = match *st {
            Step::Compile { slot } => {
                let v = &vs[seq[slot]];
                // the runtime outlives the package
                let rt: &'static Runtime<NoCtx> = Box::leak(Box::new(thing_runtime(v.rt)));
                match compile(rt, &v.src) {
                    Ok(p) => {
                        pkgs[slot] = Some(p);
                        "compiled".to_string()
                    }
                    Err(e) => format!("compile-failed: {e}"),
                }
            }
            Step::Request { slot, of } => match pkgs[slot].as_mut() {
                None => "no-package".to_string(),
                Some(pkg) => {
                    let probe = &*tb[po[seq[of]]];
                    let expected = same_sig(&vs[seq[slot]], &vs[seq[of]]);
                    match catch(|| probe.get(pkg, "main")) {
                        Err(p) => format!("panic: {p}"),
                        Ok(Got::Refused(m)) => format!("refused: {}", m.lines().collect::<Vec<_>>().join(" / ")),
                        Ok(Got::HandleOnly) => "ok".to_string(),
                        // never call through a handle of the wrong type
                        Ok(Got::Handle(_)) if !expected => "ok".to_string(),
                        Ok(Got::Handle(call)) => match catch(call) {
                            Ok(()) => "ok+called".to_string(),
                            Err(p) => format!("ok+call-panic: {p}"),
                        },
                    }
                }
            },
        };
        say(format!("={i} {obs}"));
    }
    std::process::exit(0)
}

// ------------------------------------------------------------------ worker side

fn variant_json(v: &Variant) -> Value {
    json!({
        "position": format!("{:?}", v.pos),
        "type": v.ty.roto(),
        "runtime": format!("runtime {}: Thing = {}", v.rt, T::Reg(v.rt).rust()),
        "script": v.src,
        "true_signature": sig_rust(&v.params, &v.ret),
    })
}

fn step_text(seq: &[usize], vs: &[Variant], st: &Step) -> String {
    match *st {
        Step::Compile { slot } => format!("compile variant {} as package P{}", slot, slot),
        Step::Request { slot, of } => {
            let v = &vs[seq[of]];
            format!("P{slot}.get_function::<{}>(\"main\")", sig_rust(&v.params, &v.ret))
        }
    }
}

pub fn case_json(tier: Tier, index: usize, failing: Option<usize>, observed: &[String]) -> Value {
    let hs = histories(tier);
    let vs = variants();
    let Some(seq) = hs.get(index) else { return json!({"kind": "history", "index": index}) };
    let sts = steps(seq);
    let listing: Vec<Value> = sts
        .iter()
        .enumerate()
        .map(|(i, st)| {
            let exp = match *st {
                Step::Compile { .. } => "compiled",
                Step::Request { slot, of } => {
                    if same_sig(&vs[seq[slot]], &vs[seq[of]]) { "Ok, callable" } else { "Err" }
                }
            };
            json!({"step": i, "do": step_text(seq, &vs, st), "expected": exp, "observed": observed.get(i)})
        })
        .collect();
    let (mut name, mut requested, mut position) = (Value::Null, Value::Null, Value::Null);
    if let Some(Step::Request { slot, of }) = failing.and_then(|f| sts.get(f)) {
        name = json!("main");
        requested = json!(sig_rust(&vs[seq[*of]].params, &vs[seq[*of]].ret));
        position = json!(format!("{:?}", vs[seq[*slot]].pos));
    }
    json!({
        "kind": "history",
        "history_index": index,
        "packages": seq.iter().map(|i| variant_json(&vs[*i])).collect::<Vec<_>>(),
        "steps": listing,
        "failing_step": failing,
        "name": name,
        "requested": requested,
        "position": position,
        "how": "one fresh process: for each package roto::Runtime::from_lib(library!{ #[clone] type Thing = Val<..>; fn mk_thing() -> Val<..> }), FileTree::test_file(\"pkg.roto\", script, 0).compile(&rt), then the listed get_function requests in this order (C04_HISTORY=<tier>:<history_index> /verif/target/debug/c04 runs it)",
    })
}

fn signal_name(sig: i32) -> String {
    match sig {
        4 => "SIGILL".into(),
        6 => "SIGABRT".into(),
        7 => "SIGBUS".into(),
        8 => "SIGFPE".into(),
        9 => "SIGKILL".into(),
        11 => "SIGSEGV".into(),
        n => format!("SIG{n}"),
    }
}

pub fn units(tier: Tier) -> usize {
    histories(tier).len().div_ceil(HIST_PER_UNIT)
}

pub fn run_unit(unit: usize, cx: &mut Cx) {
    use std::os::unix::process::ExitStatusExt;
    let tier = cx.cfg.tier;
    let hs = histories(tier);
    let vs = variants();
    let exe = match std::env::current_exe() {
        Ok(e) => e,
        Err(e) => {
            cx.note(format!("current_exe: {e}"));
            return;
        }
    };
    let lo = unit * HIST_PER_UNIT;
    let hi = (lo + HIST_PER_UNIT).min(hs.len());
    for index in lo..hi {
        let sub = index as u64;
        if !cx.case(sub) {
            continue;
        }
        let seq = &hs[index];
        let sts = steps(seq);
        let res = std::process::Command::new(&exe)
            .env("C04_HISTORY", format!("{}:{}", tier.name(), index))
            .stdin(std::process::Stdio::null())
            .stderr(std::process::Stdio::null())
            .output();
        let res = match res {
            Ok(r) => r,
            Err(e) => {
                // machinery, not a verdict
                cx.violation("spawn", sub, json!({"kind": "history", "history_index": index}), json!("child runs"), json!(e.to_string()));
                continue;
            }
        };
        cx.states(1);
        let text = String::from_utf8_lossy(&res.stdout);
        let mut observed: Vec<String> = vec![];
        let mut started: Option<usize> = None;
        for line in text.lines() {
            if let Some(i) = line.strip_prefix('@') {
                started = i.parse().ok();
            } else if let Some(rest) = line.strip_prefix('=') {
                if let Some((_, obs)) = rest.split_once(' ') {
                    observed.push(obs.to_string());
                }
            }
        }
        cx.transitions(observed.len() as u64);
        if seq.iter().any(|a| seq.iter().any(|b| !same_sig(&vs[*a], &vs[*b]))) {
            cx.nontrivial(mix(fnv_str("history"), index as u64));
        }
        // the child died or hung inside a step
        if !res.status.success() {
            let class = match res.status.signal() {
                Some(14) => "hang".to_string(),
                Some(s) => format!("signal:{}", signal_name(s)),
                None => format!("exit:{}", res.status.code().unwrap_or(-1)),
            };
            cx.violation(
                class,
                sub,
                case_json(tier, index, started, &observed),
                json!("every step of the history completes"),
                json!(format!("the process running the history died in step {:?}", started)),
            );
        }
        for (i, obs) in observed.iter().enumerate() {
            let Some(st) = sts.get(i) else { break };
            cx.outcome(fnv_str(obs.split([':', '+']).next().unwrap_or("")));
            let (class, expected): (Option<&str>, &str) = match *st {
                Step::Compile { .. } => {
                    if obs == "compiled" { (None, "compiled") } else { (Some("compile"), "compiled") }
                }
                Step::Request { slot, of } => {
                    cx.validated(1);
                    let equal = same_sig(&vs[seq[slot]], &vs[seq[of]]);
                    if obs.starts_with("panic") {
                        (Some("panic"), if equal { "Ok(handle)" } else { "Err(..), no panic" })
                    } else if obs.starts_with("ok+call-panic") {
                        (Some("call-panic"), "the call returns")
                    } else if obs.starts_with("ok") {
                        if equal {
                            cx.count("history_handles", 1);
                            (None, "")
                        } else {
                            (Some("accepted"), "Err(..): the requested type is not this package's signature")
                        }
                    } else if equal {
                        (Some("refused"), "Ok(handle): the requested type is this package's true signature")
                    } else {
                        (None, "")
                    }
                }
            };
            if let Some(class) = class {
                cx.violation(class, sub, case_json(tier, index, Some(i), &observed), json!(expected), json!(obs));
            }
        }
        if index % 977 == 3 {
            cx.sample(case_json(tier, index, None, &observed));
        }
    }
}
