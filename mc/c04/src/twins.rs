//! Twin family: two DIFFERENT Rust types whose printed names are equal.
//!
//! "By identity for registered types": the identity of a Rust type is its
//! `TypeId`, not anything that can be printed. Two structs called `Probe`
//! declared in sibling blocks of one function have the same
//! `std::any::type_name` (path of the enclosing function + `Probe`) and are
//! different types (here even of different sizes). One of them is registered as
//! the Roto type `Probe`; the package has `keep(Probe) -> Probe`, `sink(Probe)`
//! and `make() -> Probe`. Every sequence of up to three requests over
//! {registered twin, unregistered twin} x {fn(P) -> P, fn(P), fn() -> P} is sent
//! to ONE fresh package: a request is answered Ok iff it names the registered
//! twin, whatever was requested (and answered) before. Both twins take the role
//! of the registered one in turn. Added after seeded change C04-5 (the result of
//! a successful signature check remembered per function under the printed name
//! of the requested function type).

use roto::{FileTree, NoCtx, Package, Runtime, Val, library};
use vcore::{Cx, Value, json};

const SCRIPT: &str = "fn keep(p: Probe) -> Probe { p }\nfn sink(p: Probe) {}\nfn make() -> Probe { mk() }\n";

type Req = fn(&mut Package<NoCtx>) -> bool;

fn rq_keep<P: Clone + PartialEq + Send + Sync + 'static>(p: &mut Package<NoCtx>) -> bool {
    p.get_function::<fn(Val<P>) -> Val<P>>("keep").is_ok()
}
fn rq_sink<P: Clone + PartialEq + Send + Sync + 'static>(p: &mut Package<NoCtx>) -> bool {
    p.get_function::<fn(Val<P>)>("sink").is_ok()
}
fn rq_make<P: Clone + PartialEq + Send + Sync + 'static>(p: &mut Package<NoCtx>) -> bool {
    p.get_function::<fn() -> Val<P>>("make").is_ok()
}
fn name_of<P: 'static>() -> &'static str {
    std::any::type_name::<fn(Val<P>) -> Val<P>>()
}

struct Twin {
    runtime: fn() -> Runtime<NoCtx>,
    reqs: [Req; 3],
    printed: &'static str,
    size: usize,
}

fn twins() -> [Twin; 2] {
    let a = {
        #[derive(Clone, PartialEq)]
        struct Probe(#[allow(dead_code)] u8);
        Twin {
            runtime: || {
                Runtime::from_lib(library! {
                    #[clone] type Probe = Val<Probe>;
                    fn mk() -> Val<Probe> { Val(Probe(1)) }
                })
                .expect("twin a registers")
            },
            reqs: [rq_keep::<Probe>, rq_sink::<Probe>, rq_make::<Probe>],
            printed: name_of::<Probe>(),
            size: std::mem::size_of::<Probe>(),
        }
    };
    let b = {
        #[derive(Clone, PartialEq)]
        struct Probe(#[allow(dead_code)] [u64; 3]);
        Twin {
            runtime: || {
                Runtime::from_lib(library! {
                    #[clone] type Probe = Val<Probe>;
                    fn mk() -> Val<Probe> { Val(Probe([1, 2, 3])) }
                })
                .expect("twin b registers")
            },
            reqs: [rq_keep::<Probe>, rq_sink::<Probe>, rq_make::<Probe>],
            printed: name_of::<Probe>(),
            size: std::mem::size_of::<Probe>(),
        }
    };
    [a, b]
}

const SHAPES: [&str; 3] = ["fn(Val<Probe>) -> Val<Probe> as `keep`", "fn(Val<Probe>) as `sink`", "fn() -> Val<Probe> as `make`"];

/// all request sequences of length 1..=3 over (twin, shape)
fn sequences() -> Vec<Vec<(usize, usize)>> {
    let alpha: Vec<(usize, usize)> = (0..2).flat_map(|t| (0..3).map(move |s| (t, s))).collect();
    let mut out = vec![];
    let mut level: Vec<Vec<(usize, usize)>> = vec![vec![]];
    for _ in 0..3 {
        let mut next = vec![];
        for h in &level {
            for a in &alpha {
                let mut h2 = h.clone();
                h2.push(*a);
                next.push(h2);
            }
        }
        out.extend(next.iter().cloned());
        level = next;
    }
    out
}

pub fn n_cases() -> usize {
    2 * sequences().len()
}

pub fn describe(i: usize) -> Value {
    let seqs = sequences();
    let (registered, si) = (i / seqs.len(), i % seqs.len());
    let Some(seq) = seqs.get(si) else { return json!({"family": "twins"}) };
    json!({"family": "twins", "script": SCRIPT, "registered_twin": registered,
           "requests": seq.iter().map(|(t, s)| format!("twin {t}: {}", SHAPES[*s])).collect::<Vec<_>>()})
}

pub fn run(cx: &mut Cx) {
    if !cx.case(vcore::SUB_SETUP) {
        return;
    }
    let tw = twins();
    if tw[0].printed != tw[1].printed || tw[0].size == tw[1].size {
        cx.note(format!("twin family is vacuous: printed names {:?} / {:?}, sizes {} / {}", tw[0].printed, tw[1].printed, tw[0].size, tw[1].size));
        cx.count("twins_vacuous", 1);
    }
    let seqs = sequences();
    for registered in 0..2 {
        let rt = (tw[registered].runtime)();
        for (si, seq) in seqs.iter().enumerate() {
            let i = registered * seqs.len() + si;
            if !cx.case(i as u64) {
                continue;
            }
            cx.states(1);
            cx.count("twin_histories", 1);
            let mut pkg = match FileTree::test_file("twins.roto", SCRIPT, 0).compile(&rt) {
                Ok(p) => p,
                Err(e) => {
                    cx.violation("compile", i as u64, describe(i), json!("the twin script compiles"), json!(e.to_string()));
                    return;
                }
            };
            let mut answers = vec![];
            for (t, s) in seq {
                let ok = (tw[*t].reqs[*s])(&mut pkg);
                cx.transitions(1);
                answers.push(ok);
            }
            cx.validated(1);
            if seq.iter().any(|(t, _)| *t != registered) {
                cx.nontrivial(i as u64);
            }
            cx.outcome(vcore::util::fnv_str(&format!("{answers:?}")));
            let want: Vec<bool> = seq.iter().map(|(t, _)| *t == registered).collect();
            if answers != want {
                cx.violation(
                    "twin-accepted",
                    i as u64,
                    describe(i),
                    json!({"answers (Ok?)": want, "printed name of both function types": tw[0].printed}),
                    json!({"answers (Ok?)": answers}),
                );
            }
        }
    }
}
