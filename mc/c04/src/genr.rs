//! Script side: the generated package and the list of request targets
//! (a name handed to `get_function` together with the signature the
//! generator knows that name has, or `None` if nothing retrievable has it).

use c04p::ty::{Leaf, SIX, T, l, unit, ver};
use vcore::Tier;

#[derive(Clone, Debug)]
pub struct Sigd {
    pub params: Vec<T>,
    pub ret: T,
}

#[derive(Clone, Debug, PartialEq)]
pub enum Expect {
    /// retrievable exactly under this signature
    Sig,
    /// nothing retrievable has this name: every request is refused
    Nothing,
    /// the documentation leaves the signature open (only "no panic" is demanded)
    Unspecified,
}

#[derive(Clone, Debug)]
pub struct Target {
    /// the string passed to `get_function`
    pub name: String,
    pub expect: Expect,
    pub sig: Option<Sigd>,
    /// p | r | filtermap | arity | mixed | test | alien | sub | name | host
    pub kind: &'static str,
    /// source text of the item the name designates (or a note)
    pub src: String,
}

pub struct Pkg {
    /// module name of the root file (`pkg` unless a family varies it)
    pub root_module: &'static str,
    pub root: String,
    pub sub: String,
    pub targets: Vec<Target>,
}

fn func(name: &str, kind: &'static str, params: Vec<T>, ret: T, src: String) -> Target {
    Target { name: name.into(), expect: Expect::Sig, sig: Some(Sigd { params, ret }), kind, src }
}

fn nothing(name: impl Into<String>, note: &str) -> Target {
    Target { name: name.into(), expect: Expect::Nothing, sig: None, kind: "name", src: note.into() }
}

/// all signatures (u8|u32)^n, n <= 7, at most one u32, in the order of `tab1::arity`
pub fn arity_sigs() -> Vec<Vec<T>> {
    let mut v = vec![];
    for n in 0..=7usize {
        v.push(vec![l(Leaf::U8); n]);
        for pos in 0..n {
            let mut s = vec![l(Leaf::U8); n];
            s[pos] = l(Leaf::U32);
            v.push(s);
        }
    }
    v
}

fn arity_name(s: &[T]) -> String {
    let pos = s.iter().position(|t| *t == l(Leaf::U32));
    match pos {
        Some(p) => format!("a{}_{}", s.len(), p),
        None => format!("a{}_n", s.len()),
    }
}

pub fn package(tier: Tier) -> Pkg {
    let mut root = String::new();
    let mut t: Vec<Target> = vec![];
    let mut emit = |root: &mut String, tg: Target| {
        root.push_str(&tg.src);
        root.push('\n');
        t.push(tg);
    };

    // ---- p_S / r_S for every S of the grammar
    for s in c04p::ty::script_grammar(tier) {
        let m = s.mangle();
        let src = format!("fn p_{m}(x: {}) {{}}", s.roto());
        emit(&mut root, func(&format!("p_{m}"), "p", vec![s.clone()], unit(), src));
        if s.hits_n5() {
            continue;
        }
        let src = format!("fn r_{m}() -> {} {{ {} }}", s.roto(), s.value());
        emit(&mut root, func(&format!("r_{m}"), "r", vec![], s.clone(), src));
    }

    // ---- the `T?` spelling of Option
    for x in [Leaf::U8, Leaf::Str, Leaf::Tr] {
        let s = c04p::ty::opt(l(x));
        let name = format!("pq_{}", s.mangle());
        let src = format!("fn {name}(x: {}?) {{}}", x.roto());
        emit(&mut root, func(&name, "p", vec![s.clone()], unit(), src));
    }

    // ---- filtermaps: (accept type, reject type, sides used)
    let tv = |x: Leaf| l(x).typed_value();
    for a in SIX {
        for r in SIX {
            let name = format!("fm_b_{}_{}", l(a).mangle(), l(r).mangle());
            let src = format!(
                "filtermap {name}() {{ if eb(0, true) {{ accept {} }} else {{ reject {} }} }}",
                tv(a),
                tv(r)
            );
            emit(&mut root, func(&name, "filtermap", vec![], ver(l(a), l(r)), src));
        }
    }
    for a in SIX {
        let name = format!("fm_a_{}", l(a).mangle());
        let src = format!("filtermap {name}() {{ accept {} }}", tv(a));
        emit(&mut root, func(&name, "filtermap", vec![], ver(l(a), unit()), src));
        let name = format!("fm_r_{}", l(a).mangle());
        let src = format!("filtermap {name}() {{ reject {} }}", tv(a));
        emit(&mut root, func(&name, "filtermap", vec![], ver(unit(), l(a)), src));
    }
    for (name, body) in [
        ("fm_a_bare", "accept"),
        ("fm_r_bare", "reject"),
        ("fm_b_bare", "if eb(0, true) { accept } else { reject }"),
    ] {
        let src = format!("filtermap {name}() {{ {body} }}");
        emit(&mut root, func(name, "filtermap", vec![], ver(unit(), unit()), src));
    }
    // the `filter` keyword
    emit(
        &mut root,
        func("fl_a_bare", "filtermap", vec![], ver(unit(), unit()), "filter fl_a_bare() { accept }".into()),
    );
    emit(
        &mut root,
        func(
            "fl_b_u8_Str",
            "filtermap",
            vec![],
            ver(l(Leaf::U8), l(Leaf::Str)),
            "filter fl_b_u8_Str() { if eb(0, true) { accept 7u8 } else { reject \"s\" } }".into(),
        ),
    );
    // filtermaps with a parameter
    emit(
        &mut root,
        func(
            "fm_p_u8",
            "filtermap",
            vec![l(Leaf::U8)],
            ver(l(Leaf::U8), unit()),
            "filtermap fm_p_u8(x: u8) { accept x }".into(),
        ),
    );
    emit(
        &mut root,
        func(
            "fm_p_u32",
            "filtermap",
            vec![l(Leaf::U32)],
            ver(unit(), l(Leaf::U32)),
            "filtermap fm_p_u32(x: u32) { reject x }".into(),
        ),
    );
    // filtermaps whose payload type is inferred from unannotated literals
    // (one side used; the inferred-payload family has all combinations)
    for tg in inferred_one_sided() {
        root.push_str(&tg.src);
        root.push('\n');
        t.push(tg);
    }
    // a second item that constrains the inferred payload: the signature of a
    // filtermap is inferred package-wide (audit V4: by design)
    for tg in [
        func("cc_b", "inferred", vec![], ver(l(Leaf::U8), l(Leaf::Str)), "filtermap cc_b() { accept 1 }".into()),
        func("cc_g", "inferred", vec![], ver(l(Leaf::U8), l(Leaf::Str)), "fn cc_g() -> Verdict[u8, String] { cc_b() }".into()),
    ] {
        root.push_str(&tg.src);
        root.push('\n');
        t.push(tg);
    }
    // payloads whose type argument nothing determines. Only "no panic" and
    // "one Rust type at most" are demanded.
    for (name, body) in [
        ("fm_a_none", "accept Option.None"),
        ("fm_r_none", "reject Option.None"),
        ("fm_a_empty", "accept []"),
    ] {
        let src = format!("filtermap {name}() {{ {body} }}");
        root.push_str(&src);
        root.push('\n');
        t.push(Target { name: name.into(), expect: Expect::Unspecified, sig: None, kind: "filtermap", src });
    }

    // ---- arity
    for s in arity_sigs() {
        let name = arity_name(&s);
        let ps: Vec<String> = s.iter().enumerate().map(|(i, t)| format!("x{i}: {}", t.roto())).collect();
        let src = format!("fn {name}({}) {{}}", ps.join(", "));
        let tg = func(&name, "arity", s.clone(), unit(), src.clone());
        root.push_str(&src);
        root.push('\n');
        t.push(tg);
    }

    // the same parameter lists with a return value
    for sg in arity_sigs() {
        let name = arity_name(&sg).replacen('a', "ar", 1);
        let ps: Vec<String> = sg.iter().enumerate().map(|(i, t)| format!("x{i}: {}", t.roto())).collect();
        let src = format!("fn {name}({}) -> u8 {{ 7 }}", ps.join(", "));
        let tg = func(&name, "arity", sg.clone(), l(Leaf::U8), src.clone());
        root.push_str(&src);
        root.push('\n');
        t.push(tg);
    }
    // more parameters than any Rust function type that can be requested has
    for n in [8usize, 9] {
        let name = format!("a{n}_n");
        let ps: Vec<String> = (0..n).map(|i| format!("x{i}: u8")).collect();
        let src = format!("fn {name}({}) {{}}", ps.join(", "));
        let tg = func(&name, "arity", vec![l(Leaf::U8); n], unit(), src.clone());
        root.push_str(&src);
        root.push('\n');
        t.push(tg);
    }
    // a function that never returns
    {
        let src = "fn r_never() -> ! { return r_never() }".to_string();
        let tg = func("r_never", "alien", vec![], T::Alien("roto:!"), src.clone());
        root.push_str(&src);
        root.push('\n');
        t.push(tg);
    }

    // ---- parameter and return value together
    for (a, r) in [(Leaf::U8, Leaf::U8), (Leaf::U8, Leaf::U16), (Leaf::U16, Leaf::U8), (Leaf::U16, Leaf::U16)] {
        let name = format!("m_{}_{}", a.roto(), r.roto());
        let src = format!("fn {name}(x: {}) -> {} {{ 7 }}", a.roto(), r.roto());
        let tg = func(&name, "mixed", vec![l(a)], l(r), src.clone());
        root.push_str(&src);
        root.push('\n');
        t.push(tg);
    }

    // ---- script-declared types: no Rust type corresponds
    root.push_str("record Rec { a: u8 }\nenum En { A, B(u8) }\nenum Either[L, R] { Left(L), Right(R) }\n");
    for (ty, alien, val) in [
        ("Rec", "roto:Rec", "Rec { a: 7 }"),
        ("En", "roto:En", "En.A"),
        ("Either[u8, u32]", "roto:Either[u8, u32]", "Either.Left(7)"),
        ("{ a: u8 }", "roto:{ a: u8 }", "{ a: 7 }"),
        ("Option[Rec]", "roto:Option[Rec]", "Option.None"),
    ] {
        let a = T::Alien(alien);
        let m = a.mangle();
        let src = format!("fn p_{m}(x: {ty}) {{}}");
        let tg = func(&format!("p_{m}"), "alien", vec![a.clone()], unit(), src.clone());
        root.push_str(&src);
        root.push('\n');
        t.push(tg);
        let src = format!("fn r_{m}() -> {ty} {{ {val} }}");
        let tg = func(&format!("r_{m}"), "alien", vec![], a.clone(), src.clone());
        root.push_str(&src);
        root.push('\n');
        t.push(tg);
    }

    // ---- tests
    for (name, body) in [("t_acc", "accept"), ("t_rej", "reject")] {
        let src = format!("test {name} {{ {body} }}");
        root.push_str(&src);
        root.push('\n');
        t.push(func(&format!("test#{name}"), "test", vec![], ver(unit(), unit()), src));
    }

    // ---- submodule `sub`: same short names as the root with other types,
    // and declarations that shadow built-in and registered type names
    let mut sub = String::new();
    let mut sub_item = |sub: &mut String, name: &str, kind: &'static str, params: Vec<T>, ret: T, src: &str| {
        sub.push_str(src);
        sub.push('\n');
        t.push(func(&format!("sub.{name}"), kind, params, ret, format!("sub.roto: {src}")));
    };
    sub_item(&mut sub, "q", "sub", vec![l(Leaf::U8)], unit(), "fn q(x: u8) {}");
    sub_item(&mut sub, "r_u8", "sub", vec![], l(Leaf::U16), "fn r_u8() -> u16 { 7 }");
    sub_item(&mut sub, "test#t_sub", "test", vec![], ver(unit(), unit()), "test t_sub { accept }");
    sub.push_str(
        "record Tr { a: u8 }\nenum Result[T, E] { Ok(T), Err(E) }\nenum Verdict[A, R] { Accept(A), Reject(R) }\n\
         enum Option[T] { Some(T), None }\nenum List[T] { Nil, Cons(T) }\nrecord Asn { a: u8 }\n\
         record String { a: u8 }\nrecord i64 { a: u8 }\n",
    );
    for (ty, alien, val) in [
        ("Tr", "roto:sub.Tr", "Tr { a: 7 }"),
        ("Result[u8, u8]", "roto:sub.Result[u8, u8]", "Result.Ok(7)"),
        ("Verdict[u8, u8]", "roto:sub.Verdict[u8, u8]", "Verdict.Accept(7)"),
        ("Option[u8]", "roto:sub.Option[u8]", "Option.Some(7)"),
        ("List[u8]", "roto:sub.List[u8]", "List.Cons(7)"),
        ("Asn", "roto:sub.Asn", "Asn { a: 7 }"),
        ("String", "roto:sub.String", "String { a: 7 }"),
        ("i64", "roto:sub.i64", "i64 { a: 7 }"),
    ] {
        let a = T::Alien(alien);
        let m = a.mangle();
        sub_item(&mut sub, &format!("p_{m}"), "shadow", vec![a.clone()], unit(), &format!("fn p_{m}(x: {ty}) {{}}"));
        sub_item(&mut sub, &format!("r_{m}"), "shadow", vec![], a.clone(), &format!("fn r_{m}() -> {ty} {{ {val} }}"));
    }
    // `T?` and a filtermap's verdict still mean the built-in types there
    sub_item(&mut sub, "pq_u8", "sub", vec![c04p::ty::opt(l(Leaf::U8))], unit(), "fn pq_u8(x: u8?) {}");
    sub_item(&mut sub, "fm_sub", "filtermap", vec![], ver(l(Leaf::U8), unit()), "filtermap fm_sub() { accept 7u8 }");

    // ---- names that designate nothing retrievable
    for base in ["p_u8", "r_u8", "fm_a_bare", "a0_n", "test#t_acc", "sub.q"] {
        t.push(nothing(format!("pkg.{base}"), "package prefix spelled out"));
        t.push(nothing(format!("{base} "), "trailing space"));
        t.push(nothing(format!(" {base}"), "leading space"));
        t.push(nothing(base.to_uppercase(), "upper case"));
        t.push(nothing(format!("{base}\0"), "trailing NUL"));
        t.push(nothing(format!("sub.{base}"), "wrong module"));
        t.push(nothing(format!("::{base}"), "leading ::"));
        t.push(nothing(format!("pkg::{base}"), "rust path syntax"));
        t.push(nothing(format!(".{base}"), "leading dot"));
        t.push(nothing(format!("{base}."), "trailing dot"));
        t.push(nothing(format!("test#{base}"), "test# prefix on a non-test"));
    }
    for (n, note) in [
        ("", "empty"),
        ("pkg", "package name"),
        ("sub", "module name"),
        (".", "dot"),
        ("nope", "unknown"),
        ("q", "exists in sub only"),
        ("pkg.sub.q", "package prefix spelled out"),
        ("sub.sub.q", "module twice"),
        ("t_acc", "test without test#"),
        ("t_sub", "test without test#"),
        ("test#t_sub", "test of sub without module"),
        ("sub.t_sub", "test without test#"),
        ("test#", "test# alone"),
        ("#t_acc", "hash alone"),
        ("test#nope", "unknown test"),
        ("Rec", "a record type"),
        ("En.A", "an enum constructor"),
        ("mk", "host function"),
        ("emit_u8", "host function"),
        ("echo_u8", "host function"),
        ("Tr.payload", "host method"),
        ("String.append", "built-in method"),
        ("u8", "type name"),
        ("Option", "type name"),
        ("main", "unknown"),
    ] {
        t.push(nothing(n, note));
    }
    // helper names as codegen spells them, for small type ids (the actual
    // keys of the module are enumerated at run time as well)
    for h in ["drop", "clone", "eq"] {
        for id in 0..12 {
            t.push(nothing(format!("::generated::{h}_{id}"), "generated helper"));
            t.push(nothing(format!("generated::{h}_{id}"), "generated helper"));
        }
        t.push(nothing(format!("::generated::{h}"), "generated helper"));
    }
    t.push(nothing("::generated", "generated helper module"));

    // a derived name may happen to designate a real function (`sub.r_u8`), or be derived twice
    let mut seen: std::collections::HashSet<String> =
        t.iter().filter(|x| x.expect != Expect::Nothing).map(|x| x.name.clone()).collect();
    t.retain(|x| x.expect != Expect::Nothing || seen.insert(x.name.clone()));

    Pkg { root_module: "pkg", root, sub, targets: t }
}

// ------------------------------------------------------------------ inferred payloads

/// A payload expression built only from unannotated literals, and the type
/// the lowering fixes it to (`{integer}` = i32, `{float}` = f64:
/// typechecker/info.rs). `{v}` is a variable name chosen per position.
pub struct Kind {
    pub tag: &'static str,
    pub pre: &'static str,
    pub expr: &'static str,
    pub ty: T,
}

pub fn kinds() -> Vec<Kind> {
    use c04p::ty::{list, opt};
    let i32_ = || l(Leaf::I32);
    let f64_ = || l(Leaf::F64);
    let k = |tag, pre, expr, ty| Kind { tag, pre, expr, ty };
    vec![
        k("lit", "", "5", i32_()),
        k("neg", "", "-5", i32_()),
        k("sum", "", "5 + 1", i32_()),
        k("mul", "", "2 * 3", i32_()),
        k("if", "", "(if eb(0, true) { 5 } else { 6 })", i32_()),
        k("let", "let {v} = 5; ", "{v}", i32_()),
        k("letneg", "let {v} = -5; ", "{v}", i32_()),
        k("flt", "", "1.5", f64_()),
        k("nflt", "", "-1.5", f64_()),
        k("fsum", "", "1.5 + 2.5", f64_()),
        k("letf", "let {v} = 1.5; ", "{v}", f64_()),
        k("some", "", "Option.Some(5)", opt(i32_())),
        k("someneg", "", "Option.Some(-5)", opt(i32_())),
        k("somef", "", "Option.Some(1.5)", opt(f64_())),
        k("list", "", "[1, 2, 3]", list(i32_())),
        k("listneg", "", "[-1]", list(i32_())),
        k("listf", "", "[1.5]", list(f64_())),
        // an anonymous record has no Rust counterpart at all
        k("rec", "", "{ a: 5 }", T::Alien("roto:{ a: {integer} }")),
        // not inferred: fill the bool and () columns
        k("bool", "", "true", l(Leaf::Bool)),
        k("unit", "", "()", unit()),
    ]
}

fn side(k: &Kind, var: &str) -> (String, String) {
    (k.pre.replace("{v}", var), k.expr.replace("{v}", var))
}

/// accept-only and reject-only filtermap per kind
pub fn inferred_one_sided() -> Vec<Target> {
    let mut t = vec![];
    for k in kinds() {
        let (pre, e) = side(&k, "x");
        let name = format!("ia_{}", k.tag);
        let src = format!("filtermap {name}() {{ {pre}accept {e} }}");
        t.push(func(&name, "inferred", vec![], ver(k.ty.clone(), unit()), src));
        let name = format!("ir_{}", k.tag);
        let src = format!("filtermap {name}() {{ {pre}reject {e} }}");
        t.push(func(&name, "inferred", vec![], ver(unit(), k.ty.clone()), src));
    }
    t
}

const NUM10: [Leaf; 10] = [
    Leaf::U8,
    Leaf::U16,
    Leaf::U32,
    Leaf::U64,
    Leaf::I8,
    Leaf::I16,
    Leaf::I32,
    Leaf::I64,
    Leaf::F32,
    Leaf::F64,
];

fn is_float(x: Leaf) -> bool {
    matches!(x, Leaf::F32 | Leaf::F64)
}

/// The package of the inferred-payload family: every (accept kind, reject
/// kind, sides used) combination, and as controls the same literals with
/// their type pinned by a suffix, an annotated `let`, a declared return type
/// or a parameter.
pub fn inferred_package() -> Pkg {
    let mut t = inferred_one_sided();
    let ks = kinds();
    for a in &ks {
        for r in &ks {
            let (pa, ea) = side(a, "xa");
            let (pr, er) = side(r, "xr");
            let name = format!("ib_{}_{}", a.tag, r.tag);
            let src = format!(
                "filtermap {name}() {{ {pa}{pr}if eb(0, true) {{ accept {ea} }} else {{ reject {er} }} }}"
            );
            t.push(func(&name, "inferred", vec![], ver(a.ty.clone(), r.ty.clone()), src));
        }
    }
    // controls: the type is pinned in the script
    for x in NUM10 {
        let ty = x.roto();
        let lit = if is_float(x) { "1.5" } else { "5" };
        let name = format!("cs_a_{ty}");
        let src = format!("filtermap {name}() {{ accept {lit}{ty} }}");
        t.push(func(&name, "pinned", vec![], ver(l(x), unit()), src));
        let name = format!("cs_r_{ty}");
        let src = format!("filtermap {name}() {{ reject {lit}{ty} }}");
        t.push(func(&name, "pinned", vec![], ver(unit(), l(x)), src));
        let name = format!("cl_a_{ty}");
        let src = format!("filtermap {name}() {{ let x: {ty} = {lit}; accept x }}");
        t.push(func(&name, "pinned", vec![], ver(l(x), unit()), src));
        // pinned on one side, inferred on the other
        let name = format!("cm_{ty}_lit");
        let src = format!("filtermap {name}() {{ if eb(0, true) {{ accept {lit}{ty} }} else {{ reject 5 }} }}");
        t.push(func(&name, "inferred", vec![], ver(l(x), l(Leaf::I32)), src));
        let name = format!("cm_flt_{ty}");
        let src = format!("filtermap {name}() {{ if eb(0, true) {{ accept 1.5 }} else {{ reject {lit}{ty} }} }}");
        t.push(func(&name, "inferred", vec![], ver(l(Leaf::F64), l(x)), src));
        // accept pinned by the parameter, reject pinned by a suffix
        let name = format!("fp_{ty}");
        let src = format!("filtermap {name}(x: u8) {{ if x == 0 {{ accept x }} else {{ reject {lit}{ty} }} }}");
        t.push(func(&name, "pinned", vec![l(Leaf::U8)], ver(l(Leaf::U8), l(x)), src));
        for y in NUM10 {
            let (ta, tr) = (x.roto(), y.roto());
            let name = format!("rv_{ta}_{tr}");
            let src = format!("fn {name}() -> Verdict[{ta}, {tr}] {{ Verdict.Accept({lit}) }}");
            t.push(func(&name, "pinned", vec![], ver(l(x), l(y)), src));
        }
    }
    // accept pinned by the parameter, reject inferred
    for (name, body, rej) in [
        ("fp_lit", "if x == 0 { accept x } else { reject 5 }", l(Leaf::I32)),
        ("fp_neg", "if x == 0 { accept x } else { reject -5 }", l(Leaf::I32)),
        ("fp_flt", "if x == 0 { accept x } else { reject 1.5 }", l(Leaf::F64)),
        ("fp_sum", "accept x + 1", unit()),
    ] {
        let src = format!("filtermap {name}(x: u8) {{ {body} }}");
        t.push(func(name, "inferred", vec![l(Leaf::U8)], ver(l(Leaf::U8), rej), src));
    }
    // a second item of the package constrains the inferred payload: the
    // filtermap's signature is the package-wide inferred one
    for (n, body, gsig, a, r) in [
        ("cc1", "accept 1", "Verdict[u16, i64]", Leaf::U16, Leaf::I64),
        ("cc2", "reject 1.5", "Verdict[u8, f32]", Leaf::U8, Leaf::F32),
        ("cc3", "if eb(0, true) { accept 1 } else { reject 2 }", "Verdict[i8, u64]", Leaf::I8, Leaf::U64),
        ("cc4", "accept -1", "Verdict[i16, ()]", Leaf::I16, Leaf::Unit),
        ("cc5", "accept [1, 2]", "Verdict[List[u8], f64]", Leaf::U8, Leaf::F64),
    ] {
        let a = if n == "cc5" { c04p::ty::list(l(a)) } else { l(a) };
        let sig = ver(a, l(r));
        t.push(func(&format!("{n}_b"), "inferred", vec![], sig.clone(), format!("filtermap {n}_b() {{ {body} }}")));
        t.push(func(&format!("{n}_g"), "pinned", vec![], sig, format!("fn {n}_g() -> {gsig} {{ {n}_b() }}")));
    }
    let mut root = String::new();
    for x in &t {
        root.push_str(&x.src);
        root.push('\n');
    }
    t.push(nothing("ia_", "unknown"));
    t.push(nothing("nope", "unknown"));
    Pkg { root_module: "pkg", root, sub: String::new(), targets: t }
}

// ------------------------------------------------------------------ string views (audit V1)

/// Functions that really take / return the string views (as value, Option,
/// List), and mismatching ones of the same shapes.
pub fn views_package() -> Pkg {
    use c04p::ty::{list, opt};
    let mut t = vec![];
    let s = || l(Leaf::Str);
    for (view, m) in [(Leaf::Lines, "lines"), (Leaf::Bytes, "bytes"), (Leaf::Chars, "chars")] {
        let ty = view.roto();
        let d = l(view);
        t.push(func(&format!("v_{m}"), "views", vec![s()], d.clone(), format!("fn v_{m}(s: String) -> {ty} {{ s.{m}() }}")));
        t.push(func(&format!("p_{m}"), "views", vec![d.clone()], unit(), format!("fn p_{m}(x: {ty}) {{}}")));
        t.push(func(&format!("r_{m}"), "views", vec![], d.clone(), format!("fn r_{m}() -> {ty} {{ \"a\".{m}() }}")));
        t.push(func(&format!("po_{m}"), "views", vec![opt(d.clone())], unit(), format!("fn po_{m}(x: {ty}?) {{}}")));
        t.push(func(
            &format!("ro_{m}"),
            "views",
            vec![],
            opt(d.clone()),
            format!("fn ro_{m}() -> {ty}? {{ Option.Some(\"a\".{m}()) }}"),
        ));
        t.push(func(&format!("pl_{m}"), "views", vec![list(d.clone())], unit(), format!("fn pl_{m}(x: List[{ty}]) {{}}")));
        t.push(func(&format!("rl_{m}"), "views", vec![], list(d.clone()), format!("fn rl_{m}() -> List[{ty}] {{ [\"a\".{m}()] }}")));
    }
    // the same shapes without a view
    t.push(func("v_ident", "views-control", vec![s()], s(), "fn v_ident(s: String) -> String { s }".into()));
    t.push(func("p_str", "views-control", vec![s()], unit(), "fn p_str(x: String) {}".into()));
    t.push(func("r_str", "views-control", vec![], s(), "fn r_str() -> String { \"a\" }".into()));
    t.push(func("po_str", "views-control", vec![opt(s())], unit(), "fn po_str(x: String?) {}".into()));
    t.push(func("ro_str", "views-control", vec![], opt(s()), "fn ro_str() -> String? { Option.Some(\"a\") }".into()));
    t.push(func("pl_str", "views-control", vec![list(s())], unit(), "fn pl_str(x: List[String]) {}".into()));
    t.push(func("rl_str", "views-control", vec![], list(s()), "fn rl_str() -> List[String] { [\"a\"] }".into()));
    t.push(func("p_u8", "views-control", vec![l(Leaf::U8)], unit(), "fn p_u8(x: u8) {}".into()));
    t.push(func("r_u8", "views-control", vec![], l(Leaf::U8), "fn r_u8() -> u8 { 7 }".into()));
    t.push(func("v_len", "views-control", vec![s()], l(Leaf::U8), "fn v_len(s: String) -> u8 { 7 }".into()));
    let mut root = String::new();
    for x in &t {
        root.push_str(&x.src);
        root.push('\n');
    }
    t.push(nothing("nope", "unknown"));
    Pkg { root_module: "pkg", root, sub: String::new(), targets: t }
}

// ------------------------------------------------------------------ root module name (audit V3)

pub const ROOT_NAMES: [&str; 2] = ["pkg", "main"];

/// A small package built in memory with `FileTree::file_spec`, whose root
/// module is called `root_module`. Names are relative to the root.
pub fn roots_package(root_module: &'static str) -> Pkg {
    let mut t = vec![];
    t.push(func("f", "root", vec![], l(Leaf::I32), "fn f() -> i32 { 1 }".into()));
    t.push(func("p", "root", vec![l(Leaf::U8)], unit(), "fn p(x: u8) {}".into()));
    t.push(func("r", "root", vec![], l(Leaf::Str), "fn r() -> String { \"a\" }".into()));
    t.push(func("test#t", "root", vec![], ver(unit(), unit()), "test t { accept }".into()));
    let mut root = String::new();
    for x in &t {
        root.push_str(&x.src);
        root.push('\n');
    }
    let sub = "fn q(x: u8) {}\n".to_string();
    t.push(func("sub.q", "root", vec![l(Leaf::U8)], unit(), "sub.roto: fn q(x: u8) {}".into()));
    for n in ["pkg.f", "main.f", "pkg.p", "main.p", "pkg.sub.q", "main.sub.q", "q", "pkg", "main", "pkg.main.f", "main.pkg.f"] {
        t.push(nothing(n, "root module name spelled out"));
    }
    Pkg { root_module, root, sub, targets: t }
}
