//! C04 — a compiled function is only obtainable under its true Rust signature.
//!
//! One generated package (`genr.rs`) holds, for every type S of the script
//! grammar, `fn p_S(x: S) {}` and `fn r_S() -> S { .. }`, filtermaps for every
//! (accept type, reject type, sides used) combination, arity functions, tests,
//! script-declared types, declarations shadowing built-in type names and a
//! submodule. Every *target* (a name plus the signature the generator knows it
//! has, or "nothing") is requested through the public
//! `Package::get_function::<F>` under every Rust function type F of the probe
//! table: `fn(R)` and `fn() -> R` for every R of the probe grammar, the 36
//! arity signatures, types unknown to the runtime. The keys of the compiled
//! module that are not script functions (generated clone/drop/eq helpers) are
//! read off the public error text and requested as well.
//!
//! Oracle: structural equality of descriptors built by the generator (script
//! side, `c04p::ty`) and by the `Desc` trait (Rust side, `c04p::probe`). `Ok`
//! iff the name designates a function and parameter lists and return types are
//! equal; never a panic. Handles obtained on the diagonal are called once.
//!
//! Layout: `p/` descriptors + probe machinery, `t1/ t2/ t3/` the probe tables
//! (library crates so that rustc instantiates `get_function::<F>` for the
//! ~500 F in parallel), `src/` generator and check.
//!
//! Units: `PROBES_PER_UNIT` requested Rust types per unit, each looping over all
//! targets; case mark = (probe in unit, target, get | call).

use roto::{FileSpec, FileTree, NoCtx, Package, SourceFile};
use vcore::util::{catch, fnv_str, mix};
use vcore::{Cfg, Check, Cx, Finding, Meta, SUB_SETUP, Tier, Value, Violation, json};

mod genr;
mod hist;
mod twins;

use c04p::{probe, ty};
use c04t1 as tab1;
use c04t2 as tab2;
use c04t3 as tab3;
use c04t4 as tab4;
use c04t5 as tab5;
use c04t6 as tab6;

use genr::{Expect, Pkg, Sigd, Target};
use probe::{Got, Probe, Table};
use ty::T;

const PROBES_PER_UNIT: usize = 6;

fn table(tier: Tier) -> Table {
    let mut v: Table = vec![];
    tab1::leaves(&mut v);
    tab1::options(&mut v);
    tab1::lists(&mut v);
    tab2::results(&mut v);
    tab2::verdicts(&mut v);
    tab2::aliens(&mut v);
    tab2::arity(&mut v);
    tab2::mixed(&mut v);
    tab3::unary(&mut v);
    if tier == Tier::Thorough {
        tab3::binary(&mut v);
    }
    // the arity signatures fn(), fn(u8), fn(u32) are also fn(R) / fn() -> R probes
    let mut seen = std::collections::HashSet::new();
    v.retain(|p| seen.insert((p.params(), p.ret())));
    v
}

fn compile(p: &Pkg) -> Result<Package<NoCtx>, String> {
    // the runtime outlives the package (handle lifetimes are C11's business)
    let rt: &'static roto::Runtime<NoCtx> = Box::leak(Box::new(host::runtime()));
    let file = |name: &str, module: &str, contents: &str| SourceFile {
        name: name.into(),
        module_name: module.into(),
        contents: contents.into(),
        location_offset: 0,
        children: vec![],
    };
    let spec = FileSpec::Directory(
        file(&format!("{}.roto", p.root_module), p.root_module, &p.root),
        vec![FileSpec::File(file("sub.roto", "sub", &p.sub))],
    );
    match catch(|| FileTree::file_spec(spec).compile(rt)) {
        Ok(Ok(p)) => Ok(p),
        Ok(Err(report)) => {
            let mut s = String::new();
            match catch(|| report.write(&mut s, false)) {
                Ok(_) => Err(format!("error report: {s}")),
                Err(p) => Err(format!("panic while rendering report: {p}")),
            }
        }
        Err(p) => Err(format!("compiler panic: {p}")),
    }
}

/// every key of the module's function map, read off the public error text
fn module_keys(pkg: &mut Package<NoCtx>) -> Vec<String> {
    let msg = match pkg.get_function::<fn() -> ()>("\u{1}no such function") {
        Ok(_) => return vec![],
        Err(e) => e.to_string(),
    };
    let mut v: Vec<String> = msg.lines().filter_map(|l| l.strip_prefix(" - ")).map(String::from).collect();
    v.sort();
    v.dedup();
    v
}

/// Targets derived from the keys of the compiled module that do not belong to
/// a function the generator wrote: compiler-generated helpers and the like.
fn dynamic_targets(keys: &[String], targets: &[Target]) -> Vec<Target> {
    let known: std::collections::HashSet<String> =
        targets.iter().filter(|t| t.expect != Expect::Nothing).map(|t| format!("pkg.{}", t.name)).collect();
    let mut out = vec![];
    for k in keys {
        if known.contains(k) {
            continue;
        }
        let mut names = vec![k.clone()];
        if let Some(s) = k.strip_prefix("pkg.") {
            names.push(s.to_string());
        }
        if let Some(s) = k.strip_prefix("::") {
            names.push(s.to_string());
        }
        if let Some(s) = k.strip_prefix("::generated::") {
            names.push(s.to_string());
        }
        for n in names {
            out.push(Target {
                name: n,
                expect: Expect::Nothing,
                sig: None,
                kind: "module-key",
                src: format!("key `{k}` of the compiled module (not a function of the script)"),
            });
        }
    }
    out
}

fn sig_rust(params: &[T], ret: &T) -> String {
    let ps: Vec<String> = params.iter().map(|p| p.rust()).collect();
    format!("fn({}) -> {}", ps.join(", "), ret.rust())
}
fn sig_roto(s: &Sigd) -> String {
    let ps: Vec<String> = s.params.iter().map(|p| p.roto()).collect();
    format!("fn({}) -> {}", ps.join(", "), s.ret.roto())
}

fn enc(pi: usize, ti: usize, action: u64) -> u64 {
    ((pi as u64) << 40) | ((ti as u64) << 4) | action
}
fn dec(sub: u64) -> (usize, usize, u64) {
    ((sub >> 40) as usize, ((sub >> 4) & 0xf_ffff_ffff) as usize, sub & 0xf)
}

fn case_json(root_module: &str, probe: &dyn Probe, t: &Target, action: &str) -> Value {
    let (pp, pr) = (probe.params(), probe.ret());
    json!({
        "kind": t.kind,
        "root_module": root_module,
        "requested_string_view": pp.iter().chain([&pr]).any(has_view),
        "action": action,
        "name": t.name,
        "item": t.src,
        "script_signature": t.sig.as_ref().map(sig_roto),
        "script_params": t.sig.as_ref().map(|s| s.params.iter().map(|p| p.roto()).collect::<Vec<_>>()),
        "script_ret": t.sig.as_ref().map(|s| s.ret.roto()),
        "requested": sig_rust(&pp, &pr),
        "requested_params": pp.iter().map(|p| p.rust()).collect::<Vec<_>>(),
        "requested_ret": pr.rust(),
        "expect": format!("{:?}", t.expect),
        "how": "host::runtime(); FileTree::file_spec(pkg.roto [+ sub.roto]).compile(&rt); pkg.get_function::<requested>(name)",
    })
}

/// does the type contain one of the string views?
fn has_view(t: &T) -> bool {
    use ty::Leaf;
    match t {
        T::L(x) => matches!(x, Leaf::Lines | Leaf::Bytes | Leaf::Chars),
        T::Opt(x) | T::List(x) => has_view(x),
        T::Res(a, b) | T::Ver(a, b) => has_view(a) || has_view(b),
        _ => false,
    }
}

fn err_category(msg: &str) -> &'static str {
    if msg.contains("does not exist") {
        "DoesNotExist"
    } else if msg.contains("number of arguments") {
        "IncorrectNumberOfArguments"
    } else if msg.contains("do not match") {
        "TypeMismatch"
    } else {
        "other"
    }
}

/// `fn() -> Verdict<A, R>` over all payload types (tier-independent)
fn table_inferred() -> Table {
    let mut v: Table = vec![];
    tab4::fill(&mut v);
    tab5::fill(&mut v);
    tab6::fill(&mut v);
    let mut seen = std::collections::HashSet::new();
    v.retain(|p| seen.insert((p.params(), p.ret())));
    v
}

/// Two families of units: the main package x the main probe table, and the
/// inferred-payload package x the Verdict<A, R> probe table.
#[derive(Clone, Copy, PartialEq, Debug)]
enum Fam {
    Main,
    Inferred,
    /// string views: Rust types that can only be inferred, not named (audit V1)
    Views,
    /// the name of the root module, `pkg` or `main` (audit V3); one unit per name
    Roots,
    /// sequences of packages inside one process (`hist.rs`)
    History,
}

const FAMS: [Fam; 5] = [Fam::Main, Fam::Inferred, Fam::Views, Fam::Roots, Fam::History];

impl Fam {
    fn ppu(self) -> usize {
        match self {
            Fam::Main => PROBES_PER_UNIT,
            Fam::Inferred => 24,
            // few enough that a unit stays below vcore's 200 literal violations
            Fam::Views => 4,
            Fam::Roots => 40,
            Fam::History => 1,
        }
    }
    fn tag(self) -> &'static str {
        match self {
            Fam::Main => "main",
            Fam::Inferred => "inferred",
            Fam::Views => "views",
            Fam::Roots => "roots",
            Fam::History => "history",
        }
    }
    fn table(self, tier: Tier) -> Table {
        match self {
            Fam::Main => table(tier),
            Fam::Inferred => table_inferred(),
            Fam::Views => probe::views_table(),
            // fn(L) and fn() -> L for the 20 leaves
            Fam::Roots => {
                let mut v = table(Tier::Quick);
                v.truncate(40);
                v
            }
            Fam::History => hist::table(),
        }
    }
    fn package(self, tier: Tier, unit: usize) -> Pkg {
        match self {
            Fam::Main => genr::package(tier),
            Fam::Inferred => genr::inferred_package(),
            Fam::Views => genr::views_package(),
            Fam::Roots => genr::roots_package(genr::ROOT_NAMES[unit % genr::ROOT_NAMES.len()]),
            Fam::History => Pkg { root_module: "pkg", root: String::new(), sub: String::new(), targets: vec![] },
        }
    }
    fn units(self, tier: Tier) -> usize {
        match self {
            Fam::History => hist::units(tier),
            Fam::Roots => genr::ROOT_NAMES.len(),
            _ => self.table(tier).len().div_ceil(self.ppu()),
        }
    }
    /// probes [lo, hi) of the family's table that unit `unit` requests
    fn probe_range(self, unit: usize, n: usize) -> (usize, usize) {
        match self {
            Fam::Roots => (0, n),
            _ => (unit * self.ppu(), (unit * self.ppu() + self.ppu()).min(n)),
        }
    }
}

/// global unit number -> (family, unit within the family)
fn locate(tier: Tier, unit: usize) -> (Fam, usize) {
    let mut u = unit;
    for f in FAMS {
        let n = f.units(tier);
        if u < n {
            return (f, u);
        }
        u -= n;
    }
    (Fam::History, u)
}

fn first_unit(tier: Tier, fam: Fam) -> usize {
    FAMS.iter().take_while(|f| **f != fam).map(|f| f.units(tier)).sum()
}

struct C04;

impl Check for C04 {
    fn id(&self) -> &'static str {
        "C04"
    }
    fn units(&self, cfg: &Cfg) -> usize {
        FAMS.iter().map(|f| f.units(cfg.tier)).sum::<usize>() + 1
    }

    fn run_unit(&self, unit: usize, cx: &mut Cx) {
        let tier = cx.cfg.tier;
        let global_unit = unit;
        if unit == FAMS.iter().map(|f| f.units(tier)).sum::<usize>() {
            return twins::run(cx);
        }
        let (fam, unit) = locate(tier, global_unit);
        if fam == Fam::History {
            return hist::run_unit(unit, cx);
        }
        let ppu = fam.ppu();
        let probes = fam.table(tier);
        let p = fam.package(tier, unit);
        if !cx.case(SUB_SETUP) {
            return;
        }
        let mut pkg = match compile(&p) {
            Ok(p) => p,
            Err(e) => {
                cx.violation(
                    "compile",
                    SUB_SETUP,
                    json!({"kind": "setup", "family": fam.tag(), "root": p.root, "sub": p.sub}),
                    json!("the generated package compiles"),
                    json!(e),
                );
                return;
            }
        };
        let keys = module_keys(&mut pkg);
        let mut targets = p.targets;
        let n_static = targets.len();
        targets.extend(dynamic_targets(&keys, &targets));
        if unit == 0 {
            // generator sanity: every function the generator wrote is a key of the module
            for t in &targets[..n_static] {
                if t.expect != Expect::Nothing && !keys.contains(&format!("pkg.{}", t.name)) {
                    cx.violation(
                        "missing-key",
                        SUB_SETUP,
                        json!({"kind": "setup", "family": fam.tag(), "name": t.name, "item": t.src}),
                        json!("the function is listed among the module's functions"),
                        json!("not listed"),
                    );
                }
            }
            cx.count(&format!("module_keys_{}", fam.tag()), keys.len() as u64);
            cx.count(&format!("module_keys_not_from_script_{}", fam.tag()), (targets.len() - n_static) as u64);
        }

        let mut samples = 0;
        let _ = ppu;
        let (lo, hi) = fam.probe_range(unit, probes.len());
        let root_module = p.root_module;
        for pi in lo..hi {
            let probe = &*probes[pi];
            let (pp, pr) = (probe.params(), probe.ret());
            // names derived from module keys are refused before any type is
            // looked at: they are requested under the flat signatures only
            // (leaf parameters / leaf return: 40 + 36 arity + mixed)
            let flat = pr.depth() == 0 && pp.iter().all(|p| p.depth() == 0);
            for (ti, t) in targets.iter().enumerate() {
                if t.kind == "module-key" && !flat {
                    continue;
                }
                let sub_get = enc(pi - lo, ti, 0);
                let sub_call = enc(pi - lo, ti, 1);
                let do_get = cx.case(sub_get);
                let call_only = !do_get && cx.only() == Some(sub_call);
                if !do_get && !call_only {
                    continue;
                }
                // Ok(Ok(Some(call))) callable handle, Ok(Ok(None)) handle of a
                // request-only probe, Ok(Err(msg)) refused, Err(panic)
                let got: Result<Result<Option<Box<dyn FnOnce()>>, String>, String> =
                    catch(|| probe.get(&mut pkg, &t.name)).map(|g| match g {
                        Got::Handle(c) => Ok(Some(c)),
                        Got::HandleOnly => Ok(None),
                        Got::Refused(m) => Err(m),
                    });
                if call_only {
                    if let Ok(Ok(Some(call))) = got {
                        if cx.case(sub_call) {
                            run_call(cx, root_module, probe, t, sub_call, call);
                        }
                    }
                    continue;
                }
                cx.states(1);
                cx.transitions(1);
                let equal = match (&t.expect, &t.sig) {
                    (Expect::Sig, Some(s)) => s.params == pp && s.ret == pr,
                    _ => false,
                };
                if let Some(s) = &t.sig {
                    if s.params.len() == pp.len() {
                        cx.nontrivial(mix(mix(fam as u64, pi as u64), ti as u64));
                    }
                }
                match got {
                    Err(panic) => {
                        cx.validated(1);
                        cx.violation(
                            "panic",
                            sub_get,
                            case_json(root_module, probe, t, "get"),
                            json!(if equal { "Ok(handle)" } else { "Err(..), no panic" }),
                            json!(format!("panic: {panic}")),
                        );
                    }
                    Ok(Err(msg)) => {
                        cx.outcome(fnv_str(err_category(&msg)));
                        if t.expect == Expect::Unspecified {
                            cx.unspecified(1);
                            continue;
                        }
                        cx.validated(1);
                        if equal {
                            cx.violation(
                                "refused",
                                sub_get,
                                case_json(root_module, probe, t, "get"),
                                json!("Ok(handle): the requested type is the function's true signature"),
                                json!(format!("Err: {}", msg.trim_end())),
                            );
                        }
                    }
                    Ok(Ok(call)) => {
                        cx.outcome(fnv_str("Ok"));
                        if t.expect == Expect::Unspecified {
                            // which type it is is open, but it can be one type only (see finish)
                            cx.unspecified(1);
                            cx.set(&format!("ok-under/{}/{}", fam.tag(), t.name), pi as u64);
                            cx.note(format!("{} ({}) is retrievable as {}", t.name, t.src, sig_rust(&pp, &pr)));
                            // whatever type the implementation chose, the handle must work
                            if let Some(call) = call {
                                if cx.case(sub_call) {
                                    run_call(cx, root_module, probe, t, sub_call, call);
                                }
                            }
                            continue;
                        }
                        cx.validated(1);
                        if !equal {
                            cx.violation(
                                "accepted",
                                sub_get,
                                case_json(root_module, probe, t, "get"),
                                json!("Err(..): the requested type is not the function's signature"),
                                json!("Ok(handle)"),
                            );
                            // never call through a handle of the wrong type
                            continue;
                        }
                        if fam == Fam::Inferred {
                            cx.count("inferred_payload_handles", 1);
                        }
                        if samples < 2 && ti % 7 == 3 {
                            samples += 1;
                            cx.sample(case_json(root_module, probe, t, "get"));
                        }
                        if let Some(call) = call {
                            if cx.case(sub_call) {
                                run_call(cx, root_module, probe, t, sub_call, call);
                            }
                        }
                    }
                }
            }
        }
    }

    fn describe(&self, cfg: &Cfg, unit: usize, sub: u64) -> Value {
        if sub == SUB_SETUP {
            return json!({"kind": "setup", "note": "compiling the generated package"});
        }
        if unit == FAMS.iter().map(|f| f.units(cfg.tier)).sum::<usize>() {
            return twins::describe(sub as usize);
        }
        let (fam, unit) = locate(cfg.tier, unit);
        if fam == Fam::History {
            return hist::case_json(cfg.tier, sub as usize, None, &[]);
        }
        let (pi, ti, action) = dec(sub);
        let probes = fam.table(cfg.tier);
        let p = fam.package(cfg.tier, unit);
        let root_module = p.root_module;
        let Some(probe) = probes.get(fam.probe_range(unit, probes.len()).0 + pi) else {
            return json!({"kind": "?", "sub": sub.to_string()});
        };
        let action = if action == 0 { "get" } else { "call" };
        match p.targets.get(ti) {
            Some(t) => case_json(root_module, &**probe, t, action),
            None => json!({
                "kind": "module-key", "action": action,
                "dyn_index": ti - p.targets.len(),
                "requested": sig_rust(&probe.params(), &probe.ret()),
                "note": "name derived from the sorted keys of the compiled module that are not script functions (see dynamic_targets)",
            }),
        }
    }

    fn finish(&self, cfg: &Cfg, agg: &mut vcore::Aggregate) {
        // A function whose signature the documentation leaves open is still
        // obtainable under one Rust function type at most.
        let mut extra = vec![];
        for (k, set) in &agg.sets {
            let Some(rest) = k.strip_prefix("ok-under/") else { continue };
            let (fam, name) = match rest.split_once('/') {
                Some((tag, n)) => (FAMS.iter().copied().find(|f| f.tag() == tag).unwrap_or(Fam::Main), n),
                None => (Fam::Main, rest),
            };
            let probes = fam.table(cfg.tier);
            let first_unit = first_unit(cfg.tier, fam);
            if set.len() > 1 {
                let mut idx: Vec<u64> = set.iter().copied().collect();
                idx.sort();
                let under: Vec<String> = idx
                    .iter()
                    .filter_map(|i| probes.get(*i as usize))
                    .map(|p| sig_rust(&p.params(), &p.ret()))
                    .collect();
                extra.push(Violation {
                    class: "two-signatures".into(),
                    unit: first_unit + idx[0] as usize / fam.ppu(),
                    sub: vcore::SUB_NONE,
                    case: json!({"kind": "filtermap", "name": name, "retrievable_as": under}),
                    expected: json!("retrievable under one Rust function type at most"),
                    observed: json!(format!("Ok under {} different types", set.len())),
                });
            }
        }
        agg.violations.extend(extra);
        agg.sets.retain(|k, _| !k.starts_with("ok-under/"));
    }

    fn matches(&self, f: &Finding, v: &Violation) -> bool {
        let c = &v.case;
        let obs = v.observed.as_str().unwrap_or("");
        match f.matcher.as_str() {
            // audit V1: a request that mentions a string view (a leaf type
            // missing from the name table of check_roto_type) reaches the
            // `_ => panic!()` arm, whether it is the true signature or not
            "string_view_leaf_panics" => {
                v.class == "panic"
                    && c["requested_string_view"] == true
                    && c["action"] == "get"
                    && obs.contains("explicit panic")
                    && obs.contains("codegen/check.rs")
            }
            // audit V3 (twin of C13-module-names-unvalidated): get_function
            // prepends `pkg.` whatever the root module is called
            "root_module_not_pkg" => {
                v.class == "refused"
                    && c["kind"] == "root"
                    && c["root_module"].as_str().is_some_and(|r| r != "pkg")
                    && obs.contains("does not exist")
            }
            _ => false,
        }
    }

    fn meta(&self, cfg: &Cfg) -> Meta {
        let g = ty::script_grammar(cfg.tier);
        let pg = ty::probe_grammar(cfg.tier);
        let p = genr::package(cfg.tier);
        Meta {
            rule: "every target (a name + the signature the generator knows it has, or 'nothing') x every Rust function type of the probe table, requested through Package::get_function; Ok iff parameter lists and return types are structurally equal descriptors; never a panic; handles obtained on the depth<=1 diagonal are called once. Script side: p_S/r_S for every S of the script grammar (quick: 132 G1 types + all 456 depth-2 nestings over the 6-leaf set; thorough: G1 + every type of depth <= 2 over the 6-leaf set with at most one non-leaf argument per binary constructor), 57 filtermaps with pinned payloads + 40 with payloads inferred from unannotated literals, 38 arity functions, tests, script-declared and shadowing types, a submodule. Rust side: fn(R) and fn() -> R for every R of the probe grammar (quick: G1 + the 24 types U<W<L>>, U, W in {Option, List}; thorough: G1 + 96 depth-2 types), 36 arity signatures, types unknown to the runtime. Second family of units (inferred payloads): a package of filtermaps for every (accept kind, reject kind, sides used) combination over 20 payload kinds built only from unannotated literals (5, -5, 5 + 1, 2 * 3, if, let-bound, 1.5, -1.5, Option.Some(..), [..], { a: 5 }, plus true and ()), with pinned controls (suffix, annotated let, declared return type, parameter), requested as fn() -> Verdict<A, R> for (A, R) in ALL36 x TRUE7, TRUE7 x ALL36 and NUM10 x NUM10 (ALL36 = 8 integer types, f32, f64, bool, (), Option of each, List of each; TRUE7 = i32, f64, Option/List of these, ()), and fn(u8) -> Verdict<u8, X>; exactly the signature with {integer} = i32 and {float} = f64 is handed out. Views family (audit V1): the three string views StringLines/StringBytes/StringChars, whose Rust types are inferred from the public RotoString::lines/bytes/chars and never named, as value / Option / List in parameter and return position (21 probes + 9 nameable controls) x functions that really take / return them and mismatching ones. Roots family (audit V3): a small package whose root module is called pkg or main (FileTree::file_spec), names relative to the root. Third family (histories): 95 one-function package variants that differ in one type only (filtermap accept / reject payload, parameter, return value, both; 16 built-in types and the registered type Thing that three runtimes bind to three Rust types); every ordered pair within a group and triples with a third package in between are compiled one after another in one fresh process, and after each compilation the true signatures of all variants seen so far are requested (foreign ones first), then the older packages are asked again; Ok iff the requested signature is the true signature of the package asked, whatever happened before. Names derived from module keys that are not script functions (generated helpers) are requested under the flat signatures only. A pair is non-trivial when the name designates a script function and the requested type has the same number of parameters (at least one type comparison decides the outcome)".into(),
            assumptions: vec![
                "the Rust-side descriptor of a type is derived by the harness's own Desc trait, the script-side descriptor by the generator; neither reads roto's TypeRegistry".into(),
                "StringLines, StringBytes and StringChars cannot be named outside roto but can be requested with the type inferred from RotoString::lines/bytes/chars (views family); DynVal, VTable and ErasedList are returned by no public function and are not enumerated".into(),
                "the signature of a filtermap is inferred package-wide: another item that calls it and pins its payload types (`fn g() -> Verdict[u8, String] { b() }`) changes the filtermap's true signature, also on a side it never uses itself; the oracle uses the package-wide type (audit V4, by design)".into(),
                "a function of a package is named relative to the root module, whatever that module is called".into(),
                "an unannotated integer literal that nothing else constrains has type i32 and a float literal f64 at the boundary, because that is what the lowering fixes them to (typechecker/info.rs); the host cannot pick another width".into(),
                "payloads whose type argument nothing determines (`accept Option.None`, `accept []`) are skipped for the Ok/Err oracle; they must not panic and must be retrievable under one Rust type at most".into(),
                "the full 36 x 36 cross of Verdict<A, R> would be 1296 instantiations (~30 s of rustc); the table has every A against the 7 types a payload can really have, the converse, and the 10 x 10 numeric cross (519 probes)".into(),
                "constants need a type annotation and cannot be fetched through the public API; filtermap payloads are the only inferred types at the boundary".into(),
                "r_S is omitted for S = List of an enum with a () payload: constructing such a list panics the compiler (known defect N5, property C06)".into(),
                "a `test` item is a function `fn() -> Verdict[(), ()]` named `test#<name>` (this is how the test runner retrieves it)".into(),
                "the probe grammar is bounded by rustc time (about 25 ms per get_function instantiation); deeper types are only on the script side".into(),
            ],
            bounds: json!({
                "script_grammar_types": g.len(),
                "probe_grammar_types": pg.len(),
                "max_depth": g.iter().map(|t| t.depth()).max(),
                "probes": table(cfg.tier).len(),
                "inferred_family": inferred_bounds(),
                "history_family": {
                    "variants": hist::variants().len(),
                    "histories": hist::histories(cfg.tier).len(),
                    "histories_of_2_packages": hist::histories(cfg.tier).iter().filter(|h| h.len() == 2).count(),
                    "histories_of_3_packages": hist::histories(cfg.tier).iter().filter(|h| h.len() == 3).count(),
                    "histories_per_unit": hist::HIST_PER_UNIT,
                    "process_per_history": true,
                },
                "static_targets": p.targets.len(),
                "script_functions": p.targets.iter().filter(|t| t.expect != Expect::Nothing).count(),
                "arity_signatures": genr::arity_sigs().len(),
                "r_functions_omitted_known_compiler_panic_N5": g.iter().filter(|t| t.hits_n5()).count(),
                "probes_per_unit": PROBES_PER_UNIT,
                "depth2_probes_called": false,
                "package_bytes": p.root.len() + p.sub.len(),
            }),
            states_are: "distinct (target, requested Rust function type) pairs".into(),
            transitions_are: "get_function requests plus calls through diagonal handles".into(),
        }
    }

    fn preflight(&self, cfg: &Cfg) -> Result<(), String> {
        // the probe table covers the grammar exactly: fn(R) and fn() -> R for every R
        use std::collections::HashSet;
        for tier in [Tier::Quick, cfg.tier] {
            let probes = table(tier);
            let unit = ty::unit();
            let ps: HashSet<T> =
                probes.iter().filter(|p| p.params().len() == 1 && p.ret() == unit).map(|p| p.params()[0].clone()).collect();
            let rs: HashSet<T> = probes.iter().filter(|p| p.params().is_empty()).map(|p| p.ret()).collect();
            let mut seen = HashSet::new();
            for g in ty::probe_grammar(tier) {
                if !seen.insert(g.clone()) {
                    return Err(format!("grammar lists {} twice", g.rust()));
                }
                if !ps.contains(&g) {
                    return Err(format!("no probe fn({}) in the table", g.rust()));
                }
                if !rs.contains(&g) {
                    return Err(format!("no probe fn() -> {} in the table", g.rust()));
                }
            }
            let mut sigs = HashSet::new();
            for p in &probes {
                if !sigs.insert((p.params(), p.ret())) {
                    return Err(format!("probe {} listed twice", sig_rust(&p.params(), &p.ret())));
                }
            }
            for a in genr::arity_sigs() {
                if !sigs.contains(&(a.clone(), unit.clone())) {
                    return Err(format!("arity probe {} missing", sig_rust(&a, &unit)));
                }
            }
            let mut names = HashSet::new();
            for t in genr::package(tier).targets {
                if !names.insert(t.name.clone()) {
                    return Err(format!("target name {:?} generated twice", t.name));
                }
            }
        }
        hist::preflight()?;
        // inferred-payload family: unique names, unique probes, and every
        // payload kind has its true signature in the probe table
        let probes = table_inferred();
        let sigs: HashSet<(Vec<T>, T)> = probes.iter().map(|p| (p.params(), p.ret())).collect();
        if sigs.len() != probes.len() {
            return Err("inferred family: a probe is listed twice".into());
        }
        let mut names = HashSet::new();
        for t in genr::inferred_package().targets {
            if !names.insert(t.name.clone()) {
                return Err(format!("inferred family: target name {:?} generated twice", t.name));
            }
        }
        for k in genr::kinds() {
            if matches!(k.ty, T::Alien(_)) {
                continue;
            }
            for sig in [ty::ver(k.ty.clone(), ty::unit()), ty::ver(ty::unit(), k.ty.clone())] {
                if !sigs.contains(&(vec![], sig.clone())) {
                    return Err(format!("inferred family: no probe fn() -> {}", sig.rust()));
                }
            }
        }
        Ok(())
    }
}

fn inferred_bounds() -> Value {
    let probes = table_inferred();
    let sigs: std::collections::HashSet<(Vec<T>, T)> = probes.iter().map(|p| (p.params(), p.ret())).collect();
    let p = genr::inferred_package();
    let funcs: Vec<&Target> = p.targets.iter().filter(|t| t.expect == Expect::Sig).collect();
    let with_true_probe =
        funcs.iter().filter(|t| t.sig.as_ref().is_some_and(|s| sigs.contains(&(s.params.clone(), s.ret.clone())))).count();
    json!({
        "payload_kinds": genr::kinds().iter().map(|k| format!("{}{}", k.pre, k.expr).replace("{v}", "x")).collect::<Vec<_>>(),
        "probes": probes.len(),
        "probes_per_unit": Fam::Inferred.ppu(),
        "script_items": funcs.len(),
        "items_inferred": funcs.iter().filter(|t| t.kind == "inferred").count(),
        "items_pinned_controls": funcs.iter().filter(|t| t.kind == "pinned").count(),
        "items_whose_true_signature_is_a_probe": with_true_probe,
        "package_bytes": p.root.len(),
    })
}

fn run_call(cx: &mut Cx, root_module: &str, probe: &dyn Probe, t: &Target, sub_call: u64, call: Box<dyn FnOnce()>) {
    cx.transitions(1);
    cx.count("calls", 1);
    match catch(call) {
        Ok(()) => {
            cx.validated(1);
        }
        Err(panic) => {
            cx.validated(1);
            cx.violation(
                "call-panic",
                sub_call,
                case_json(root_module, probe, t, "call"),
                json!("the call returns"),
                json!(format!("panic: {panic}")),
            );
        }
    }
}

fn main() {
    if let Ok(spec) = std::env::var("C04_HISTORY") {
        // one history of the history family, in this fresh process
        hist::child_main(&spec);
    }
    if let Ok(what) = std::env::var("C04_DUMP") {
        let tier = if what == "thorough" { Tier::Thorough } else { Tier::Quick };
        let p = genr::package(tier);
        println!("{}\n# ---- sub.roto\n{}", p.root, p.sub);
        let t0 = std::time::Instant::now();
        let r = compile(&p);
        println!("# compile took {:?}", t0.elapsed());
        match r {
            Ok(mut pkg) => {
                let keys = module_keys(&mut pkg);
                println!("# compiled; {} keys", keys.len());
                for k in keys.iter().filter(|k| !k.starts_with("pkg.")) {
                    println!("# key {k}");
                }
            }
            Err(e) => println!("# COMPILE FAILED: {e}"),
        }
        return;
    }
    if let Ok(what) = std::env::var("C04_EACH") {
        // developer aid: compile every generated item on its own
        let tier = if what == "thorough" { Tier::Thorough } else { Tier::Quick };
        vcore::util::install_quiet_panic_hook();
        let p = genr::package(tier);
        let mut bad = 0;
        for t in &p.targets {
            if t.expect == Expect::Nothing || t.src.starts_with("sub.roto") || t.kind == "alien" {
                continue;
            }
            if let Err(e) = compile(&Pkg { root_module: "pkg", root: t.src.clone(), sub: String::new(), targets: vec![] }) {
                bad += 1;
                println!("{}\n    {}", t.src, e.lines().next().unwrap_or(""));
            }
        }
        println!("{bad} items do not compile on their own");
        return;
    }
    if let Ok(path) = std::env::var("C04_TRY") {
        // developer aid: compile (root file, sub file) and list the module keys
        let root = std::fs::read_to_string(&path).unwrap();
        let sub = std::fs::read_to_string(format!("{path}.sub")).unwrap_or_default();
        match compile(&Pkg { root_module: "pkg", root, sub, targets: vec![] }) {
            Ok(mut pkg) => println!("compiled: {:?}", module_keys(&mut pkg)),
            Err(e) => println!("COMPILE FAILED: {e}"),
        }
        return;
    }
    vcore::main(&C04)
}
