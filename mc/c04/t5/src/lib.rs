//! Inferred-payload family, part 2: `fn() -> Verdict<A, R>` for A over the 7
//! types an inferred payload can really have and R over all 36 payload types
use c04p::probe::{Table, probe};
use c04p::{all36, list_of, opt_of, true7, twelve};
use roto::Verdict;

macro_rules! pv { ($v:ident $a:ty, $r:ty) => { $v.push(probe::<fn() -> Verdict<$a, $r>>()); }; }
macro_rules! row { ($v:ident $a:ty) => { all36!(pv!($v $a,)); }; }

pub fn fill(v: &mut Table) {
    true7!(row!(v));
}
