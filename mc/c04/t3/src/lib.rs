//! G2' probes: depth-2 nestings; unary-unary over the 6-leaf set (both tiers),
//! binary shapes over the six (L, M) pairs of `ty::PAIRS` (thorough). Requested only,
//! never called (the G1 diagonal is the one that is called).
use c04p::probe::Table;
use c04p::{add_nocall, six};
use roto::{List, RotoString, Val, Verdict};

type Tr = Val<host::Tr>;

/// call `$m!(args.. L, M)` for every pair of `ty::PAIRS`
macro_rules! pairs {
    ($m:ident ! ( $($a:tt)* )) => {
        $m!($($a)* u8, RotoString);
        $m!($($a)* RotoString, Tr);
        $m!($($a)* Tr, i32);
        $m!($($a)* i32, ());
        $m!($($a)* (), u32);
        $m!($($a)* u32, u8);
    };
}

macro_rules! oo { ($v:ident $t:ty) => { add_nocall!($v Option<Option<$t>>); }; }
macro_rules! ol { ($v:ident $t:ty) => { add_nocall!($v Option<List<$t>>); }; }
macro_rules! lo { ($v:ident $t:ty) => { add_nocall!($v List<Option<$t>>); }; }
macro_rules! ll { ($v:ident $t:ty) => { add_nocall!($v List<List<$t>>); }; }

macro_rules! bin {
    ($v:ident $a:ty, $b:ty) => {
        add_nocall!($v Result<Option<$a>, $b>);
        add_nocall!($v Result<List<$a>, $b>);
        add_nocall!($v Result<$a, Option<$b>>);
        add_nocall!($v Result<$a, List<$b>>);
        add_nocall!($v Verdict<Option<$a>, $b>);
        add_nocall!($v Verdict<List<$a>, $b>);
        add_nocall!($v Verdict<$a, Option<$b>>);
        add_nocall!($v Verdict<$a, List<$b>>);
        add_nocall!($v Option<Result<$a, $b>>);
        add_nocall!($v Option<Verdict<$a, $b>>);
        add_nocall!($v List<Result<$a, $b>>);
        add_nocall!($v List<Verdict<$a, $b>>);
    };
}

/// U<W<L>> for U, W in {Option, List}, L in the 6-leaf set (both tiers)
pub fn unary(v: &mut Table) {
    six!(oo!(v));
    six!(ol!(v));
    six!(lo!(v));
    six!(ll!(v));
}

/// the twelve binary depth-2 shapes over `ty::PAIRS` (thorough)
pub fn binary(v: &mut Table) {
    pairs!(bin!(v));
}

