//! G1 probes, part 1: the 20 leaves, Option<L>, List<L>
use c04p::probe::Table;
use c04p::{add, twenty};
use roto::List;

macro_rules! leaf { ($v:ident $t:ty) => { add!($v $t); }; }
macro_rules! o { ($v:ident $t:ty) => { add!($v Option<$t>); }; }
macro_rules! li { ($v:ident $t:ty) => { add!($v List<$t>); }; }

pub fn leaves(v: &mut Table) {
    twenty!(leaf!(v));
}
pub fn options(v: &mut Table) {
    twenty!(o!(v));
}
pub fn lists(v: &mut Table) {
    twenty!(li!(v));
}
