//! G1 probes, part 2: Result<L,M>, Verdict<L,M> over the 6-leaf set; types
//! unknown to the runtime; the 36 arity signatures; mixed signatures
use c04p::probe::{Table, Unreg, probe};
use c04p::{add, six};
use roto::{Val, Verdict};

macro_rules! r { ($v:ident $a:ty, $b:ty) => { add!($v Result<$a, $b>); }; }
macro_rules! r_row { ($v:ident $a:ty) => { six!(r!($v $a,)); }; }
macro_rules! vd { ($v:ident $a:ty, $b:ty) => { add!($v Verdict<$a, $b>); }; }
macro_rules! vd_row { ($v:ident $a:ty) => { six!(vd!($v $a,)); }; }

pub fn results(v: &mut Table) {
    six!(r_row!(v));
}
pub fn verdicts(v: &mut Table) {
    six!(vd_row!(v));
}

/// Rust types the runtime has never heard of
pub fn aliens(v: &mut Table) {
    add!(v Val<Unreg>);
    add!(v Option<Val<Unreg>>);
    add!(v Val<u8>);
    add!(v Val<roto::RotoString>);
    add!(v Val<Val<host::K>>);
}

/// all signatures (u8|u32)^n, n <= 7, at most one u32 (36), returning ()
pub fn arity(v: &mut Table) {
    macro_rules! a { ($($t:ty),*) => { v.push(probe::<fn($($t),*) -> ()>()); }; }
    a!();
    a!(u8);
    a!(u32);
    a!(u8, u8);
    a!(u32, u8);
    a!(u8, u32);
    a!(u8, u8, u8);
    a!(u32, u8, u8);
    a!(u8, u32, u8);
    a!(u8, u8, u32);
    a!(u8, u8, u8, u8);
    a!(u32, u8, u8, u8);
    a!(u8, u32, u8, u8);
    a!(u8, u8, u32, u8);
    a!(u8, u8, u8, u32);
    a!(u8, u8, u8, u8, u8);
    a!(u32, u8, u8, u8, u8);
    a!(u8, u32, u8, u8, u8);
    a!(u8, u8, u32, u8, u8);
    a!(u8, u8, u8, u32, u8);
    a!(u8, u8, u8, u8, u32);
    a!(u8, u8, u8, u8, u8, u8);
    a!(u32, u8, u8, u8, u8, u8);
    a!(u8, u32, u8, u8, u8, u8);
    a!(u8, u8, u32, u8, u8, u8);
    a!(u8, u8, u8, u32, u8, u8);
    a!(u8, u8, u8, u8, u32, u8);
    a!(u8, u8, u8, u8, u8, u32);
    a!(u8, u8, u8, u8, u8, u8, u8);
    a!(u32, u8, u8, u8, u8, u8, u8);
    a!(u8, u32, u8, u8, u8, u8, u8);
    a!(u8, u8, u32, u8, u8, u8, u8);
    a!(u8, u8, u8, u32, u8, u8, u8);
    a!(u8, u8, u8, u8, u32, u8, u8);
    a!(u8, u8, u8, u8, u8, u32, u8);
    a!(u8, u8, u8, u8, u8, u8, u32);
}

/// parameter and return value together; filtermaps with a parameter
pub fn mixed(v: &mut Table) {
    v.push(probe::<fn(u8) -> u8>());
    v.push(probe::<fn(u8) -> u16>());
    v.push(probe::<fn(u16) -> u8>());
    v.push(probe::<fn(u16) -> u16>());
    v.push(probe::<fn(u8) -> Verdict<u8, ()>>());
    v.push(probe::<fn(u32) -> Verdict<(), u32>>());
    v.push(probe::<fn(u32) -> Verdict<u32, ()>>());
    v.push(probe::<fn(u8, u32) -> u8>());
    v.push(probe::<fn(u8, u32) -> u32>());
    v.push(probe::<fn(u8, u8, u8, u8, u8, u8, u8) -> u8>());
}
