//! Inferred-payload family, part 3: `fn() -> Verdict<A, R>` for A, R over the
//! 10 numeric leaves (every width and signedness on both sides at once), and
//! `fn(u8) -> Verdict<u8, X>` for a filtermap whose accept payload is pinned by
//! a parameter while the reject payload is inferred
use c04p::num10;
use c04p::probe::{Table, probe};
use roto::Verdict;

macro_rules! pv { ($v:ident $a:ty, $r:ty) => { $v.push(probe::<fn() -> Verdict<$a, $r>>()); }; }
macro_rules! row { ($v:ident $a:ty) => { num10!(pv!($v $a,)); }; }
macro_rules! pp { ($v:ident $r:ty) => { $v.push(probe::<fn(u8) -> Verdict<u8, $r>>()); }; }

pub fn fill(v: &mut Table) {
    num10!(row!(v));
    num10!(pp!(v));
    v.push(probe::<fn(u8) -> Verdict<u8, ()>>());
    v.push(probe::<fn(u8) -> Verdict<(), u8>>());
}
