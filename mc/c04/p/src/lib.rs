//! C04 support: type descriptors (`ty`) and the probe machinery (`probe`)
//! shared by the probe-table crates `c04t1..3` and the check binary.
pub mod probe;
pub mod ty;
