//! Rust side of the cross product: one `get_function::<F>` instantiation per
//! requested Rust function type `F`, behind a trait object.
//!
//! The descriptor of a Rust type comes from the `Desc` trait below (leaf
//! impls plus one generic impl per constructor); it is independent of roto's
//! own `TypeRegistry`.

use std::marker::PhantomData;
use std::net::IpAddr;

use inetnum::{addr::Prefix, asn::Asn};
use roto::{List, NoCtx, Package, RotoFunc, RotoString, TypedFunc, Val, Value, Verdict};

use crate::ty::{Leaf, T};

// ------------------------------------------------------------------ Desc / Mk

pub trait Desc {
    fn desc() -> T;
}

/// some value of the type, to call a retrieved function once
pub trait Mk {
    fn mk() -> Self;
}

macro_rules! leaf {
    ($t:ty, $l:ident, $v:expr) => {
        impl Desc for $t {
            fn desc() -> T {
                T::L(Leaf::$l)
            }
        }
        impl Mk for $t {
            fn mk() -> Self {
                $v
            }
        }
    };
}

leaf!(u8, U8, 7);
leaf!(u16, U16, 7);
leaf!(u32, U32, 7);
leaf!(u64, U64, 7);
leaf!(i8, I8, -7);
leaf!(i16, I16, -7);
leaf!(i32, I32, -7);
leaf!(i64, I64, -7);
leaf!(f32, F32, 1.5);
leaf!(f64, F64, 1.5);
leaf!(bool, Bool, true);
leaf!(char, Char, 'c');
leaf!(Asn, Asn, Asn::from_u32(65000));
leaf!(IpAddr, IpAddr, IpAddr::from([10, 0, 0, 1]));
leaf!(Prefix, Prefix, Prefix::new(IpAddr::from([10, 0, 0, 0]), 8).unwrap());
leaf!(RotoString, Str, RotoString::from("s"));
leaf!((), Unit, ());
leaf!(Val<host::Tr>, Tr, Val(host::Tr::new(7)));
leaf!(Val<host::Z>, Z, Val(host::Z::new()));
leaf!(Val<host::K>, K, Val(host::K(7)));

impl<X: Desc> Desc for Option<X> {
    fn desc() -> T {
        T::Opt(Box::new(X::desc()))
    }
}
impl<X: Mk> Mk for Option<X> {
    fn mk() -> Self {
        Some(X::mk())
    }
}
impl<X: Desc + Value> Desc for List<X> {
    fn desc() -> T {
        T::List(Box::new(X::desc()))
    }
}
impl<X: Mk + Value> Mk for List<X>
where
    X::Transformed: PartialEq,
{
    fn mk() -> Self {
        let l = List::new();
        l.push(X::mk());
        l
    }
}
impl<A: Desc, B: Desc> Desc for Result<A, B> {
    fn desc() -> T {
        T::Res(Box::new(A::desc()), Box::new(B::desc()))
    }
}
impl<A: Mk, B> Mk for Result<A, B> {
    fn mk() -> Self {
        Ok(A::mk())
    }
}
impl<A: Desc, B: Desc> Desc for Verdict<A, B> {
    fn desc() -> T {
        T::Ver(Box::new(A::desc()), Box::new(B::desc()))
    }
}
impl<A: Mk, B> Mk for Verdict<A, B> {
    fn mk() -> Self {
        Verdict::Accept(A::mk())
    }
}

// Rust-only types: never registered in the runtime
#[derive(Clone, PartialEq)]
pub struct Unreg(pub u64);

macro_rules! alien {
    ($t:ty, $n:literal, $v:expr) => {
        impl Desc for $t {
            fn desc() -> T {
                T::Alien($n)
            }
        }
        impl Mk for $t {
            fn mk() -> Self {
                $v
            }
        }
    };
}
alien!(Val<Unreg>, "rust:roto::Val<c04::Unreg>", Val(Unreg(7)));
alien!(Val<u8>, "rust:roto::Val<u8>", Val(7));
alien!(Val<RotoString>, "rust:roto::Val<roto::RotoString>", Val(RotoString::from("s")));
alien!(Val<Val<host::K>>, "rust:roto::Val<roto::Val<host::K>>", Val(Val(host::K(7))));

// ------------------------------------------------------------------ Sig

/// a Rust function type that can be requested
pub trait Sig: RotoFunc + Sized + 'static {
    fn params() -> Vec<T>;
    fn ret() -> T;
    fn call_once(f: &TypedFunc<NoCtx, Self>);
}

macro_rules! sig {
    ($($a:ident),*) => {
        #[allow(non_snake_case)]
        impl<$($a: Value + Desc + Mk,)* R: Value + Desc> Sig for fn($($a),*) -> R {
            fn params() -> Vec<T> {
                vec![$($a::desc()),*]
            }
            fn ret() -> T {
                R::desc()
            }
            fn call_once(f: &TypedFunc<NoCtx, Self>) {
                let r = f.call($($a::mk()),*);
                drop(r);
            }
        }
    };
}
sig!();
sig!(A1);
sig!(A1, A2);
sig!(A1, A2, A3);
sig!(A1, A2, A3, A4);
sig!(A1, A2, A3, A4, A5);
sig!(A1, A2, A3, A4, A5, A6);
sig!(A1, A2, A3, A4, A5, A6, A7);

/// Render at most the first 300 bytes of an error (the text of a
/// `DoesNotExist` error lists every function of the module).
pub fn head(e: &dyn std::fmt::Display) -> String {
    use std::fmt::Write;
    struct Head(String);
    impl Write for Head {
        fn write_str(&mut self, s: &str) -> std::fmt::Result {
            let room = 300usize.saturating_sub(self.0.len());
            if s.len() <= room {
                self.0.push_str(s);
                Ok(())
            } else {
                let mut cut = room;
                while !s.is_char_boundary(cut) {
                    cut -= 1;
                }
                self.0.push_str(&s[..cut]);
                Err(std::fmt::Error)
            }
        }
    }
    let mut h = Head(String::new());
    let _ = write!(h, "{e}");
    h.0
}

pub enum Got {
    /// `Ok(handle)`; the closure calls the function once
    Handle(Box<dyn FnOnce()>),
    /// `Ok(handle)` of a probe that never calls (depth-2 table)
    HandleOnly,
    /// `Err(e)`: the rendered error
    Refused(String),
}

pub trait Probe: Sync + Send {
    fn params(&self) -> Vec<T>;
    fn ret(&self) -> T;
    fn get(&self, pkg: &mut Package<NoCtx>, name: &str) -> Got;
}

pub struct P<F>(PhantomData<fn() -> F>);

impl<F: Sig> Probe for P<F> {
    fn params(&self) -> Vec<T> {
        F::params()
    }
    fn ret(&self) -> T {
        F::ret()
    }
    fn get(&self, pkg: &mut Package<NoCtx>, name: &str) -> Got {
        match pkg.get_function::<F>(name) {
            Ok(f) => Got::Handle(Box::new(move || F::call_once(&f))),
            Err(e) => Got::Refused(head(&e)),
        }
    }
}

/// A probe that only requests (never calls): far fewer instantiations.
pub trait SigNoCall: RotoFunc + Sized + 'static {
    fn params() -> Vec<T>;
    fn ret() -> T;
}
impl<A1: Value + Desc, R: Value + Desc> SigNoCall for fn(A1) -> R {
    fn params() -> Vec<T> {
        vec![A1::desc()]
    }
    fn ret() -> T {
        R::desc()
    }
}
impl<R: Value + Desc> SigNoCall for fn() -> R {
    fn params() -> Vec<T> {
        vec![]
    }
    fn ret() -> T {
        R::desc()
    }
}

pub struct Q<F>(PhantomData<fn() -> F>);

impl<F: SigNoCall> Probe for Q<F> {
    fn params(&self) -> Vec<T> {
        F::params()
    }
    fn ret(&self) -> T {
        F::ret()
    }
    fn get(&self, pkg: &mut Package<NoCtx>, name: &str) -> Got {
        match pkg.get_function::<F>(name) {
            Ok(f) => {
                drop(f);
                Got::HandleOnly
            }
            Err(e) => Got::Refused(head(&e)),
        }
    }
}

pub fn probe_nocall<F: SigNoCall>() -> Box<dyn Probe> {
    Box::new(Q::<F>(PhantomData))
}

pub fn probe<F: Sig>() -> Box<dyn Probe> {
    Box::new(P::<F>(PhantomData))
}

pub type Table = Vec<Box<dyn Probe>>;

/// `fn(R)` and `fn() -> R`
#[macro_export]
macro_rules! add {
    ($v:ident $t:ty) => {
        $v.push($crate::probe::probe::<fn($t) -> ()>());
        $v.push($crate::probe::probe::<fn() -> $t>());
    };
}

/// `fn(R)` and `fn() -> R`, requested only
#[macro_export]
macro_rules! add_nocall {
    ($v:ident $t:ty) => {
        $v.push($crate::probe::probe_nocall::<fn($t) -> ()>());
        $v.push($crate::probe::probe_nocall::<fn() -> $t>());
    };
}

/// call `$m!(args.. L)` for every L of the 6-leaf set
#[macro_export]
macro_rules! six {
    ($m:ident ! ( $($a:tt)* )) => {
        $m!($($a)* u8);
        $m!($($a)* i32);
        $m!($($a)* u32);
        $m!($($a)* roto::RotoString);
        $m!($($a)* ());
        $m!($($a)* roto::Val<host::Tr>);
    };
}

/// call `$m!(args.. L)` for every leaf
#[macro_export]
macro_rules! twenty {
    ($m:ident ! ( $($a:tt)* )) => {
        $m!($($a)* u8);
        $m!($($a)* u16);
        $m!($($a)* u32);
        $m!($($a)* u64);
        $m!($($a)* i8);
        $m!($($a)* i16);
        $m!($($a)* i32);
        $m!($($a)* i64);
        $m!($($a)* f32);
        $m!($($a)* f64);
        $m!($($a)* bool);
        $m!($($a)* char);
        $m!($($a)* inetnum::asn::Asn);
        $m!($($a)* std::net::IpAddr);
        $m!($($a)* inetnum::addr::Prefix);
        $m!($($a)* roto::RotoString);
        $m!($($a)* ());
        $m!($($a)* roto::Val<host::Tr>);
        $m!($($a)* roto::Val<host::Z>);
        $m!($($a)* roto::Val<host::K>);
    };
}

// ------------------------------------------------------------------ inferred payloads

/// call `$m!(args.. L)` for the 12 payload leaves of the inferred-payload
/// family: all 8 integer types, f32, f64, bool, ()
#[macro_export]
macro_rules! twelve {
    ($m:ident ! ( $($a:tt)* )) => {
        $m!($($a)* u8);
        $m!($($a)* u16);
        $m!($($a)* u32);
        $m!($($a)* u64);
        $m!($($a)* i8);
        $m!($($a)* i16);
        $m!($($a)* i32);
        $m!($($a)* i64);
        $m!($($a)* f32);
        $m!($($a)* f64);
        $m!($($a)* bool);
        $m!($($a)* ());
    };
}

/// the 10 numeric leaves
#[macro_export]
macro_rules! num10 {
    ($m:ident ! ( $($a:tt)* )) => {
        $m!($($a)* u8);
        $m!($($a)* u16);
        $m!($($a)* u32);
        $m!($($a)* u64);
        $m!($($a)* i8);
        $m!($($a)* i16);
        $m!($($a)* i32);
        $m!($($a)* i64);
        $m!($($a)* f32);
        $m!($($a)* f64);
    };
}

/// `opt_of!(m [args..] T)` = `m!(args.. Option<T>)`
#[macro_export]
macro_rules! opt_of {
    ($m:ident [ $($a:tt)* ] $t:ty) => {
        $m!($($a)* Option<$t>);
    };
}

/// `list_of!(m [args..] T)` = `m!(args.. roto::List<T>)`
#[macro_export]
macro_rules! list_of {
    ($m:ident [ $($a:tt)* ] $t:ty) => {
        $m!($($a)* roto::List<$t>);
    };
}

/// call `$m!(args.. X)` for the 36 payload types: the 12 leaves, Option of
/// each, List of each. `twelve`, `opt_of` and `list_of` must be in scope.
#[macro_export]
macro_rules! all36 {
    ($m:ident ! ( $($a:tt)* )) => {
        twelve!($m!($($a)*));
        twelve!(opt_of!($m [$($a)*]));
        twelve!(list_of!($m [$($a)*]));
    };
}

/// call `$m!(args.. X)` for the 7 types an inferred payload can really have
/// (`{integer}` is i32 and `{float}` is f64 after lowering), plus ()
#[macro_export]
macro_rules! true7 {
    ($m:ident ! ( $($a:tt)* )) => {
        $m!($($a)* i32);
        $m!($($a)* f64);
        $m!($($a)* Option<i32>);
        $m!($($a)* Option<f64>);
        $m!($($a)* roto::List<i32>);
        $m!($($a)* roto::List<f64>);
        $m!($($a)* ());
    };
}

// ------------------------------------------------------------------ history family

/// Three Rust types that three different runtimes register under the same
/// Roto name `Thing`.
#[derive(Clone, Debug, PartialEq)]
pub struct Small(pub u8);
#[derive(Clone, Debug, PartialEq)]
pub struct Big(pub [u64; 4]);
#[derive(Clone, Debug, PartialEq)]
pub struct Mid(pub u32);

macro_rules! reg {
    ($t:ty, $k:literal, $v:expr) => {
        impl Desc for Val<$t> {
            fn desc() -> T {
                T::Reg($k)
            }
        }
        impl Mk for Val<$t> {
            fn mk() -> Self {
                Val($v)
            }
        }
    };
}
reg!(Small, 0, Small(7));
reg!(Big, 1, Big([1, 2, 3, 4]));
reg!(Mid, 2, Mid(7));

/// The k-th runtime: `Thing` is `Val<Small>`, `Val<Big>` or `Val<Mid>`;
/// `mk_thing()` makes one.
pub fn thing_runtime(k: u8) -> roto::Runtime<NoCtx> {
    use roto::{Runtime, library};
    match k {
        0 => Runtime::from_lib(library! {
            #[clone] type Thing = Val<Small>;
            fn mk_thing() -> Val<Small> { Val(Small(7)) }
        }),
        1 => Runtime::from_lib(library! {
            #[clone] type Thing = Val<Big>;
            fn mk_thing() -> Val<Big> { Val(Big([1, 2, 3, 4])) }
        }),
        _ => Runtime::from_lib(library! {
            #[clone] type Thing = Val<Mid>;
            fn mk_thing() -> Val<Mid> { Val(Mid(7)) }
        }),
    }
    .expect("runtime registers")
}

/// call `$m!(args.. X)` for the 19 types of the history family
#[macro_export]
macro_rules! hist19 {
    ($m:ident ! ( $($a:tt)* )) => {
        $crate::num10!($m!($($a)*));
        $m!($($a)* bool);
        $m!($($a)* roto::RotoString);
        $m!($($a)* Option<u8>);
        $m!($($a)* Option<u64>);
        $m!($($a)* roto::List<u8>);
        $m!($($a)* roto::List<u64>);
        $m!($($a)* roto::Val<$crate::probe::Small>);
        $m!($($a)* roto::Val<$crate::probe::Big>);
        $m!($($a)* roto::Val<$crate::probe::Mid>);
    };
}

// ------------------------------------------------------------------ string views

/// A probe whose descriptors are given explicitly: for Rust types that cannot
/// be named (and so cannot implement `Desc`). Requests only.
pub struct X<F> {
    params: Vec<T>,
    ret: T,
    _p: PhantomData<fn() -> F>,
}

impl<F: RotoFunc + 'static> Probe for X<F> {
    fn params(&self) -> Vec<T> {
        self.params.clone()
    }
    fn ret(&self) -> T {
        self.ret.clone()
    }
    fn get(&self, pkg: &mut Package<NoCtx>, name: &str) -> Got {
        match pkg.get_function::<F>(name) {
            Ok(f) => {
                drop(f);
                Got::HandleOnly
            }
            Err(e) => Got::Refused(head(&e)),
        }
    }
}

pub fn probe_explicit<F: RotoFunc + 'static>(params: Vec<T>, ret: T) -> Box<dyn Probe> {
    Box::new(X::<F> { params, ret, _p: PhantomData })
}

/// The seven request shapes for one string view `V`. `V` is never named: it
/// is inferred from a public method of `RotoString` (`_witness`), exactly as
/// a downstream crate could do it with `roto::Value` as the only bound.
pub fn view_probes<V: Value>(v: &mut Table, _witness: fn(RotoString) -> V, leaf: Leaf) {
    let d = T::L(leaf);
    let s = T::L(Leaf::Str);
    let u = T::L(Leaf::Unit);
    let o = T::Opt(Box::new(d.clone()));
    let li = T::List(Box::new(d.clone()));
    v.push(probe_explicit::<fn(RotoString) -> V>(vec![s], d.clone()));
    v.push(probe_explicit::<fn(V) -> ()>(vec![d.clone()], u.clone()));
    v.push(probe_explicit::<fn() -> V>(vec![], d.clone()));
    v.push(probe_explicit::<fn(Option<V>) -> ()>(vec![o.clone()], u.clone()));
    v.push(probe_explicit::<fn() -> Option<V>>(vec![], o));
    v.push(probe_explicit::<fn(List<V>) -> ()>(vec![li.clone()], u));
    v.push(probe_explicit::<fn() -> List<V>>(vec![], li));
}

/// string-view probes plus nameable controls of the same shapes
pub fn views_table() -> Table {
    let mut v: Table = vec![];
    view_probes(&mut v, RotoString::lines, Leaf::Lines);
    view_probes(&mut v, RotoString::bytes, Leaf::Bytes);
    view_probes(&mut v, RotoString::chars, Leaf::Chars);
    v.push(probe::<fn(RotoString) -> RotoString>());
    v.push(probe::<fn(RotoString) -> ()>());
    v.push(probe::<fn() -> RotoString>());
    v.push(probe::<fn(Option<RotoString>) -> ()>());
    v.push(probe::<fn() -> Option<RotoString>>());
    v.push(probe::<fn(List<RotoString>) -> ()>());
    v.push(probe::<fn() -> List<RotoString>>());
    v.push(probe::<fn(u8) -> ()>());
    v.push(probe::<fn() -> u8>());
    v
}
