//! Type descriptors of the boundary grammar, built by the generator alone
//! (nothing here looks at roto's `TypeRegistry`), their Roto spelling, a
//! Roto expression producing a value of the type, and the grammar per tier.

use vcore::Tier;

#[derive(Clone, Copy, PartialEq, Eq, Hash, Debug, PartialOrd, Ord)]
pub enum Leaf {
    U8,
    U16,
    U32,
    U64,
    I8,
    I16,
    I32,
    I64,
    F32,
    F64,
    Bool,
    Char,
    Asn,
    IpAddr,
    Prefix,
    Str,
    Unit,
    /// `Val<host::Tr>`, registered as `Tr` (clone)
    Tr,
    /// `Val<host::Z>`, registered as `Z` (clone, zero-sized)
    Z,
    /// `Val<host::K>`, registered as `K` (copy)
    K,
    /// the string views: registered built-in types whose Rust types
    /// (`StringLines`, `StringBytes`, `StringChars`) cannot be named outside
    /// roto but are the return types of public `RotoString` methods
    Lines,
    Bytes,
    Chars,
}

pub const LEAVES: [Leaf; 20] = [
    Leaf::U8,
    Leaf::U16,
    Leaf::U32,
    Leaf::U64,
    Leaf::I8,
    Leaf::I16,
    Leaf::I32,
    Leaf::I64,
    Leaf::F32,
    Leaf::F64,
    Leaf::Bool,
    Leaf::Char,
    Leaf::Asn,
    Leaf::IpAddr,
    Leaf::Prefix,
    Leaf::Str,
    Leaf::Unit,
    Leaf::Tr,
    Leaf::Z,
    Leaf::K,
];

/// the 6-leaf representative set used under binary constructors and at depth 2
pub const SIX: [Leaf; 6] = [Leaf::U8, Leaf::I32, Leaf::U32, Leaf::Str, Leaf::Unit, Leaf::Tr];

impl Leaf {
    pub fn roto(self) -> &'static str {
        match self {
            Leaf::U8 => "u8",
            Leaf::U16 => "u16",
            Leaf::U32 => "u32",
            Leaf::U64 => "u64",
            Leaf::I8 => "i8",
            Leaf::I16 => "i16",
            Leaf::I32 => "i32",
            Leaf::I64 => "i64",
            Leaf::F32 => "f32",
            Leaf::F64 => "f64",
            Leaf::Bool => "bool",
            Leaf::Char => "char",
            Leaf::Asn => "Asn",
            Leaf::IpAddr => "IpAddr",
            Leaf::Prefix => "Prefix",
            Leaf::Str => "String",
            Leaf::Unit => "()",
            Leaf::Tr => "Tr",
            Leaf::Z => "Z",
            Leaf::K => "K",
            Leaf::Lines => "StringLines",
            Leaf::Bytes => "StringBytes",
            Leaf::Chars => "StringChars",
        }
    }
    pub fn rust(self) -> &'static str {
        match self {
            Leaf::Asn => "inetnum::asn::Asn",
            Leaf::IpAddr => "std::net::IpAddr",
            Leaf::Prefix => "inetnum::addr::Prefix",
            Leaf::Str => "roto::RotoString",
            Leaf::Tr => "roto::Val<host::Tr>",
            Leaf::Z => "roto::Val<host::Z>",
            Leaf::K => "roto::Val<host::K>",
            Leaf::Lines => "<return type of roto::RotoString::lines>",
            Leaf::Bytes => "<return type of roto::RotoString::bytes>",
            Leaf::Chars => "<return type of roto::RotoString::chars>",
            l => l.roto(),
        }
    }
    fn mangle(self) -> &'static str {
        match self {
            Leaf::Unit => "unit",
            l => l.roto(),
        }
    }
    /// a Roto expression of exactly this type (given the expected type from context)
    fn value(self) -> &'static str {
        match self {
            Leaf::U8 | Leaf::U16 | Leaf::U32 | Leaf::U64 => "7",
            Leaf::I8 | Leaf::I16 | Leaf::I32 | Leaf::I64 => "-7",
            Leaf::F32 | Leaf::F64 => "1.5",
            Leaf::Bool => "true",
            Leaf::Char => "'c'",
            Leaf::Asn => "AS65000",
            Leaf::IpAddr => "10.0.0.1",
            Leaf::Prefix => "10.0.0.0 / 8",
            Leaf::Str => "\"s\"",
            Leaf::Unit => "()",
            Leaf::Tr => "mk(7)",
            Leaf::Z => "mkz()",
            Leaf::K => "mkk(7)",
            Leaf::Lines => "\"a\".lines()",
            Leaf::Bytes => "\"a\".bytes()",
            Leaf::Chars => "\"a\".chars()",
        }
    }
    /// an expression whose type is this leaf without help from context
    fn typed_value(self) -> String {
        match self {
            Leaf::U8 => "echo_u8(7)".into(),
            Leaf::I32 => "echo_i32(-7)".into(),
            Leaf::U32 => "echo_u32(7)".into(),
            l => l.value().into(),
        }
    }
}

#[derive(Clone, PartialEq, Eq, Hash, Debug, PartialOrd, Ord)]
pub enum T {
    L(Leaf),
    Opt(Box<T>),
    List(Box<T>),
    Res(Box<T>, Box<T>),
    Ver(Box<T>, Box<T>),
    /// A type that exists on one side only: script-declared record / enum
    /// (`roto:<name>`), or a Rust type the runtime does not know
    /// (`rust:<name>`). Equal only to itself, and the two sides never share a
    /// name, so it never matches.
    Alien(&'static str),
    /// The Roto type `Thing` as bound by the k-th runtime of the history
    /// family = the k-th registered Rust type (`Val<Small|Big|Mid>`). The same
    /// Roto spelling for every k.
    Reg(u8),
}

pub fn l(x: Leaf) -> T {
    T::L(x)
}
pub fn opt(x: T) -> T {
    T::Opt(Box::new(x))
}
pub fn list(x: T) -> T {
    T::List(Box::new(x))
}
pub fn res(a: T, b: T) -> T {
    T::Res(Box::new(a), Box::new(b))
}
pub fn ver(a: T, b: T) -> T {
    T::Ver(Box::new(a), Box::new(b))
}
pub fn unit() -> T {
    T::L(Leaf::Unit)
}

impl T {
    pub fn depth(&self) -> usize {
        match self {
            T::L(_) | T::Alien(_) | T::Reg(_) => 0,
            T::Opt(x) | T::List(x) => 1 + x.depth(),
            T::Res(a, b) | T::Ver(a, b) => 1 + a.depth().max(b.depth()),
        }
    }
    /// Roto spelling
    pub fn roto(&self) -> String {
        match self {
            T::L(x) => x.roto().into(),
            T::Opt(x) => format!("Option[{}]", x.roto()),
            T::List(x) => format!("List[{}]", x.roto()),
            T::Res(a, b) => format!("Result[{}, {}]", a.roto(), b.roto()),
            T::Ver(a, b) => format!("Verdict[{}, {}]", a.roto(), b.roto()),
            T::Alien(n) => n.split_once(':').map_or(*n, |x| x.1).to_string(),
            T::Reg(_) => "Thing".into(),
        }
    }
    /// Rust spelling (for reports)
    pub fn rust(&self) -> String {
        match self {
            T::L(x) => x.rust().into(),
            T::Opt(x) => format!("Option<{}>", x.rust()),
            T::List(x) => format!("roto::List<{}>", x.rust()),
            T::Res(a, b) => format!("Result<{}, {}>", a.rust(), b.rust()),
            T::Ver(a, b) => format!("roto::Verdict<{}, {}>", a.rust(), b.rust()),
            T::Alien(n) => n.to_string(),
            T::Reg(k) => format!("roto::Val<c04p::probe::{}>", ["Small", "Big", "Mid"][*k as usize]),
        }
    }
    pub fn mangle(&self) -> String {
        match self {
            T::L(x) => x.mangle().into(),
            T::Opt(x) => format!("O{}", x.mangle()),
            T::List(x) => format!("L{}", x.mangle()),
            T::Res(a, b) => format!("R{}_{}", a.mangle(), b.mangle()),
            T::Ver(a, b) => format!("V{}_{}", a.mangle(), b.mangle()),
            T::Alien(n) => n.replace([':', '<', '>', ' ', '{', '}', ',', '[', ']', '.'], "_"),
            T::Reg(k) => format!("Thing{k}"),
        }
    }
    /// A Roto expression producing a value of this type when the expected
    /// type is known from context (the declared return type).
    pub fn value(&self) -> String {
        match self {
            T::L(x) => x.value().into(),
            T::Opt(x) => format!("Option.Some({})", x.value()),
            T::List(x) => format!("[{}]", x.value()),
            T::Res(a, _) => format!("Result.Ok({})", a.value()),
            T::Ver(a, _) => format!("Verdict.Accept({})", a.value()),
            T::Alien(_) => unreachable!(),
            T::Reg(_) => "mk_thing()".into(),
        }
    }
    pub fn typed_value(&self) -> String {
        match self {
            T::L(x) => x.typed_value(),
            _ => self.value(),
        }
    }
    /// Known compiler defect N5 (property C06, lir/lower/eq.rs:112): building a
    /// list whose element is an enum with a zero-sized payload panics the
    /// compiler while it generates the element's `eq` helper. The generator
    /// writes no `r_S` for such S (`p_S` is still there).
    pub fn hits_n5(&self) -> bool {
        let unit = T::L(Leaf::Unit);
        match self {
            T::List(x) => match &**x {
                T::Opt(a) => **a == unit,
                T::Res(a, b) | T::Ver(a, b) => **a == unit || **b == unit,
                _ => false,
            },
            _ => false,
        }
    }
    #[allow(dead_code)]
    pub fn has_leaf(&self, leaf: Leaf) -> bool {
        match self {
            T::L(x) => *x == leaf,
            T::Opt(x) | T::List(x) => x.has_leaf(leaf),
            T::Res(a, b) | T::Ver(a, b) => a.has_leaf(leaf) || b.has_leaf(leaf),
            T::Alien(_) | T::Reg(_) => false,
        }
    }
}

/// G1: 20 leaves, Option/List of every leaf, Result/Verdict over the 6-leaf set: 132 types
pub fn g1() -> Vec<T> {
    let mut v: Vec<T> = LEAVES.iter().map(|x| l(*x)).collect();
    for x in LEAVES {
        v.push(opt(l(x)));
    }
    for x in LEAVES {
        v.push(list(l(x)));
    }
    for a in SIX {
        for b in SIX {
            v.push(res(l(a), l(b)));
        }
    }
    for a in SIX {
        for b in SIX {
            v.push(ver(l(a), l(b)));
        }
    }
    v
}

/// all depth-2 nestings over the 6-leaf set in which binary constructors
/// have exactly one non-leaf argument of shape Option/List, plus Option/List
/// of every depth-1 type over the 6-leaf set: 456 types
pub fn g2() -> Vec<T> {
    let mut v = vec![];
    let six = || SIX.iter().map(|x| l(*x));
    type Bin = fn(T, T) -> T;
    type Un = fn(T) -> T;
    let bins: [Bin; 2] = [res, ver];
    let uns: [Un; 2] = [opt, list];
    for u in uns {
        for w in uns {
            for x in six() {
                v.push(u(w(x)));
            }
        }
    }
    for c in bins {
        for u in uns {
            for a in six() {
                for b in six() {
                    v.push(c(u(a.clone()), b));
                }
            }
            for a in six() {
                for b in six() {
                    v.push(c(a.clone(), u(b)));
                }
            }
        }
    }
    for u in uns {
        for c in bins {
            for a in six() {
                for b in six() {
                    v.push(u(c(a.clone(), b)));
                }
            }
        }
    }
    v
}

/// the six (L, M) pairs used under binary constructors in the depth-2 probe
/// table: a cycle through the 6-leaf set, so every leaf occurs on both sides
pub const PAIRS: [(Leaf, Leaf); 6] = [
    (Leaf::U8, Leaf::Str),
    (Leaf::Str, Leaf::Tr),
    (Leaf::Tr, Leaf::I32),
    (Leaf::I32, Leaf::Unit),
    (Leaf::Unit, Leaf::U32),
    (Leaf::U32, Leaf::U8),
];

/// G2': the part of g2 that the probe table instantiates in the thorough tier
/// (rustc needs ~25 ms per `get_function::<F>` instantiation): unary-unary
/// over the 6-leaf set, binary shapes over `PAIRS`: 96 types
pub fn g2p() -> Vec<T> {
    let mut v = vec![];
    let six = || SIX.iter().map(|x| l(*x));
    let pairs = || PAIRS.iter().map(|(a, b)| (l(*a), l(*b)));
    type Bin = fn(T, T) -> T;
    type Un = fn(T) -> T;
    let bins: [Bin; 2] = [res, ver];
    let uns: [Un; 2] = [opt, list];
    for u in uns {
        for w in uns {
            for x in six() {
                v.push(u(w(x)));
            }
        }
    }
    for c in bins {
        for u in uns {
            for (a, b) in pairs() {
                v.push(c(u(a), b));
            }
            for (a, b) in pairs() {
                v.push(c(a, u(b)));
            }
        }
    }
    for u in uns {
        for c in bins {
            for (a, b) in pairs() {
                v.push(u(c(a, b)));
            }
        }
    }
    v
}

/// D2: every type of depth <= 2 over the 6-leaf set in which a binary
/// constructor has at most one non-leaf argument (2274 types)
pub fn d2() -> Vec<T> {
    let six: Vec<T> = SIX.iter().map(|x| l(*x)).collect();
    let step = |prev: &[T]| -> Vec<T> {
        let mut v: Vec<T> = prev.to_vec();
        for x in prev {
            v.push(opt(x.clone()));
            v.push(list(x.clone()));
        }
        for x in prev {
            for y in &six {
                v.push(res(x.clone(), y.clone()));
                v.push(res(y.clone(), x.clone()));
                v.push(ver(x.clone(), y.clone()));
                v.push(ver(y.clone(), x.clone()));
            }
        }
        let mut seen = std::collections::HashSet::new();
        v.retain(|t| seen.insert(t.clone()));
        v
    };
    let d1 = step(&six);
    step(&d1)
}

fn dedup(mut v: Vec<T>) -> Vec<T> {
    let mut seen = std::collections::HashSet::new();
    v.retain(|t| seen.insert(t.clone()));
    // simplest first (stable within a depth)
    v.sort_by_key(|t| t.depth());
    v
}

/// types S for which the package has `p_S` / `r_S`
pub fn script_grammar(tier: Tier) -> Vec<T> {
    let mut v = g1();
    match tier {
        Tier::Quick => v.extend(g2()),
        Tier::Thorough => v.extend(d2()),
    }
    dedup(v)
}

/// types R for which the probe table has `fn(R)` / `fn() -> R`
pub fn probe_grammar(tier: Tier) -> Vec<T> {
    let mut v = g1();
    match tier {
        // the unary-unary part of g2p
        Tier::Quick => v.extend(g2p().into_iter().take(24)),
        Tier::Thorough => v.extend(g2p()),
    }
    dedup(v)
}
