//! Inferred-payload family, part 1: `fn() -> Verdict<A, R>` for A over all 36
//! payload types and R over the 7 types an inferred payload can really have
use c04p::probe::{Table, probe};
use c04p::{all36, list_of, opt_of, true7, twelve};
use roto::Verdict;

macro_rules! pv { ($v:ident $r:ty, $a:ty) => { $v.push(probe::<fn() -> Verdict<$a, $r>>()); }; }
macro_rules! row { ($v:ident $r:ty) => { all36!(pv!($v $r,)); }; }

pub fn fill(v: &mut Table) {
    true7!(row!(v));
}
