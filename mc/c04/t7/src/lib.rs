//! History family: for each of the 19 types X, the five signatures in which X
//! is the one type that differs between two package variants:
//! `fn(u32) -> Verdict<X, ()>`, `fn(u32) -> Verdict<(), X>`, `fn(X)`,
//! `fn() -> X`, `fn(X) -> X`
use c04p::hist19;
use c04p::probe::{Table, probe};
use roto::Verdict;

macro_rules! five {
    ($v:ident $t:ty) => {
        $v.push(probe::<fn(u32) -> Verdict<$t, ()>>());
        $v.push(probe::<fn(u32) -> Verdict<(), $t>>());
        $v.push(probe::<fn($t) -> ()>());
        $v.push(probe::<fn() -> $t>());
        $v.push(probe::<fn($t) -> $t>());
    };
}

pub fn fill(v: &mut Table) {
    hist19!(five!(v));
}
