//! Generator of test-bearing packages (random access: every package is a pure
//! function of `(shape, k, flavour, placement, outcomes)`).

use vcore::{Value, json};

/// module trees: (module name, parent index); index 0 is the root `pkg`
pub const SHAPES: [&[(&str, usize)]; 10] = [
    &[("pkg", 0)],
    &[("pkg", 0), ("a", 0)],
    &[("pkg", 0), ("a", 0), ("z", 0)],
    &[("pkg", 0), ("a", 0), ("z", 1)],
    // sub-module names that collide with the path machinery (PATHY_SHAPES)
    // a sub-module called like the root: pkg.pkg
    &[("pkg", 0), ("pkg", 0)],
    // pkg.pkg and pkg.pkg.pkg
    &[("pkg", 0), ("pkg", 0), ("pkg", 1)],
    // keywords of the language / of the path syntax as module names
    &[("pkg", 0), ("test", 0), ("super_", 0)],
    &[("pkg", 0), ("std", 0), ("dep", 0)],
    // a name that is a prefix of another
    &[("pkg", 0), ("a", 0), ("ab", 0)],
    // ... and a suffix; `b` below `a_b`
    &[("pkg", 0), ("a_b", 0), ("b", 1)],
];

/// the first of the module trees whose names collide with the path machinery
pub const FIRST_PATHY_SHAPE: usize = 4;

/// path of module `m` below `pkg` ("" for the root): what `get_function` wants
pub fn rel_path(shape: usize, m: usize) -> String {
    if m == 0 {
        return String::new();
    }
    let (name, parent) = SHAPES[shape][m];
    let p = rel_path(shape, parent);
    if p.is_empty() { name.to_string() } else { format!("{p}.{name}") }
}

pub fn abs_path(shape: usize, m: usize) -> String {
    let r = rel_path(shape, m);
    if r.is_empty() { "pkg".into() } else { format!("pkg.{r}") }
}

pub fn item_path(shape: usize, m: usize, name: &str) -> String {
    let r = rel_path(shape, m);
    if r.is_empty() { name.to_string() } else { format!("{r}.{name}") }
}

#[derive(Clone, Copy, PartialEq, Eq, Debug)]
pub enum Naming {
    /// t0, t1, ... (sorted order = source order)
    Asc,
    /// t9, t8, ... (sorted order = reverse source order)
    Desc,
    /// the j-th test of every module is called NAMES[j]: the same names
    /// re-appear in every module
    PerMod,
    /// every test is called `foo`: two tests of one module clash
    AllFoo,
    /// the j-th test of every module has the name of a host function
    /// (`e`, the marker every block calls, first)
    Host,
}

#[derive(Clone, Copy, PartialEq, Eq, Debug)]
pub enum Style {
    /// `e(i); accept`
    Direct,
    /// `e(i); if h_i() { accept } else { reject }`, helper in the same module
    HelperBool,
    /// `e(i); if 1 == c { reject; } accept`
    EarlyReturn,
    /// like HelperBool, helper in the root module, called as `pkg.h_i()`
    CrossHelper,
    /// test i uses style i % 3
    Mixed,
}

#[derive(Clone, Copy, PartialEq, Eq, Debug)]
pub enum FnKind {
    None,
    /// `fn NAME() -> i32 { e(mark) }`
    Fn,
    /// `filtermap NAME() { e(mark); accept }` — the signature of a test
    Fm,
}

#[derive(Clone, Copy, Debug)]
pub struct Flavour {
    pub naming: Naming,
    pub style: Style,
    /// a function with the name of every test, in the same module
    pub fnkind: FnKind,
    /// colliding functions are declared after (true) / before the tests
    pub fn_after: bool,
    /// functions whose names start with `test` but are no tests
    pub decoys: bool,
}

pub const FLAVOURS: [Flavour; 9] = [
    Flavour { naming: Naming::Asc, style: Style::Direct, fnkind: FnKind::None, fn_after: false, decoys: false },
    Flavour { naming: Naming::Desc, style: Style::HelperBool, fnkind: FnKind::None, fn_after: false, decoys: true },
    Flavour { naming: Naming::PerMod, style: Style::EarlyReturn, fnkind: FnKind::Fn, fn_after: false, decoys: false },
    Flavour { naming: Naming::PerMod, style: Style::Direct, fnkind: FnKind::Fm, fn_after: true, decoys: true },
    Flavour { naming: Naming::AllFoo, style: Style::Direct, fnkind: FnKind::None, fn_after: false, decoys: false },
    Flavour { naming: Naming::AllFoo, style: Style::Mixed, fnkind: FnKind::Fm, fn_after: false, decoys: true },
    Flavour { naming: Naming::Desc, style: Style::CrossHelper, fnkind: FnKind::Fn, fn_after: true, decoys: false },
    Flavour { naming: Naming::PerMod, style: Style::Mixed, fnkind: FnKind::None, fn_after: false, decoys: true },
    Flavour { naming: Naming::Host, style: Style::Mixed, fnkind: FnKind::None, fn_after: false, decoys: false },
];

/// flavours used for k = 5 (thorough tier). The all-`foo` flavours are left
/// out: five blocks in at most three modules always repeat a name within a
/// module, so every such package is only a compile error.
pub const WIDE_FLAVOURS: [usize; 3] = [3, 6, 7];

pub const NAMES: [&str; 6] = ["foo", "bar", "baz", "qux", "zed", "abc"];
/// functions registered by the harness runtime (`host::lib`)
pub const HOST_NAMES: [&str; 6] = ["e", "mk", "eb", "val", "es", "emit_i32"];

#[derive(Clone, Debug)]
pub struct TestSpec {
    /// index = the mark the block logs
    pub idx: usize,
    pub module: usize,
    pub name: String,
    pub accept: bool,
    pub style: Style,
}

#[derive(Clone, Debug)]
pub struct FnSpec {
    pub module: usize,
    pub name: String,
    pub kind: FnKind,
    pub mark: i32,
}

#[derive(Clone, Debug)]
pub struct Pkg {
    pub shape: usize,
    pub flavour: usize,
    pub tests: Vec<TestSpec>,
    pub fns: Vec<FnSpec>,
    /// one source per module of the shape
    pub srcs: Vec<String>,
    /// two tests of one module have the same name ("the name must be unique")
    pub dup_names: bool,
    /// the script has a type error: it must be rejected with a report
    pub ill_typed: bool,
    /// also run parse + typecheck alone (what `roto check` does)
    pub typecheck_alone: bool,
    /// further fields of the written-out case
    pub extra: Value,
}

pub const DECOY_BASE: i32 = 900;

fn test_src(t: &TestSpec) -> String {
    let i = t.idx;
    let n = &t.name;
    match t.style {
        Style::Direct => {
            format!("test {n} {{\n    e({i});\n    {}\n}}\n", if t.accept { "accept" } else { "reject" })
        }
        Style::HelperBool => {
            format!("test {n} {{\n    e({i});\n    if h{i}() {{ accept }} else {{ reject }}\n}}\n")
        }
        Style::CrossHelper => {
            format!("test {n} {{\n    e({i});\n    if pkg.h{i}() {{ accept }} else {{ reject }}\n}}\n")
        }
        Style::EarlyReturn => {
            format!(
                "test {n} {{\n    e({i});\n    if 1 == {} {{\n        reject;\n    }}\n    accept\n}}\n",
                if t.accept { 2 } else { 1 }
            )
        }
        Style::Mixed => unreachable!(),
    }
}

fn fn_src(f: &FnSpec) -> String {
    match f.kind {
        FnKind::Fn => format!("fn {}() -> i32 {{\n    e({})\n}}\n", f.name, f.mark),
        FnKind::Fm => format!("filtermap {}() {{\n    e({});\n    accept\n}}\n", f.name, f.mark),
        FnKind::None => String::new(),
    }
}

/// Build the package: `placement[i]` is the module of test i, bit i of
/// `outcomes` says whether test i accepts.
pub fn build(shape: usize, flavour: usize, placement: &[u64], outcomes: u64) -> Pkg {
    let fl = FLAVOURS[flavour];
    let nmods = SHAPES[shape].len();
    let k = placement.len();
    let mut per_mod = vec![0usize; nmods];
    let mut tests = vec![];
    for i in 0..k {
        let m = placement[i] as usize;
        let j = per_mod[m];
        per_mod[m] += 1;
        let name = match fl.naming {
            Naming::Asc => format!("t{i}"),
            Naming::Desc => format!("t{}", 9 - i),
            Naming::PerMod => NAMES[j].to_string(),
            Naming::AllFoo => "foo".to_string(),
            Naming::Host => HOST_NAMES[j].to_string(),
        };
        let style = match fl.style {
            Style::Mixed => [Style::Direct, Style::HelperBool, Style::EarlyReturn][i % 3],
            s => s,
        };
        tests.push(TestSpec { idx: i, module: m, name, accept: outcomes >> i & 1 == 1, style });
    }
    let dup_names = fl.naming == Naming::AllFoo && per_mod.iter().any(|n| *n > 1);
    // colliding functions: one per (module, distinct test name)
    let mut fns: Vec<FnSpec> = vec![];
    if fl.fnkind != FnKind::None {
        for t in &tests {
            if !fns.iter().any(|f| f.module == t.module && f.name == t.name) {
                let mark = 100 + fns.len() as i32;
                fns.push(FnSpec { module: t.module, name: t.name.clone(), kind: fl.fnkind, mark });
            }
        }
        if k == 0 {
            fns.push(FnSpec { module: 0, name: "foo".into(), kind: fl.fnkind, mark: 100 });
        }
    }
    let mut srcs = vec![];
    for m in 0..nmods {
        let mut s = String::new();
        if !fl.fn_after {
            for f in fns.iter().filter(|f| f.module == m) {
                s += &fn_src(f);
            }
        }
        for t in tests.iter().filter(|t| t.module == m) {
            s += &test_src(t);
        }
        if fl.fn_after {
            for f in fns.iter().filter(|f| f.module == m) {
                s += &fn_src(f);
            }
        }
        for t in &tests {
            let here = match t.style {
                Style::HelperBool => t.module == m,
                Style::CrossHelper => m == 0,
                _ => false,
            };
            if here {
                s += &format!("fn h{}() -> bool {{\n    {}\n}}\n", t.idx, t.accept);
            }
        }
        if fl.decoys {
            let d = DECOY_BASE + 10 * m as i32;
            s += &format!("filtermap test_decoy() {{\n    e({d});\n    reject\n}}\n");
            s += &format!("fn testing() -> i32 {{\n    e({})\n}}\n", d + 1);
            s += &format!("fn tests() {{\n    e({});\n}}\n", d + 2);
        }
        srcs.push(s);
    }
    Pkg { shape, flavour, tests, fns, srcs, dup_names, ill_typed: false, typecheck_alone: false, extra: Value::Null }
}

impl Pkg {
    pub fn source_hash(&self) -> u64 {
        let mut h = vcore::util::mix(self.shape as u64, 0x19);
        for s in &self.srcs {
            h = vcore::util::mix(h, vcore::util::fnv_str(s));
        }
        h
    }

    pub fn to_json(&self) -> Value {
        let fl = FLAVOURS[self.flavour];
        json!({
            "kind": "pkg",
            "shape": self.shape,
            "modules": (0..self.srcs.len()).map(|m| json!({
                "path": abs_path(self.shape, m), "source": self.srcs[m]})).collect::<Vec<_>>(),
            "k": self.tests.len(),
            "tests": self.tests.iter().map(|t| json!({
                "mark": t.idx, "module": abs_path(self.shape, t.module), "name": t.name,
                "accept": t.accept, "style": format!("{:?}", t.style)})).collect::<Vec<_>>(),
            "functions": self.fns.iter().map(|f| json!({
                "module": abs_path(self.shape, f.module), "name": f.name,
                "kind": format!("{:?}", f.kind), "mark": f.mark})).collect::<Vec<_>>(),
            "flavour": self.flavour,
            "naming": format!("{:?}", fl.naming),
            "fnkind": format!("{:?}", fl.fnkind),
            "fn_after": fl.fn_after,
            "decoys": fl.decoys,
            "dup_names": self.dup_names,
            "ill_typed": self.ill_typed,
            "family": self.extra,
        })
    }
}

// ------------------------------------------------------------------ callers

/// How a script function tries to reach the test `foo`
pub const CALL_FORMS: [&str; 6] = ["bare", "abs", "import_item", "import_local", "rel", "hash"];

#[derive(Clone, Debug)]
pub struct CallerCase {
    pub shape: usize,
    pub test_mod: usize,
    pub caller_mod: usize,
    pub form: usize,
    pub fnkind: FnKind,
    pub accept: bool,
    pub srcs: Vec<String>,
    /// mark of `fn foo` when it exists
    pub fn_mark: Option<i32>,
}

/// (shape, test module, caller module)
pub const CALLER_PLACES: [(usize, usize, usize); 5] = [(0, 0, 0), (1, 0, 0), (1, 1, 1), (1, 0, 1), (1, 1, 0)];
pub const CALLER_FNKINDS: [FnKind; 3] = [FnKind::None, FnKind::Fn, FnKind::Fm];

pub fn caller_radices() -> [u64; 4] {
    [CALLER_PLACES.len() as u64, CALL_FORMS.len() as u64, CALLER_FNKINDS.len() as u64, 2]
}

pub fn build_caller(sub: u64) -> CallerCase {
    let d = vcore::util::decode(sub, &caller_radices());
    let (shape, test_mod, caller_mod) = CALLER_PLACES[d[0] as usize];
    let form = d[1] as usize;
    let fnkind = CALLER_FNKINDS[d[2] as usize];
    let accept = d[3] == 1;
    let nmods = SHAPES[shape].len();
    let tabs = abs_path(shape, test_mod);
    let mut pre = String::new();
    let mut local = String::new();
    let call = match CALL_FORMS[form] {
        "bare" => "foo()".to_string(),
        "abs" => format!("{tabs}.foo()"),
        "import_item" => {
            pre = format!("import {tabs}.foo;\n");
            "foo()".to_string()
        }
        "import_local" => {
            local = format!("    import {tabs}.foo;\n");
            "foo()".to_string()
        }
        "rel" => {
            if test_mod == caller_mod {
                "foo()".to_string() // same as bare; kept for a full product
            } else if caller_mod == 0 {
                "a.foo()".to_string()
            } else {
                "super.foo()".to_string()
            }
        }
        "hash" => "test#foo()".to_string(),
        _ => unreachable!(),
    };
    let mut srcs = vec![String::new(); nmods];
    let fn_mark = (fnkind != FnKind::None).then_some(100);
    let mut t = String::new();
    if let Some(mark) = fn_mark {
        t += &fn_src(&FnSpec { module: test_mod, name: "foo".into(), kind: fnkind, mark });
    }
    t += &format!("test foo {{\n    e(0);\n    {}\n}}\n", if accept { "accept" } else { "reject" });
    srcs[test_mod] += &t;
    // the import of an item into the module that declares it would clash
    // with the declaration itself; that is a different question (C13)
    srcs[caller_mod] = format!(
        "{pre}{}fn caller() -> i32 {{\n{local}    e(50);\n    {call};\n    7\n}}\n",
        srcs[caller_mod]
    );
    CallerCase { shape, test_mod, caller_mod, form, fnkind, accept, srcs, fn_mark }
}

impl CallerCase {
    pub fn to_json(&self) -> Value {
        json!({
            "kind": "caller",
            "shape": self.shape,
            "modules": (0..self.srcs.len()).map(|m| json!({
                "path": abs_path(self.shape, m), "source": self.srcs[m]})).collect::<Vec<_>>(),
            "test_module": abs_path(self.shape, self.test_mod),
            "caller_module": abs_path(self.shape, self.caller_mod),
            "form": CALL_FORMS[self.form],
            "fnkind": format!("{:?}", self.fnkind),
            "accept": self.accept,
        })
    }
}

// ------------------------------------------------------------------ bodies

/// The package of the body family: `sub` = (body, position) of placement `pl`
pub fn build_body_pkg(pl: usize, sub: u64) -> Pkg {
    use crate::bodies;
    let d = vcore::util::decode(sub, &[bodies::N_BODIES as u64, bodies::N_POSITIONS as u64]);
    let (b, pos) = (d[0] as usize, d[1] as usize);
    let (shape, module, other) = bodies::PLACEMENTS[pl];
    let body = bodies::body(b);
    let mut srcs = vec![other.to_string(); SHAPES[shape].len()];
    srcs[module] = bodies::file(&body, pos, &|i| format!("e({i});"));
    let mut tests = vec![TestSpec { idx: 0, module, name: "body".into(), accept: body.pass, style: Style::Direct }];
    if bodies::has_after_test(pos) {
        tests.push(TestSpec { idx: 1, module, name: bodies::AFTER_TEST.into(), accept: true, style: Style::Direct });
    }
    Pkg {
        shape,
        flavour: 0,
        tests,
        fns: vec![],
        srcs,
        dup_names: false,
        ill_typed: body.ill_typed,
        typecheck_alone: true,
        extra: bodies::describe_extra(&body, pos),
    }
}
