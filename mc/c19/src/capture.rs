//! `Package::run_tests` prints its report to the process's stdout, which in a
//! worker is the protocol pipe to the parent. While a unit runs, fd 1 is
//! pointed at an anonymous memory file; the text is read back after each call.

use std::io::Write;

pub struct Capture {
    saved: i32,
    fd: i32,
}

impl Capture {
    pub fn start() -> Result<Capture, String> {
        let _ = std::io::stdout().flush();
        unsafe {
            let fd = libc::memfd_create(c"c19-stdout".as_ptr(), 0);
            if fd < 0 {
                return Err("memfd_create failed".into());
            }
            let saved = libc::dup(1);
            if saved < 0 || libc::dup2(fd, 1) < 0 {
                return Err("dup of stdout failed".into());
            }
            Ok(Capture { saved, fd })
        }
    }

    /// Everything written to stdout since the last call
    pub fn take(&mut self) -> String {
        let _ = std::io::stdout().flush();
        let mut out = Vec::new();
        unsafe {
            let len = libc::lseek(self.fd, 0, libc::SEEK_CUR);
            if len > 0 {
                out.resize(len as usize, 0u8);
                let n = libc::pread(self.fd, out.as_mut_ptr() as *mut libc::c_void, len as usize, 0);
                out.truncate(n.max(0) as usize);
            }
            libc::ftruncate(self.fd, 0);
            libc::lseek(self.fd, 0, libc::SEEK_SET);
        }
        String::from_utf8_lossy(&out).into_owned()
    }
}

impl Drop for Capture {
    fn drop(&mut self) {
        let _ = std::io::stdout().flush();
        unsafe {
            libc::dup2(self.saved, 1);
            libc::close(self.saved);
            libc::close(self.fd);
        }
    }
}
