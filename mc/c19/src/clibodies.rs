//! Part B, body family: `roto check` and `roto test` on scripts whose test
//! block has a richer body (`bodies.rs`), in every position of a single file
//! and as the last item of the root / of the sub-module of a directory package.
//! One unit per position.

use crate::bodies::{self, Body};
use crate::clipart::{count_mark, launch, roto_bin, tail};
use std::collections::BTreeMap;
use std::path::PathBuf;
use vcore::util::{fnv_str, mix};
use vcore::{Cx, SUB_SETUP, Value, json};

pub const FORMS: [&str; 2] = ["check", "test"];

/// single-file positions, then: directory with the block last in the root
/// (sub-module has a function), directory with the block last in the
/// sub-module (root has a function)
pub const N_UNITS: usize = bodies::N_POSITIONS + 2;

pub fn unit_name(u: usize) -> String {
    if u < bodies::N_POSITIONS {
        format!("file:{}", bodies::position_name(u))
    } else if u == bodies::N_POSITIONS {
        "directory:block-last-in-root".into()
    } else {
        "directory:block-last-in-submodule".into()
    }
}

fn dir(u: usize) -> PathBuf {
    vcore::out_root().join("work").join("c19").join(format!("bodies-{u}"))
}

fn mark(path: &str) -> impl Fn(usize) -> String + '_ {
    move |i| {
        format!("print(\"MARK-t:{path}.{}\");", if i == 0 { "body" } else { bodies::AFTER_TEST })
    }
}

/// (argument for the command line, files, absolute module path of the block)
fn files(u: usize, b: &Body) -> (String, Vec<(String, String)>, &'static str) {
    const OTHER: &str = "fn other() -> i32 {\n    5\n}\n";
    if u < bodies::N_POSITIONS {
        let f = format!("{}.roto", b.name);
        (f.clone(), vec![(f, bodies::file(b, u, &mark("pkg")))], "pkg")
    } else if u == bodies::N_POSITIONS {
        let d = b.name.clone();
        (
            d.clone(),
            vec![(format!("{d}/pkg.roto"), bodies::file(b, 0, &mark("pkg"))), (format!("{d}/a.roto"), OTHER.into())],
            "pkg",
        )
    } else {
        let d = b.name.clone();
        (
            d.clone(),
            vec![(format!("{d}/pkg.roto"), OTHER.into()), (format!("{d}/a.roto"), bodies::file(b, 0, &mark("pkg.a")))],
            "pkg.a",
        )
    }
}

fn position(u: usize) -> usize {
    if u < bodies::N_POSITIONS { u } else { 0 }
}

pub fn describe(u: usize, sub: u64) -> Value {
    if sub == SUB_SETUP || sub >= (FORMS.len() * bodies::N_BODIES) as u64 {
        return json!({"kind": "cli_bodies_setup", "unit": unit_name(u)});
    }
    let form = sub as usize / bodies::N_BODIES;
    let b = bodies::body(sub as usize % bodies::N_BODIES);
    let (arg, fs, _) = files(u, &b);
    json!({
        "kind": "cli_body",
        "subcommand": FORMS[form],
        "argv": [FORMS[form], arg],
        "body": b.name,
        "ill_typed": b.ill_typed,
        "position": unit_name(u),
        "files": fs.iter().map(|(p, c)| json!({"path": p, "contents": c})).collect::<Vec<_>>(),
        "cwd": dir(u),
        "binary": roto_bin(),
    })
}

/// per-test status lines of `roto test`: the first `ok` / `fail` after the
/// line naming the test. `None` where the text does not have that shape.
fn status_of(stdout: &str, path: &str) -> Option<bool> {
    let needle = format!(" {path}... ");
    let at = stdout.find(&needle)? + needle.len();
    let rest = &stdout[at..];
    let end = [rest.find("\nTest "), rest.find("\nRan ")].into_iter().flatten().min().unwrap_or(rest.len());
    let seg = &rest[..end];
    match (seg.find("ok\u{1b}").or(seg.find("ok\n")), seg.find("fail")) {
        (Some(_), None) => Some(true),
        (None, Some(_)) => Some(false),
        _ => None,
    }
}

pub fn run(u: usize, cx: &mut Cx) {
    let d = dir(u);
    let bin = roto_bin();
    if !cx.case(SUB_SETUP) {
        return;
    }
    let setup = (|| -> Result<(), String> {
        let _ = std::fs::remove_dir_all(&d);
        std::fs::create_dir_all(&d).map_err(|e| format!("{}: {e}", d.display()))?;
        for b in 0..bodies::N_BODIES {
            for (path, contents) in files(u, &bodies::body(b)).1 {
                let path = d.join(path);
                if let Some(parent) = path.parent() {
                    std::fs::create_dir_all(parent).map_err(|e| e.to_string())?;
                }
                std::fs::write(&path, contents).map_err(|e| format!("{}: {e}", path.display()))?;
            }
        }
        if !bin.exists() {
            return Err(format!("{} does not exist (preflight builds it)", bin.display()));
        }
        Ok(())
    })();
    if let Err(e) = setup {
        cx.violation("machinery", SUB_SETUP, describe(u, SUB_SETUP), json!("work files written"), json!(e));
        return;
    }
    let pos = position(u);
    for form in 0..FORMS.len() {
        for bi in 0..bodies::N_BODIES {
            let sub = (form * bodies::N_BODIES + bi) as u64;
            if !cx.case(sub) {
                continue;
            }
            let b = bodies::body(bi);
            let (arg, _, modpath) = files(u, &b);
            let case = describe(u, sub);
            cx.states(1);
            let out = match launch(&bin, &d, &[FORMS[form].to_string(), arg], sub) {
                Ok(o) => o,
                Err(e) => {
                    cx.violation("machinery", sub, case, json!("the binary can be launched"), json!(e));
                    continue;
                }
            };
            cx.transitions(1);
            cx.validated(1);
            cx.count("cli_launches", 1);
            cx.count("cli_body_launches", 1);
            let is_test = FORMS[form] == "test";
            // reference outcome
            let mut tests: Vec<(String, bool)> = vec![(format!("{modpath}.body"), b.pass)];
            if bodies::has_after_test(pos) {
                tests.push((format!("{modpath}.{}", bodies::AFTER_TEST), true));
            }
            let want_success = !b.ill_typed && (!is_test || b.pass);
            let want_marks: BTreeMap<String, usize> =
                tests.iter().map(|(p, _)| (format!("t:{p}"), (is_test && !b.ill_typed) as usize)).collect();
            let got_marks: BTreeMap<String, usize> =
                want_marks.keys().map(|m| (m.clone(), count_mark(&out.stdout, m))).collect();
            let success = out.code == Some(0);
            let crashed = matches!(out.code, None | Some(101)) || out.stderr.contains("panicked at");
            cx.outcome(mix(
                mix(fnv_str(FORMS[form]), out.code.unwrap_or(-1) as u64),
                got_marks.values().fold(11, |h, n| mix(h, *n as u64)),
            ));
            cx.nontrivial(mix(0xb0d1e5, mix(u as u64, sub)));
            if u == bodies::N_POSITIONS - bodies::POST.len() && bi == 2 && is_test {
                cx.sample(json!({"argv": case["argv"], "files": case["files"], "exit_code": out.code,
                                  "stdout": tail(&out.stdout)}));
            }
            let observed = json!({
                "exit_code": out.code, "timed_out": out.timed_out, "marks": got_marks,
                "stdout": tail(&out.stdout), "stderr": tail(&out.stderr),
            });
            if out.timed_out {
                cx.violation("cli_hang", sub, case, json!("the command ends"), observed);
            } else if crashed {
                cx.violation(
                    "cli_crash",
                    sub,
                    case,
                    json!({"exit_success": want_success, "never": "a panic / exit status 101 / a signal"}),
                    observed,
                );
            } else if success != want_success {
                cx.violation(
                    "cli_exit_status",
                    sub,
                    case,
                    json!({"exit_success": want_success, "because": {"compiles": !b.ill_typed, "block_accepts": b.pass}}),
                    observed,
                );
            } else if b.ill_typed && out.stderr.trim().is_empty() {
                cx.violation("cli_no_report", sub, case, json!("the compile error is reported on stderr"), observed);
            } else if got_marks != want_marks {
                cx.violation("cli_effects", sub, case, json!({"exit_success": want_success, "marks": want_marks}), observed);
            } else if is_test && !b.ill_typed {
                // per-test lines, where the text can be read
                let got: Vec<Option<bool>> = tests.iter().map(|(p, _)| status_of(&out.stdout, p)).collect();
                if got.iter().all(|g| g.is_some()) {
                    cx.count("cli_status_lines_checked", 1);
                    let want: Vec<Option<bool>> = tests.iter().map(|(_, a)| Some(*a)).collect();
                    if got != want {
                        cx.violation(
                            "cli_report_text",
                            sub,
                            case,
                            json!({"status_per_test": tests}),
                            observed,
                        );
                    }
                } else {
                    cx.count("cli_status_lines_unreadable", 1);
                }
            }
        }
    }
}
