//! Part B: the `roto` binary built from the tree under test, run as a
//! subprocess on every (sub-command form, file kind) pair.

use std::collections::BTreeMap;
use std::path::{Path, PathBuf};
use std::process::{Command, Stdio};
use std::time::{Duration, Instant};
use vcore::util::{fnv_str, mix};
use vcore::{Cx, SUB_SETUP, Value, json};

pub fn repo_dir() -> PathBuf {
    std::env::var("VERIF_REPO").map(PathBuf::from).unwrap_or_else(|_| PathBuf::from("/repo"))
}

pub fn target_dir() -> PathBuf {
    match std::env::var("VERIF_REPO") {
        Ok(r) => Path::new(&r).parent().unwrap_or(Path::new("/root/scratch")).join("target-cli"),
        Err(_) => PathBuf::from("/verif/target-cli"),
    }
}

pub fn roto_bin() -> PathBuf {
    target_dir().join("debug").join("roto")
}

pub fn work_dir() -> PathBuf {
    vcore::out_root().join("work").join("c19").join("base")
}

/// directory of the second CLI unit (`clidirs.rs`)
pub fn dirs_dir() -> PathBuf {
    vcore::out_root().join("work").join("c19").join("dirs")
}

/// `cargo build --bin roto` of the tree under test (incremental: seconds)
pub fn build_cli() -> Result<(), String> {
    let repo = repo_dir();
    let out = Command::new("cargo")
        .args(["build", "--offline", "-q", "--bin", "roto", "--features", "cli", "--manifest-path"])
        .arg(repo.join("Cargo.toml"))
        .arg("--target-dir")
        .arg(target_dir())
        .env("CARGO_NET_OFFLINE", "true")
        .current_dir(&repo)
        .stdin(Stdio::null())
        .output()
        .map_err(|e| format!("cannot run cargo: {e}"))?;
    if !out.status.success() {
        let err = String::from_utf8_lossy(&out.stderr);
        let tail: Vec<&str> = err.lines().rev().take(30).collect();
        return Err(format!(
            "building the roto binary failed:\n{}",
            tail.into_iter().rev().collect::<Vec<_>>().join("\n")
        ));
    }
    if !roto_bin().exists() {
        return Err(format!("{} was not produced", roto_bin().display()));
    }
    Ok(())
}

// ------------------------------------------------------------------ kinds

/// What a name given to `run` is in a script
#[derive(Clone, Copy, PartialEq, Eq, Debug)]
pub enum Entry {
    /// `fn name()` without parameters and result: prints these marks once each
    Callable,
    /// exists with parameters or a result
    Mistyped,
    Missing,
}

pub struct Kind {
    pub name: &'static str,
    /// path given on the command line, relative to the work directory
    pub arg: &'static str,
    /// files to write: (relative path, contents)
    pub files: Vec<(&'static str, String)>,
    /// the script can be read, parses and type checks
    pub compiles: bool,
    /// (mark printed by the block, accepts)
    pub tests: Vec<(&'static str, bool)>,
    /// functions: name as given to `run` -> (entry kind, marks printed by a call)
    pub fns: BTreeMap<&'static str, (Entry, Vec<&'static str>)>,
}

fn p(mark: &str) -> String {
    format!("print(\"MARK-{mark}\");")
}

fn f_main() -> String {
    format!("fn main() {{\n    {}\n}}\n", p("main"))
}
fn f_other() -> String {
    format!("fn other() {{\n    {}\n}}\n", p("other"))
}
fn f_test(name: &str, accept: bool) -> String {
    format!("test {name} {{\n    {}\n    {}\n}}\n", p(&format!("t:{name}")), if accept { "accept" } else { "reject" })
}

fn fns(list: &[(&'static str, Entry, &[&'static str])]) -> BTreeMap<&'static str, (Entry, Vec<&'static str>)> {
    list.iter().map(|(n, e, m)| (*n, (*e, m.to_vec()))).collect()
}

pub fn kinds() -> Vec<Kind> {
    use Entry::*;
    let main_other = || fns(&[("main", Callable, &["main"]), ("other", Callable, &["other"])]);
    let dir_fns = || {
        fns(&[
            ("main", Callable, &["main", "a.g"]),
            ("other", Callable, &["other"]),
            ("a.f", Callable, &["a.f"]),
        ])
    };
    let dir_pkg = format!(
        "fn main() {{\n    {}\n    a.g();\n}}\n{}{}",
        p("main"),
        f_other(),
        f_test("t0", true)
    );
    let dir_a = |accept: bool| {
        format!(
            "fn f() {{\n    {}\n}}\nfn g() {{\n    {}\n}}\n{}",
            p("a.f"),
            p("a.g"),
            f_test("t1", accept)
        )
    };
    let mut all = vec![
        Kind {
            name: "valid",
            arg: "valid.roto",
            files: vec![("valid.roto", f_main() + &f_other() + &f_test("t0", true))],
            compiles: true,
            tests: vec![("t:t0", true)],
            fns: main_other(),
        },
        Kind {
            name: "parse_error",
            arg: "parse_error.roto",
            files: vec![("parse_error.roto", f_main() + &f_other() + "fn broken( {\n}\n" + &f_test("t0", true))],
            compiles: false,
            tests: vec![("t:t0", true)],
            fns: main_other(),
        },
        Kind {
            name: "type_error",
            arg: "type_error.roto",
            files: vec![(
                "type_error.roto",
                f_main() + &f_other() + "fn broken() -> i32 {\n    \"text\"\n}\n" + &f_test("t0", true),
            )],
            compiles: false,
            tests: vec![("t:t0", true)],
            fns: main_other(),
        },
        Kind {
            name: "type_error_in_test",
            arg: "type_error_in_test.roto",
            files: vec![(
                "type_error_in_test.roto",
                f_main() + &f_other() + "test t0 {\n    let x: i32 = \"text\";\n    accept\n}\n",
            )],
            compiles: false,
            tests: vec![],
            fns: main_other(),
        },
        Kind {
            name: "rejecting_test",
            arg: "rejecting_test.roto",
            files: vec![(
                "rejecting_test.roto",
                f_main() + &f_other() + &f_test("t0", true) + &f_test("t1", false) + &f_test("t2", true),
            )],
            compiles: true,
            tests: vec![("t:t0", true), ("t:t1", false), ("t:t2", true)],
            fns: main_other(),
        },
        Kind {
            name: "only_rejecting_test",
            arg: "only_rejecting_test.roto",
            files: vec![("only_rejecting_test.roto", f_main() + &f_other() + &f_test("t0", false))],
            compiles: true,
            tests: vec![("t:t0", false)],
            fns: main_other(),
        },
        Kind {
            name: "accepting_tests",
            arg: "accepting_tests.roto",
            files: vec![("accepting_tests.roto", f_main() + &f_other() + &f_test("t0", true) + &f_test("t1", true))],
            compiles: true,
            tests: vec![("t:t0", true), ("t:t1", true)],
            fns: main_other(),
        },
        Kind {
            name: "no_tests",
            arg: "no_tests.roto",
            files: vec![("no_tests.roto", f_main() + &f_other())],
            compiles: true,
            tests: vec![],
            fns: main_other(),
        },
        Kind {
            name: "empty",
            arg: "empty.roto",
            files: vec![("empty.roto", String::new())],
            compiles: true,
            tests: vec![],
            fns: fns(&[]),
        },
        Kind {
            name: "missing_main",
            arg: "missing_main.roto",
            files: vec![("missing_main.roto", f_other() + &f_test("t0", true))],
            compiles: true,
            tests: vec![("t:t0", true)],
            fns: fns(&[("other", Callable, &["other"])]),
        },
        Kind {
            name: "main_with_parameters",
            arg: "main_with_parameters.roto",
            files: vec![(
                "main_with_parameters.roto",
                format!("fn main(x: i32) {{\n    {}\n}}\n", p("main")) + &f_other() + &f_test("t0", true),
            )],
            compiles: true,
            tests: vec![("t:t0", true)],
            fns: fns(&[("main", Mistyped, &["main"]), ("other", Callable, &["other"])]),
        },
        Kind {
            name: "main_returning_value",
            arg: "main_returning_value.roto",
            files: vec![(
                "main_returning_value.roto",
                format!("fn main() -> i32 {{\n    {}\n    3\n}}\n", p("main")) + &f_other() + &f_test("t0", true),
            )],
            compiles: true,
            tests: vec![("t:t0", true)],
            fns: fns(&[("main", Mistyped, &["main"]), ("other", Callable, &["other"])]),
        },
        Kind {
            name: "main_is_filtermap",
            arg: "main_is_filtermap.roto",
            files: vec![(
                "main_is_filtermap.roto",
                format!("filtermap main() {{\n    {}\n    accept\n}}\n", p("main")) + &f_other() + &f_test("t0", true),
            )],
            compiles: true,
            tests: vec![("t:t0", true)],
            fns: fns(&[("main", Mistyped, &["main"]), ("other", Callable, &["other"])]),
        },
        Kind {
            name: "test_named_main",
            arg: "test_named_main.roto",
            files: vec![("test_named_main.roto", f_other() + &f_test("main", true))],
            compiles: true,
            tests: vec![("t:main", true)],
            fns: fns(&[("other", Callable, &["other"])]),
        },
        Kind {
            name: "fn_and_test_named_main",
            arg: "fn_and_test_named_main.roto",
            files: vec![("fn_and_test_named_main.roto", f_test("main", false) + &f_main() + &f_other())],
            compiles: true,
            tests: vec![("t:main", false)],
            fns: main_other(),
        },
        Kind {
            name: "directory",
            arg: "directory",
            files: vec![("directory/pkg.roto", dir_pkg.clone()), ("directory/a.roto", dir_a(true))],
            compiles: true,
            tests: vec![("t:t0", true), ("t:t1", true)],
            fns: dir_fns(),
        },
        Kind {
            name: "directory_rejecting_in_submodule",
            arg: "directory_rejecting",
            files: vec![
                ("directory_rejecting/pkg.roto", dir_pkg.clone()),
                ("directory_rejecting/a.roto", dir_a(false)),
            ],
            compiles: true,
            tests: vec![("t:t0", true), ("t:t1", false)],
            fns: dir_fns(),
        },
        Kind {
            name: "directory_type_error_in_submodule",
            arg: "directory_type_error",
            files: vec![
                ("directory_type_error/pkg.roto", dir_pkg.clone()),
                ("directory_type_error/a.roto", dir_a(true) + "fn broken() -> i32 {\n    \"text\"\n}\n"),
            ],
            compiles: false,
            tests: vec![("t:t0", true), ("t:t1", true)],
            fns: dir_fns(),
        },
        Kind {
            name: "directory_without_pkg",
            arg: "directory_without_pkg",
            files: vec![("directory_without_pkg/a.roto", dir_a(true))],
            compiles: false,
            tests: vec![],
            fns: fns(&[]),
        },
        Kind {
            name: "missing_file",
            arg: "does_not_exist.roto",
            files: vec![],
            compiles: false,
            tests: vec![],
            fns: fns(&[]),
        },
    ];
    // many rejecting test blocks: the exit status is a byte, "failure" must not be
    // the COUNT of failures squeezed into it (256 rejecting blocks would read as
    // success: seeded change C19-5)
    let leak = |s: String| -> &'static str { Box::leak(s.into_boxed_str()) };
    for (n_rej, n_acc) in [(2usize, 0usize), (255, 1), (256, 0), (256, 5), (257, 0), (512, 3)] {
        let name = leak(format!("rejecting_{n_rej}_accepting_{n_acc}"));
        let mut text = f_main() + &f_other();
        let mut tests = vec![];
        for i in 0..n_rej + n_acc {
            // accepting blocks are spread between the rejecting ones
            let accept = n_acc > 0 && i % ((n_rej + n_acc) / n_acc) == 0 && tests.iter().filter(|(_, a)| *a).count() < n_acc;
            let tname = format!("t{i:03}");
            text += &f_test(&tname, accept);
            tests.push((leak(format!("t:{tname}")), accept));
        }
        all.push(Kind {
            name,
            arg: leak(format!("{name}.roto")),
            files: vec![(leak(format!("{name}.roto")), text)],
            compiles: true,
            tests,
            fns: main_other(),
        });
    }
    all
}

/// sub-command forms: the arguments before / after the file
pub const FORMS: [(&str, &[&str]); 8] = [
    ("check", &[]),
    ("test", &[]),
    ("run", &[]),
    ("run", &["main"]),
    ("run", &["other"]),
    ("run", &["a.f"]),
    ("run", &["t0"]),
    ("run", &["nosuch"]),
];

pub fn n_cases() -> u64 {
    (FORMS.len() * kinds().len()) as u64
}

pub fn describe(sub: u64) -> Value {
    let ks = kinds();
    if sub == SUB_SETUP || sub >= n_cases() {
        return json!({"kind": "cli_setup"});
    }
    let form = (sub / ks.len() as u64) as usize;
    let k = &ks[(sub % ks.len() as u64) as usize];
    let mut argv = vec![FORMS[form].0.to_string(), k.arg.to_string()];
    argv.extend(FORMS[form].1.iter().map(|s| s.to_string()));
    json!({
        "kind": "cli",
        "subcommand": FORMS[form].0,
        "argv": argv,
        "file_kind": k.name,
        "files": k.files.iter().map(|(p, c)| json!({"path": p, "contents": c})).collect::<Vec<_>>(),
        "cwd": work_dir(),
        "binary": roto_bin(),
    })
}

pub struct Out {
    pub code: Option<i32>,
    pub stdout: String,
    pub stderr: String,
    pub timed_out: bool,
}

/// Where the child's standard output goes
#[derive(Clone, Copy, PartialEq, Eq, Debug)]
pub enum StdoutTo {
    /// a regular file (read back afterwards)
    File,
    /// `/dev/full`: every write fails with ENOSPC
    DevFull,
    /// a pipe whose reading end is already closed: every write fails with EPIPE
    ClosedPipe,
}

pub fn launch(bin: &Path, dir: &Path, argv: &[String], tag: u64) -> Result<Out, String> {
    launch_ext(bin, dir, dir, argv, tag, StdoutTo::File)
}

/// Launch with working directory `cwd`; the capture files live in `scratch`.
pub fn launch_ext(
    bin: &Path,
    cwd: &Path,
    scratch: &Path,
    argv: &[String],
    tag: u64,
    stdout_to: StdoutTo,
) -> Result<Out, String> {
    let so = scratch.join(format!(".stdout-{tag}"));
    let se = scratch.join(format!(".stderr-{tag}"));
    let fo = std::fs::File::create(&so).map_err(|e| e.to_string())?;
    let fe = std::fs::File::create(&se).map_err(|e| e.to_string())?;
    let out: Stdio = match stdout_to {
        StdoutTo::File => fo.into(),
        StdoutTo::DevFull => std::fs::OpenOptions::new()
            .write(true)
            .open("/dev/full")
            .map_err(|e| format!("/dev/full: {e}"))?
            .into(),
        StdoutTo::ClosedPipe => {
            use std::os::fd::{FromRawFd, OwnedFd};
            let mut fds = [0i32; 2];
            if unsafe { libc::pipe2(fds.as_mut_ptr(), libc::O_CLOEXEC) } != 0 {
                return Err("pipe2 failed".into());
            }
            unsafe {
                libc::close(fds[0]);
                OwnedFd::from_raw_fd(fds[1]).into()
            }
        }
    };
    let mut child = Command::new(bin)
        .args(argv)
        .current_dir(cwd)
        .env("NO_COLOR", "1")
        .stdin(Stdio::null())
        .stdout(out)
        .stderr(fe)
        .spawn()
        .map_err(|e| format!("spawn {}: {e}", bin.display()))?;
    let start = Instant::now();
    let mut timed_out = false;
    let status = loop {
        match child.try_wait() {
            Ok(Some(st)) => break Some(st),
            Ok(None) => {
                if start.elapsed() > Duration::from_secs(20) {
                    timed_out = true;
                    let _ = child.kill();
                    break child.wait().ok();
                }
                std::thread::sleep(Duration::from_millis(2));
            }
            Err(e) => return Err(e.to_string()),
        }
    };
    let stdout = std::fs::read_to_string(&so).unwrap_or_default();
    let stderr = std::fs::read_to_string(&se).unwrap_or_default();
    let _ = std::fs::remove_file(&so);
    let _ = std::fs::remove_file(&se);
    Ok(Out { code: status.and_then(|s| s.code()), stdout, stderr, timed_out })
}

pub fn count_mark(stdout: &str, mark: &str) -> usize {
    let line = format!("MARK-{mark}");
    stdout.lines().filter(|l| l.trim_end().ends_with(&line)).count()
}

pub fn run(cx: &mut Cx) {
    let ks = kinds();
    let dir = work_dir();
    let bin = roto_bin();
    if !cx.case(SUB_SETUP) {
        return;
    }
    let setup = (|| -> Result<(), String> {
        let _ = std::fs::remove_dir_all(&dir);
        std::fs::create_dir_all(&dir).map_err(|e| format!("{}: {e}", dir.display()))?;
        for k in &ks {
            for (path, contents) in &k.files {
                let path = dir.join(path);
                if let Some(parent) = path.parent() {
                    std::fs::create_dir_all(parent).map_err(|e| e.to_string())?;
                }
                std::fs::write(&path, contents).map_err(|e| format!("{}: {e}", path.display()))?;
            }
        }
        if !bin.exists() {
            return Err(format!("{} does not exist (preflight builds it)", bin.display()));
        }
        Ok(())
    })();
    if let Err(e) = setup {
        cx.violation("machinery", SUB_SETUP, json!({"kind": "cli_setup"}), json!("work files written"), json!(e));
        return;
    }
    let started = Instant::now();
    for form in 0..FORMS.len() {
        for (ki, k) in ks.iter().enumerate() {
            let sub = (form * ks.len() + ki) as u64;
            if !cx.case(sub) {
                continue;
            }
            let case = describe(sub);
            let argv: Vec<String> =
                case["argv"].as_array().unwrap().iter().map(|s| s.as_str().unwrap().to_string()).collect();
            cx.states(1);
            let out = match launch(&bin, &dir, &argv, sub) {
                Ok(o) => o,
                Err(e) => {
                    cx.violation("machinery", sub, case, json!("the binary can be launched"), json!(e));
                    continue;
                }
            };
            cx.transitions(1);
            cx.validated(1);
            cx.count("cli_launches", 1);
            let (cmd, extra) = FORMS[form];
            // ---- expectation
            let entry_name = extra.first().copied().unwrap_or("main");
            let entry = k.fns.get(entry_name).cloned().unwrap_or((Entry::Missing, vec![]));
            let all_accept = k.tests.iter().all(|t| t.1);
            let want_success = match cmd {
                "check" => k.compiles,
                "test" => k.compiles && all_accept,
                "run" => k.compiles && entry.0 == Entry::Callable,
                _ => unreachable!(),
            };
            // marks that must appear exactly once / must not appear
            let mut want_marks: BTreeMap<String, usize> = BTreeMap::new();
            for (m, _) in &k.tests {
                // a test block runs once under `test`, and never otherwise
                want_marks.insert(m.to_string(), (cmd == "test" && k.compiles) as usize);
            }
            if cmd == "run" && want_success {
                for m in &entry.1 {
                    want_marks.insert(m.to_string(), 1);
                }
            }
            let mut got_marks: BTreeMap<String, usize> = BTreeMap::new();
            for m in want_marks.keys() {
                got_marks.insert(m.clone(), count_mark(&out.stdout, m));
            }
            let all_marks = out.stdout.lines().filter(|l| l.contains("MARK-")).count();
            let success = out.code == Some(0);
            cx.outcome(mix(
                mix(fnv_str(cmd), out.code.unwrap_or(-1) as u64),
                got_marks.values().fold(all_marks as u64, |h, n| mix(h, *n as u64)),
            ));
            if want_success != success || (cmd == "run" && want_success) {
                cx.nontrivial(mix(0xc11, sub));
            }
            if matches!(out.code, None | Some(101)) {
                cx.count("cli_abnormal_exit", 1);
            }
            if sub == 36 {
                cx.sample(json!({"argv": case["argv"], "file_kind": k.name, "exit_code": out.code,
                                  "stdout": tail(&out.stdout)}));
            }
            let observed = json!({
                "exit_code": out.code, "timed_out": out.timed_out, "marks": got_marks,
                "stdout": tail(&out.stdout), "stderr": tail(&out.stderr),
            });
            let crashed = matches!(out.code, None | Some(101)) || out.stderr.contains("panicked at");
            if out.timed_out {
                cx.violation("cli_hang", sub, case, json!("the command ends"), observed);
            } else if crashed && k.compiles {
                // a valid script never makes the front end panic, whatever
                // the expected exit status is
                cx.violation(
                    "cli_crash",
                    sub,
                    case,
                    json!({"exit_success": want_success, "never": "a panic / exit status 101 / a signal"}),
                    observed,
                );
            } else if success != want_success {
                cx.violation(
                    "cli_exit_status",
                    sub,
                    case,
                    json!({"exit_success": want_success, "because": {
                        "compiles": k.compiles, "all_tests_accept": all_accept,
                        "entry": format!("{:?}", entry.0), "entry_name": entry_name}}),
                    observed,
                );
            } else if got_marks != want_marks {
                cx.violation("cli_effects", sub, case, json!({"exit_success": want_success, "marks": want_marks}), observed);
            } else if cmd == "run" && want_success && all_marks != entry.1.len() {
                // nothing but the entry function ran
                cx.violation(
                    "cli_effects",
                    sub,
                    case,
                    json!({"marks_printed": entry.1.len(), "marks": want_marks}),
                    observed,
                );
            }
        }
    }
    cx.count("cli_unit_ms", started.elapsed().as_millis() as u64);
}

pub fn tail(s: &str) -> String {
    let lines: Vec<&str> = s.lines().collect();
    let from = lines.len().saturating_sub(12);
    lines[from..].join("\n").chars().take(1500).collect()
}
