//! Part A: the library API (`Package::run_tests`, `get_tests`, `get_function`).

use crate::capture::Capture;
use crate::pkgs::{self, CallerCase, FnKind, Pkg, SHAPES};
use host::Ev;
use roto::{FileSpec, FileTree, NoCtx, Package, Runtime, SourceFile, Verdict};
use vcore::util::{catch, mix};
use vcore::{Cx, Value, json};

pub fn tree(shape: usize, srcs: &[String]) -> FileTree {
    fn spec(shape: usize, srcs: &[String], m: usize) -> FileSpec {
        let f = SourceFile {
            name: format!("{}.roto", pkgs::abs_path(shape, m)),
            module_name: SHAPES[shape][m].0.into(),
            contents: srcs[m].clone(),
            location_offset: 0,
            children: vec![],
        };
        let ch: Vec<usize> = (1..SHAPES[shape].len()).filter(|c| SHAPES[shape][*c].1 == m).collect();
        if ch.is_empty() {
            FileSpec::File(f)
        } else {
            FileSpec::Directory(f, ch.into_iter().map(|c| spec(shape, srcs, c)).collect())
        }
    }
    FileTree::file_spec(spec(shape, srcs, 0))
}

pub enum Compiled {
    Ok(Package<NoCtx>),
    Report(String),
    Panic(String),
}

pub fn compile(rt: &Runtime<NoCtx>, shape: usize, srcs: &[String]) -> Compiled {
    match catch(|| tree(shape, srcs).compile(rt)) {
        Ok(Ok(p)) => Compiled::Ok(p),
        Ok(Err(report)) => {
            let mut s = String::new();
            match catch(|| report.write(&mut s, false)) {
                Ok(_) => Compiled::Report(s),
                Err(p) => Compiled::Panic(format!("while rendering report: {p}")),
            }
        }
        Err(p) => Compiled::Panic(p),
    }
}

fn marks(log: &[Ev]) -> Vec<Value> {
    log.iter()
        .map(|e| match e {
            Ev::Mark(k) => json!(k),
            other => json!(format!("{other:?}")),
        })
        .collect()
}

fn mark_ints(log: &[Ev]) -> Vec<i64> {
    log.iter()
        .map(|e| match e {
            Ev::Mark(k) => *k as i64,
            _ => -1,
        })
        .collect()
}

/// What the printed report of `run_tests` says, if it can be read at all.
/// `None`: the text does not have the shape `<path>... ok|fail` for every
/// test (its wording is not specified anywhere) — then nothing is demanded.
fn parse_report(text: &str, paths: &[String]) -> Option<(Vec<bool>, Option<(u64, u64, u64)>)> {
    let mut status = vec![];
    for p in paths {
        let needle = format!(" {p}... ");
        let line = text.lines().find(|l| l.contains(&needle))?;
        let rest = &line[line.find(&needle)? + needle.len()..];
        if rest.contains("ok") && !rest.contains("fail") {
            status.push(true);
        } else if rest.contains("fail") && !rest.contains("ok") {
            status.push(false);
        } else {
            return None;
        }
    }
    let summary = text.lines().find(|l| l.starts_with("Ran ")).and_then(|l| {
        let nums: Vec<u64> = l
            .split(|c: char| !c.is_ascii_digit())
            .filter(|s| !s.is_empty())
            .filter_map(|s| s.parse().ok())
            .collect();
        (nums.len() == 3).then(|| (nums[0], nums[1], nums[2]))
    });
    Some((status, summary))
}

struct Viol {
    class: &'static str,
    expected: Value,
    observed: Value,
}

/// One package: two independent compilations, `run_tests` twice on each,
/// every `TestCase` once by hand, `get_function` for every name.
pub fn run_pkg(cx: &mut Cx, sub: u64, pkg: &Pkg, rt: &Runtime<NoCtx>, cap: &mut Capture) {
    if !cx.case(sub) {
        return;
    }
    cx.states(1);
    let k = pkg.tests.len();
    let all_accept = pkg.tests.iter().all(|t| t.accept);
    if pkg.tests.iter().any(|t| t.accept) && !all_accept {
        cx.nontrivial(pkg.source_hash());
    }
    let spread = pkg.tests.iter().any(|t| t.module != pkg.tests[0].module);
    if k >= 3 && spread && !all_accept && pkg.tests[0].accept && !pkg.dup_names && sub % 5 == pkg.flavour as u64 % 5 {
        cx.sample(pkg.to_json());
    }
    cx.count("packages", 1);
    host::clear_log();
    let mut viols: Vec<Viol> = vec![];
    let mut exec: u64 = 0;

    let c1 = compile(rt, pkg.shape, &pkg.srcs);
    let c2 = compile(rt, pkg.shape, &pkg.srcs);
    exec += 2;
    let compile_log = host::take_log();
    if !compile_log.is_empty() {
        viols.push(Viol {
            class: "ran_at_compile_time",
            expected: json!("compiling a package runs no test block and no function"),
            observed: json!({"log": marks(&compile_log)}),
        });
    }
    if pkg.typecheck_alone {
        // the path of `roto check`: parse and type check, nothing else
        let r = catch(|| tree(pkg.shape, &pkg.srcs).parse().and_then(|p| p.typecheck(rt).map(|_| ())).is_ok());
        exec += 1;
        match r {
            Err(p) => viols.push(Viol {
                class: "panic",
                expected: json!("parse + typecheck return"),
                observed: json!({"panic": p}),
            }),
            Ok(ok) if ok == pkg.ill_typed => viols.push(Viol {
                class: "typecheck",
                expected: json!({"typecheck_ok": !pkg.ill_typed}),
                observed: json!({"typecheck_ok": ok}),
            }),
            _ => {}
        }
    }
    let (mut p1, mut p2) = match (c1, c2) {
        (Compiled::Ok(_), Compiled::Ok(_)) if pkg.ill_typed => {
            cx.transitions(exec);
            viols.push(Viol {
                class: "ill_typed_accepted",
                expected: json!("a compile error is reported"),
                observed: json!("compiled"),
            });
            for v in viols {
                cx.violation(v.class, sub, pkg.to_json(), v.expected, v.observed);
            }
            return;
        }
        (Compiled::Ok(a), Compiled::Ok(b)) => {
            if pkg.dup_names {
                cx.count("dup_names_compiled", 1);
            }
            (a, b)
        }
        (Compiled::Panic(p), _) | (_, Compiled::Panic(p)) => {
            cx.transitions(exec);
            let want = if pkg.ill_typed { "a compile error is reported" } else { "compiles" };
            cx.violation("panic", sub, pkg.to_json(), json!(want), json!({"panic": p}));
            for v in viols {
                cx.violation(v.class, sub, pkg.to_json(), v.expected, v.observed);
            }
            return;
        }
        (Compiled::Report(a), Compiled::Report(_)) => {
            cx.transitions(exec);
            cx.validated(1);
            for v in std::mem::take(&mut viols) {
                cx.violation(v.class, sub, pkg.to_json(), v.expected, v.observed);
            }
            if pkg.ill_typed {
                cx.count("ill_typed_rejected", 1);
                cx.outcome(mix(0x111, 0));
            } else if pkg.dup_names {
                // "The name must be unique" (language reference, Tests)
                cx.count("dup_names_rejected", 1);
                cx.outcome(mix(0xd0, 0));
            } else {
                cx.violation("compile", sub, pkg.to_json(), json!("compiles"), json!({"report": a}));
            }
            return;
        }
        (Compiled::Ok(_), Compiled::Report(r)) | (Compiled::Report(r), Compiled::Ok(_)) => {
            cx.transitions(exec);
            cx.violation(
                "compile_nondeterministic",
                sub,
                pkg.to_json(),
                json!("two compilations of the same script agree"),
                json!({"one_ok_other_report": r}),
            );
            return;
        }
    };

    // ---- run_tests twice on each of the two packages
    let paths: Vec<String> =
        pkg.tests.iter().map(|t| format!("{}.{}", pkgs::abs_path(pkg.shape, t.module), t.name)).collect();
    let mut first_order: Option<Vec<i64>> = None;
    let mut obs_hash = 0u64;
    for (pi, p) in [&mut p1, &mut p2].into_iter().enumerate() {
        for run in 0..2 {
            host::clear_log();
            let _ = cap.take();
            let r = catch(|| p.run_tests());
            exec += 1;
            let text = cap.take();
            let log = host::take_log();
            let which = format!("compilation {} run {}", pi + 1, run + 1);
            let r = match r {
                Ok(r) => r,
                Err(panic) => {
                    viols.push(Viol {
                        class: "panic",
                        expected: json!("run_tests returns"),
                        observed: json!({"at": which, "panic": panic}),
                    });
                    continue;
                }
            };
            let ints = mark_ints(&log);
            obs_hash = mix(obs_hash, r.is_ok() as u64);
            for i in &ints {
                obs_hash = mix(obs_hash, *i as u64);
            }
            if r.is_ok() != all_accept {
                viols.push(Viol {
                    class: "verdict",
                    expected: json!({"run_tests_ok": all_accept}),
                    observed: json!({"at": which, "run_tests_ok": r.is_ok(), "log": marks(&log)}),
                });
            }
            let mut sorted = ints.clone();
            sorted.sort();
            let want: Vec<i64> = (0..k as i64).collect();
            if sorted != want {
                viols.push(Viol {
                    class: "log_multiset",
                    expected: json!({"each_mark_once": want}),
                    observed: json!({"at": which, "log": marks(&log)}),
                });
            } else {
                match &first_order {
                    None => first_order = Some(ints.clone()),
                    Some(f) if *f != ints => viols.push(Viol {
                        class: "order",
                        expected: json!({"same_order_as_first_run": f}),
                        observed: json!({"at": which, "log": marks(&log)}),
                    }),
                    _ => {}
                }
            }
            // the printed report (only where it can be read, and only when
            // every test has a distinct path)
            if !pkg.dup_names {
                match parse_report(&text, &paths) {
                    None => cx.count("report_text_unreadable", 1),
                    Some((status, summary)) => {
                        cx.count("report_text_checked", 1);
                        let want_status: Vec<bool> = pkg.tests.iter().map(|t| t.accept).collect();
                        let acc = want_status.iter().filter(|b| **b).count() as u64;
                        let want_summary = (k as u64, acc, k as u64 - acc);
                        if status != want_status || summary.is_some_and(|s| s != want_summary) {
                            viols.push(Viol {
                                class: "report_text",
                                expected: json!({"status_per_test": want_status, "ran_ok_failed": want_summary}),
                                observed: json!({"at": which, "stdout": text}),
                            });
                        }
                    }
                }
            }
        }
    }
    cx.outcome(obs_hash);

    // ---- every TestCase of get_tests, by hand
    let listed = catch(|| p1.get_tests().collect::<Vec<_>>());
    exec += 1;
    match listed {
        Err(panic) => viols.push(Viol {
            class: "panic",
            expected: json!("get_tests returns"),
            observed: json!({"panic": panic}),
        }),
        Ok(cases) => {
            let mut seen = vec![false; k];
            let mut bad = vec![];
            if cases.len() != k {
                bad.push(json!({"listed": cases.len(), "declared": k}));
            }
            for c in &cases {
                host::clear_log();
                let r = c.run(&mut NoCtx);
                exec += 1;
                let log = mark_ints(&host::take_log());
                let name = c.name().to_string();
                if log.len() != 1 || log[0] < 0 || log[0] as usize >= k {
                    bad.push(json!({"test": name, "log": log}));
                    continue;
                }
                let t = &pkg.tests[log[0] as usize];
                if seen[t.idx] {
                    bad.push(json!({"test": name, "block_listed_twice": t.idx}));
                }
                seen[t.idx] = true;
                if r.is_ok() != t.accept {
                    bad.push(json!({"test": name, "mark": t.idx, "ok": r.is_ok(), "block_accepts": t.accept}));
                }
                // the reported name names the block that ran: module path and
                // test name (the form the repository's own `get_tests` test pins)
                let want = format!("{}.{}", pkgs::abs_path(pkg.shape, t.module), t.name);
                if name != want {
                    bad.push(json!({"test": name, "ran_block": want}));
                }
            }
            if !bad.is_empty() {
                viols.push(Viol {
                    class: "get_tests",
                    expected: json!("every block listed once; running it logs its mark once and returns its outcome"),
                    observed: json!(bad),
                });
            }
        }
    }

    // ---- get_function never hands out a test
    let mut names: Vec<(usize, String)> = vec![];
    for t in &pkg.tests {
        if !names.contains(&(t.module, t.name.clone())) {
            names.push((t.module, t.name.clone()));
        }
    }
    for f in &pkg.fns {
        if !names.contains(&(f.module, f.name.clone())) {
            names.push((f.module, f.name.clone()));
        }
    }
    for (m, name) in &names {
        let path = pkgs::item_path(pkg.shape, *m, name);
        let f = pkg.fns.iter().find(|f| f.module == *m && f.name == *name);
        host::clear_log();
        let as_i32 = p1.get_function::<fn() -> i32>(&path).map(|f| f.call());
        let log_i32 = mark_ints(&host::take_log());
        let as_verdict = p1.get_function::<fn() -> Verdict<(), ()>>(&path).map(|f| f.call());
        let log_v = mark_ints(&host::take_log());
        exec += 2;
        let obs = json!({
            "path": path,
            "as_fn_i32": match &as_i32 { Ok(v) => json!({"returned": v, "log": log_i32}), Err(e) => json!({"err": short(&e.to_string())}) },
            "as_fn_verdict": match &as_verdict {
                Ok(v) => json!({"returned": format!("{v:?}"), "log": log_v}),
                Err(e) => json!({"err": short(&e.to_string())}) },
        });
        let ok = match f.map(|f| (f.kind, f.mark as i64)) {
            None | Some((FnKind::None, _)) => as_i32.is_err() && as_verdict.is_err(),
            Some((FnKind::Fn, mark)) => {
                as_verdict.is_err() && as_i32.as_ref().is_ok_and(|v| *v as i64 == mark) && log_i32 == [mark]
            }
            Some((FnKind::Fm, mark)) => {
                as_i32.is_err() && matches!(as_verdict, Ok(Verdict::Accept(()))) && log_v == [mark]
            }
        };
        if !ok {
            viols.push(Viol {
                class: "get_function",
                expected: match f {
                    Some(f) => json!({"returns_the_function_with_mark": f.mark, "kind": format!("{:?}", f.kind)}),
                    None => json!("no function of this name: error for every signature"),
                },
                observed: obs,
            });
        }
    }

    cx.transitions(exec);
    cx.validated(1);
    for v in viols {
        cx.violation(v.class, sub, pkg.to_json(), v.expected, v.observed);
    }
}

fn short(s: &str) -> String {
    s.lines().next().unwrap_or("").chars().take(160).collect()
}

/// A script function that tries to call the test `foo`.
pub fn run_caller(cx: &mut Cx, sub: u64, c: &CallerCase, rt: &Runtime<NoCtx>, cap: &mut Capture) {
    if !cx.case(sub) {
        return;
    }
    cx.states(1);
    cx.count("caller_cases", 1);
    if c.form == 0 && c.test_mod == c.caller_mod && c.shape == 1 && c.accept {
        cx.sample(c.to_json());
    }
    cx.nontrivial(mix(0xca11, sub));
    host::clear_log();
    let mut exec = 1u64;
    let mut p = match compile(rt, c.shape, &c.srcs) {
        Compiled::Ok(p) => p,
        Compiled::Report(_) => {
            // the only demand is that the test is not reachable
            cx.transitions(exec);
            cx.validated(1);
            cx.count(if c.fn_mark.is_some() { "caller_rejected_with_fn" } else { "caller_rejected" }, 1);
            cx.outcome(mix(0xca, 0));
            return;
        }
        Compiled::Panic(pn) => {
            cx.transitions(exec);
            // `test#foo()` and friends are junk input: a compiler panic on it
            // belongs to C06; here it only means "did not compile"
            cx.count("caller_compile_panic", 1);
            cx.note(format!("caller case {sub}: compiler panic {pn}"));
            cx.validated(1);
            return;
        }
    };
    cx.count("caller_compiled", 1);
    cx.count(&format!("caller_compiled:{}", pkgs::CALL_FORMS[c.form]), 1);
    let f = match p.get_function::<fn() -> i32>(&pkgs::item_path(c.shape, c.caller_mod, "caller")) {
        Ok(f) => f,
        Err(e) => {
            cx.transitions(exec);
            cx.violation("caller_missing", sub, c.to_json(), json!("fn caller is retrievable"), json!(short(&e.to_string())));
            return;
        }
    };
    host::clear_log();
    let r = f.call();
    exec += 1;
    let log = mark_ints(&host::take_log());
    let mut want = vec![50i64];
    if let Some(m) = c.fn_mark {
        want.push(m as i64);
    }
    cx.outcome(mix(0xca, log.iter().fold(1, |h, x| mix(h, *x as u64))));
    if log.contains(&0) {
        cx.violation(
            "test_called",
            sub,
            c.to_json(),
            json!("a script function cannot call a test block"),
            json!({"caller_returned": r, "log": log}),
        );
    } else if log != want || r != 7 {
        cx.violation(
            "caller_effects",
            sub,
            c.to_json(),
            json!({"log": want, "returned": 7}),
            json!({"caller_returned": r, "log": log}),
        );
    } else if c.fn_mark.is_some() {
        cx.count("caller_reached_function", 1);
    }
    // the test itself still runs exactly once under run_tests
    host::clear_log();
    let _ = cap.take();
    let res = catch(|| p.run_tests());
    let _ = cap.take();
    exec += 1;
    let log = mark_ints(&host::take_log());
    if log != [0] || !matches!(res, Ok(r) if r.is_ok() == c.accept) {
        cx.violation(
            "verdict",
            sub,
            c.to_json(),
            json!({"log": [0], "run_tests_ok": c.accept}),
            json!({"log": log, "run_tests": format!("{res:?}")}),
        );
    }
    cx.transitions(exec);
    cx.validated(1);
}
