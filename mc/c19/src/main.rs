//! C19 — the test runner and the CLI report outcomes truthfully.
//!
//! Part A (`parta.rs`, `pkgs.rs`): every package with k test blocks (k <= 4,
//! thorough 6) for every placement of the blocks over the modules of four
//! module trees, every one of the 2^k accept/reject vectors and eight
//! naming/style flavours (names sorted differently from source order, the same
//! names in several modules, functions with the name of a test, functions
//! whose names start with `test`, duplicate test names). Each package is
//! compiled twice independently; `run_tests` runs twice on each compilation.
//! A second family has a script function that tries to call a test.
//! Part B (`clipart.rs`): the `roto` binary built from the tree under test,
//! launched on every (sub-command form, file kind) pair.

use vcore::util::{decode, product};
use vcore::{Cfg, Check, Cx, Finding, Meta, SUB_SETUP, Tier, Value, Violation, json};

mod bodies;
mod capture;
mod clibodies;
mod clidirs;
mod clifs;
mod clipart;
mod pkgs;
mod parta;

use pkgs::{FIRST_PATHY_SHAPE, FLAVOURS, SHAPES, WIDE_FLAVOURS};

const CHUNK: u64 = 1296;
/// flavours enumerated with four blocks in the quick tier (all nine up to
/// three blocks; thorough: all nine up to four blocks)
const QUICK_K4_FLAVOURS: [usize; 4] = [1, 3, 5, 6];
/// flavours enumerated with six blocks (thorough)
const K6_FLAVOURS: [usize; 1] = [3];
/// flavours for the module trees with colliding names: same test names in
/// every module (per position / all `foo`), with and without a same-named
/// filtermap, decoys
const PATHY_FLAVOURS_QUICK: [usize; 2] = [3, 5];
const PATHY_FLAVOURS_THOROUGH: [usize; 5] = [2, 3, 4, 5, 7];
const PATHY_FLAVOUR_WIDE: usize = 3;

#[derive(Clone, Debug)]
enum Unit {
    Cli,
    CliDirs,
    /// file-system family: module entries / path spellings / stdout targets
    CliFs { family: usize },
    /// `check` / `test` on richer test bodies, one unit per position
    CliBodies { position: usize },
    Callers,
    /// richer test bodies in every position: one unit per placement
    Bodies { placement: usize },
    Pkgs { shape: usize, k: usize, flavour: usize, from: u64, to: u64 },
}

fn radices(shape: usize, k: usize) -> Vec<u64> {
    let mut r = vec![SHAPES[shape].len() as u64; k];
    r.push(1 << k);
    r
}

/// Which (module tree, k, flavour) triples a tier enumerates (each of them
/// with all placements and all outcome vectors).
fn enumerated(tier: Tier, shape: usize, k: usize, flavour: usize) -> bool {
    if shape >= FIRST_PATHY_SHAPE {
        // trees with colliding module names: the flavours in which the tests
        // of different modules have the same names
        return match (tier, k) {
            (Tier::Quick, 0..=3) => PATHY_FLAVOURS_QUICK.contains(&flavour),
            // four blocks: only the trees with sub-modules called `pkg`
            (Tier::Quick, _) => flavour == PATHY_FLAVOUR_WIDE && shape <= FIRST_PATHY_SHAPE + 1,
            (Tier::Thorough, 0..=4) => PATHY_FLAVOURS_THOROUGH.contains(&flavour),
            // five and six blocks: only the trees with sub-modules called `pkg`
            (Tier::Thorough, _) => flavour == PATHY_FLAVOUR_WIDE && shape <= FIRST_PATHY_SHAPE + 1,
        };
    }
    match k {
        0..=3 => true,
        4 => tier == Tier::Thorough || QUICK_K4_FLAVOURS.contains(&flavour),
        5 => WIDE_FLAVOURS.contains(&flavour),
        _ => K6_FLAVOURS.contains(&flavour),
    }
}

fn unit_table(tier: Tier) -> Vec<Unit> {
    // the process launches take longest and run in one worker: start them first
    let mut v = vec![Unit::Cli, Unit::CliDirs, Unit::Callers];
    for family in 0..clifs::FAMILIES.len() {
        v.push(Unit::CliFs { family });
    }
    for position in 0..clibodies::N_UNITS {
        v.push(Unit::CliBodies { position });
    }
    for placement in 0..bodies::PLACEMENTS.len() {
        v.push(Unit::Bodies { placement });
    }
    let kmax = tier.pick(4, 6);
    let mut seen_k0 = std::collections::HashSet::new();
    for k in 0..=kmax {
        for shape in 0..SHAPES.len() {
            for flavour in 0..FLAVOURS.len() {
                if !enumerated(tier, shape, k, flavour) {
                    continue;
                }
                if k == 0 {
                    // without tests several flavours give the same script
                    let p = pkgs::build(shape, flavour, &[], 0);
                    if !seen_k0.insert(p.source_hash()) {
                        continue;
                    }
                }
                let n = product(&radices(shape, k));
                let mut from = 0;
                while from < n {
                    let to = (from + CHUNK).min(n);
                    v.push(Unit::Pkgs { shape, k, flavour, from, to });
                    from = to;
                }
            }
        }
    }
    v
}

fn pkg_of(shape: usize, k: usize, flavour: usize, sub: u64) -> pkgs::Pkg {
    let d = decode(sub, &radices(shape, k));
    pkgs::build(shape, flavour, &d[..k], d[k])
}

/// wall time of the `cargo build --bin roto` in preflight (parent process)
static BUILD_MS: std::sync::atomic::AtomicU64 = std::sync::atomic::AtomicU64::new(0);

struct C19;

impl Check for C19 {
    fn id(&self) -> &'static str {
        "C19"
    }
    fn units(&self, cfg: &Cfg) -> usize {
        unit_table(cfg.tier).len()
    }
    fn run_unit(&self, unit: usize, cx: &mut Cx) {
        match unit_table(cx.cfg.tier)[unit].clone() {
            Unit::Cli => clipart::run(cx),
            Unit::CliDirs => clidirs::run(cx),
            Unit::CliFs { family } => clifs::run(family, cx),
            Unit::CliBodies { position } => clibodies::run(position, cx),
            Unit::Callers => {
                if !cx.case(SUB_SETUP) {
                    return;
                }
                let rt = host::runtime();
                let Ok(mut cap) = capture::Capture::start() else {
                    cx.violation("machinery", SUB_SETUP, json!({}), json!("stdout capture"), json!("failed"));
                    return;
                };
                for sub in 0..product(&pkgs::caller_radices()) {
                    let c = pkgs::build_caller(sub);
                    parta::run_caller(cx, sub, &c, &rt, &mut cap);
                }
            }
            Unit::Bodies { placement } => {
                if !cx.case(SUB_SETUP) {
                    return;
                }
                let rt = host::runtime();
                let Ok(mut cap) = capture::Capture::start() else {
                    cx.violation("machinery", SUB_SETUP, json!({}), json!("stdout capture"), json!("failed"));
                    return;
                };
                for sub in 0..(bodies::N_BODIES * bodies::N_POSITIONS) as u64 {
                    let p = pkgs::build_body_pkg(placement, sub);
                    cx.count("body_packages", 1);
                    parta::run_pkg(cx, sub, &p, &rt, &mut cap);
                }
            }
            Unit::Pkgs { shape, k, flavour, from, to } => {
                if !cx.case(SUB_SETUP) {
                    return;
                }
                let rt = host::runtime();
                let Ok(mut cap) = capture::Capture::start() else {
                    cx.violation("machinery", SUB_SETUP, json!({}), json!("stdout capture"), json!("failed"));
                    return;
                };
                for sub in from..to {
                    let p = pkg_of(shape, k, flavour, sub);
                    parta::run_pkg(cx, sub, &p, &rt, &mut cap);
                }
            }
        }
    }
    fn describe(&self, cfg: &Cfg, unit: usize, sub: u64) -> Value {
        match unit_table(cfg.tier)[unit].clone() {
            Unit::Cli => clipart::describe(sub),
            Unit::CliDirs => clidirs::describe(sub),
            Unit::CliFs { family } => clifs::describe(family, sub),
            Unit::CliBodies { position } => clibodies::describe(position, sub),
            Unit::Callers => {
                if sub == SUB_SETUP {
                    json!({"kind": "caller_setup"})
                } else {
                    pkgs::build_caller(sub).to_json()
                }
            }
            Unit::Bodies { placement } => {
                if sub == SUB_SETUP {
                    json!({"kind": "bodies_setup", "placement": placement})
                } else {
                    pkgs::build_body_pkg(placement, sub).to_json()
                }
            }
            Unit::Pkgs { shape, k, flavour, .. } => {
                if sub == SUB_SETUP {
                    json!({"kind": "pkg_setup", "shape": shape, "k": k, "flavour": flavour})
                } else {
                    pkg_of(shape, k, flavour, sub).to_json()
                }
            }
        }
    }
    fn matches(&self, f: &Finding, v: &Violation) -> bool {
        let c = &v.case;
        let s = |x: &Value| x.as_str().unwrap_or("").to_string();
        let stderr = s(&v.observed["stderr"]);
        match f.matcher.as_str() {
            // FileTree::find_files does not follow a symbolic link to a
            // module directory: the module is left out without a diagnostic
            "symlinked_module_dir_dropped" => {
                v.class == "cli_module_skipped"
                    && c["kind"] == "cli_fs_entry"
                    && ["symlink_to_directory", "symlinked_directory_in_module_directory"]
                        .contains(&s(&c["entry"]).as_str())
            }
            // SourceFile::read_internal wants a named parent directory for a
            // file called mod.roto
            "bare_mod_roto_invalid_path" => {
                v.class == "cli_exit_status"
                    && c["kind"] == "cli_fs_path"
                    && c["file_name"] == "mod.roto"
                    && ["bare", "dot_slash"].contains(&s(&c["spelling"]).as_str())
                    && stderr.contains("invalid path")
            }
            // println! panics when stdout cannot be written
            "stdout_write_error_panics" => {
                v.class == "cli_crash"
                    && c["kind"] == "cli_fs_stdout"
                    && ["dev_full", "closed_pipe"].contains(&s(&c["stdout_target"]).as_str())
                    && ["check", "test"].contains(&s(&c["subcommand"]).as_str())
                    && s(&v.observed["stderr_head"]).contains("failed printing to stdout")
            }
            _ => false,
        }
    }
    fn meta(&self, cfg: &Cfg) -> Meta {
        let kmax = cfg.tier.pick(4, 6);
        Meta {
            rule: format!(
                "Part A: every package = (module tree of 1-3 modules, k <= {kmax} test blocks, module of every block, accept/reject of every block, flavour); all M^k placements x 2^k outcome vectors x {} flavours (trees 0-3: k = 5 flavours {:?}, k = 6 flavours {K6_FLAVOURS:?}; quick tier, k = 4: flavours {:?}; trees 4-9, whose module names collide with the path machinery (pkg.pkg, pkg.pkg.pkg, test, super_, std, dep, a/ab, a_b/b): quick flavours {PATHY_FLAVOURS_QUICK:?} for k <= 3 and, trees 4-5 only, flavour {PATHY_FLAVOUR_WIDE} for k = 4, thorough flavours {PATHY_FLAVOURS_THOROUGH:?} for k <= 4, and, trees 4-5 only, flavour {PATHY_FLAVOUR_WIDE} for k = 5 and k = 6); compiled twice, run_tests twice per compilation, every TestCase of get_tests run once, get_function with two signatures for every test/function name. Callers: every (place, call form, kind of same-named function, outcome). Part B: every (sub-command form, file kind) pair, one process launch each; second unit: three directory packages with colliding sub-module names (pkg/mod.roto and pkg/pkg/mod.roto; test, super_, std, dep; a, ab, a_b, a_b.b), a `test foo` in every module, every accept/reject vector over the modules under `roto test <dir>` (check and run on the all-reject and all-accept vectors). Body family (bodies.rs): (12 well-typed test bodies x pass/fail + 6 ill-typed bodies) x (nothing | fn before the block) x (nothing | fn | filtermap | const | test after it) x 5 placements (only module; root or sub-module of a two-module tree, other module empty or not), Part A with an extra parse+typecheck-only run, Part B `check` and `test` on each body in each of the 10 single-file positions and as last item of the root / sub-module of a directory package. File-system family (clifs.rs): 10 ways a module exists on disk (regular / symbolic link to file / to directory / dangling, at two depths, linked mod.roto, linked root) x module holds (accepting test, rejecting test, type error) x (test, check); path spelling (bare, ./, ../dir/, absolute) x (x.roto, mod.roto, pkg.roto, directory) x (check, test, run); stdout (file, /dev/full, closed pipe) x (check, test, run). Non-trivial: a package with at least one accepting and one rejecting block; every caller case; a launch that must fail or that must run an entry function",
                FLAVOURS.len(),
                WIDE_FLAVOURS,
                QUICK_K4_FLAVOURS
            ),
            assumptions: vec![
                "a script that cannot be read or does not compile must make every sub-command fail (the statement names only `check`)".into(),
                "a module reached through a symbolic link must be loaded or refused with a report; a dangling link may be ignored or reported".into(),
                "the order of test execution may be any order, as long as it is the same in every run and every compilation".into(),
                "two tests of one module with the same name: either a compile error (\"the name must be unique\") or full correct behaviour".into(),
                "the wording of run_tests' printed report is not specified: its per-test status and totals are compared only where the text has the shape `<path>... ok|fail`".into(),
                "run_tests on Package<NoCtx> only (the CLI's runtime has no context either)".into(),
                "`roto` binary: dev profile of the repository, runtime = Runtime::new() + add_io_functions (print)".into(),
            ],
            bounds: json!({
                "max_tests": kmax,
                "module_trees": SHAPES.iter().map(|s| s.iter().map(|(n, p)| format!("{n}<{p}")).collect::<Vec<_>>()).collect::<Vec<_>>(),
                "flavours": FLAVOURS.iter().map(|f| format!("{f:?}")).collect::<Vec<_>>(),
                "caller_cases": product(&pkgs::caller_radices()),
                "bodies": (0..bodies::N_BODIES).map(|b| bodies::body(b).name).collect::<Vec<_>>(),
                "body_positions": (0..bodies::N_POSITIONS).map(bodies::position_name).collect::<Vec<_>>(),
                "body_placements_part_a": bodies::PLACEMENTS.len(),
                "cli_fs_entries": clifs::ENTRIES,
                "cli_fs_module_contents": clifs::CONTENTS,
                "cli_fs_path_spellings": clifs::SPELLINGS,
                "cli_fs_path_names": clifs::PATH_NAMES,
                "cli_fs_stdout_targets": ["file", "dev_full", "closed_pipe"],
                "cli_body_units": (0..clibodies::N_UNITS).map(clibodies::unit_name).collect::<Vec<_>>(),
                "cli_forms": clipart::FORMS.iter().map(|(c, a)| format!("{c} <file> {}", a.join(" "))).collect::<Vec<_>>(),
                "cli_file_kinds": clipart::kinds().iter().map(|k| k.name).collect::<Vec<_>>(),
                "cli_dir_trees": clidirs::TREES.iter().map(|(n, m)| json!({"name": n, "modules": m.iter().map(|x| x.0).collect::<Vec<_>>()})).collect::<Vec<_>>(),
            }),
            states_are: "distinct packages (scripts) / caller scripts / (sub-command form, file kind) pairs".into(),
            transitions_are: "compilations, run_tests calls, TestCase::run calls, get_function probes and process launches on the real code".into(),
        }
    }
    fn case_timeout_s(&self, cfg: &Cfg) -> f64 {
        cfg.tier.pick(30.0, 60.0)
    }
    fn preflight(&self, _cfg: &Cfg) -> Result<(), String> {
        let t = std::time::Instant::now();
        let r = clipart::build_cli();
        BUILD_MS.store(t.elapsed().as_millis() as u64, std::sync::atomic::Ordering::Relaxed);
        r
    }
    fn finish(&self, _cfg: &Cfg, agg: &mut vcore::Aggregate) {
        agg.counters.insert(
            "cli_cargo_build_ms".into(),
            BUILD_MS.load(std::sync::atomic::Ordering::Relaxed),
        );
        // generator sanity: the caller family must contain cases in which the
        // call compiles and reaches the same-named function, otherwise
        // "the test was not called" would be vacuous
        if agg.counter("caller_reached_function") == 0 {
            agg.machinery_errors.push("no caller case reached the same-named function".into());
        }
        if agg.counter("caller_rejected") == 0 {
            agg.machinery_errors.push("no caller case without a function was rejected".into());
        }
    }
}

fn main() {
    // a replay of a CLI case needs the binary of the current tree as well
    let args: Vec<String> = std::env::args().collect();
    if args.iter().any(|a| a == "--replay") && !args.iter().any(|a| a == "--worker") {
        if let Err(e) = clipart::build_cli() {
            eprintln!("MACHINERY-ERROR property=C19 {e}");
            std::process::exit(2);
        }
    }
    vcore::main(&C19)
}
