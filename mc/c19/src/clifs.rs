//! Part B, file-system family (three units):
//!
//! * `entries`: how a module of a directory package exists on disk — regular
//!   file / directory, symbolic link to a file, to a directory, dangling link,
//!   a linked `mod.roto`, a linked file inside a module directory, a linked
//!   directory one level down, a linked root — holding an accepting test, a
//!   rejecting test or a type error; `roto test` and `roto check`.
//!   Oracle: a module reachable through the tree is loaded (its test runs, its
//!   type error is found) or the command fails with a report; it is never
//!   silently left out.
//! * `paths`: spelling of the path argument {bare name, ./name, ../dir/name,
//!   absolute} x file name {x.roto, mod.roto, pkg.roto} (and the four spellings
//!   of a directory package), working directory set accordingly, x
//!   {check, test, run} on a valid script: every one succeeds.
//! * `stdout`: standard output is a file, `/dev/full` or a pipe nobody reads,
//!   x {check, test, run} on a valid all-accepting script: exit status 0, never
//!   a panic.

use crate::clipart::{StdoutTo, count_mark, launch_ext, roto_bin, tail};
use std::collections::BTreeMap;
use std::path::{Path, PathBuf};
use vcore::util::{fnv_str, mix};
use vcore::{Cx, SUB_SETUP, Value, json};

pub const FAMILIES: [&str; 3] = ["entries", "paths", "stdout"];

fn base(family: usize) -> PathBuf {
    vcore::out_root().join("work").join("c19").join(format!("fs-{}", FAMILIES[family]))
}

#[derive(Clone, Debug)]
enum Node {
    File(String),
    /// symbolic link with this (relative) target
    Link(String),
}

fn write_nodes(root: &Path, nodes: &[(String, Node)]) -> Result<(), String> {
    for (p, n) in nodes {
        let path = root.join(p);
        if let Some(parent) = path.parent() {
            std::fs::create_dir_all(parent).map_err(|e| format!("{}: {e}", parent.display()))?;
        }
        match n {
            Node::File(c) => std::fs::write(&path, c).map_err(|e| format!("{}: {e}", path.display()))?,
            Node::Link(t) => std::os::unix::fs::symlink(t, &path).map_err(|e| format!("{}: {e}", path.display()))?,
        }
    }
    Ok(())
}

fn nodes_json(nodes: &[(String, Node)]) -> Value {
    nodes
        .iter()
        .map(|(p, n)| match n {
            Node::File(c) => json!({"path": p, "contents": c}),
            Node::Link(t) => json!({"path": p, "symlink_to": t}),
        })
        .collect()
}

fn crashed(code: Option<i32>, stderr: &str) -> bool {
    matches!(code, None | Some(101)) || stderr.contains("panicked at")
}

// ------------------------------------------------------------------ entries

pub const ENTRIES: [&str; 10] = [
    "regular_file",
    "symlink_to_file",
    "regular_directory",
    "symlink_to_directory",
    "directory_with_symlinked_mod_file",
    "symlinked_file_in_module_directory",
    "symlinked_directory_in_module_directory",
    "symlinked_root",
    "dangling_symlink_file",
    "dangling_symlink_directory",
];
pub const CONTENTS: [&str; 3] = ["accepting_test", "rejecting_test", "type_error"];
const ENTRY_CMDS: [&str; 2] = ["test", "check"];

fn entry_is_symlink(e: usize) -> bool {
    !matches!(ENTRIES[e], "regular_file" | "regular_directory")
}
fn entry_is_dangling(e: usize) -> bool {
    ENTRIES[e].starts_with("dangling")
}

struct EntryCase {
    entry: usize,
    content: usize,
    cmd: usize,
    /// directory of the case below the family directory
    dir: String,
    /// argument given to roto
    arg: &'static str,
    nodes: Vec<(String, Node)>,
    /// marks of the tests that always accept: (mark, module)
    fixed_tests: Vec<String>,
    /// module holding the varying content, and the mark of its test
    module: String,
}

fn entry_radices() -> [u64; 3] {
    [ENTRY_CMDS.len() as u64, ENTRIES.len() as u64, CONTENTS.len() as u64]
}

fn content_src(module: &str, content: usize) -> String {
    match CONTENTS[content] {
        "accepting_test" => format!("test s {{\n    print(\"MARK-t:{module}.s\");\n    accept\n}}\n"),
        "rejecting_test" => format!("test s {{\n    print(\"MARK-t:{module}.s\");\n    reject\n}}\n"),
        _ => format!("test s {{\n    print(\"MARK-t:{module}.s\");\n    let x: i32 = \"text\";\n    accept\n}}\n"),
    }
}

fn fixed_src(module: &str, name: &str) -> String {
    format!("test {name} {{\n    print(\"MARK-t:{module}.{name}\");\n    accept\n}}\n")
}

fn entry_case(sub: u64) -> EntryCase {
    let d = vcore::util::decode(sub, &entry_radices());
    let (cmd, entry, content) = (d[0] as usize, d[1] as usize, d[2] as usize);
    let f = |p: &str, c: String| (p.to_string(), Node::File(c));
    let l = |p: &str, t: &str| (p.to_string(), Node::Link(t.to_string()));
    let mut nodes = vec![f("tree/pkg.roto", fixed_src("pkg", "r"))];
    let mut fixed = vec!["t:pkg.r".to_string()];
    let mut module = "pkg.m".to_string();
    let mut arg = "tree";
    match ENTRIES[entry] {
        "regular_file" => nodes.push(f("tree/m.roto", content_src("pkg.m", content))),
        "symlink_to_file" => {
            nodes.push(f("shared/x.roto", content_src("pkg.m", content)));
            nodes.push(l("tree/m.roto", "../shared/x.roto"));
        }
        "regular_directory" => {
            nodes.push(f("tree/m/mod.roto", content_src("pkg.m", content)));
            nodes.push(f("tree/m/n.roto", fixed_src("pkg.m.n", "u")));
            fixed.push("t:pkg.m.n.u".into());
        }
        "symlink_to_directory" => {
            nodes.push(f("shared/m/mod.roto", content_src("pkg.m", content)));
            nodes.push(f("shared/m/n.roto", fixed_src("pkg.m.n", "u")));
            nodes.push(l("tree/m", "../shared/m"));
            fixed.push("t:pkg.m.n.u".into());
        }
        "directory_with_symlinked_mod_file" => {
            nodes.push(f("shared/x.roto", content_src("pkg.m", content)));
            nodes.push(l("tree/m/mod.roto", "../../shared/x.roto"));
            nodes.push(f("tree/m/n.roto", fixed_src("pkg.m.n", "u")));
            fixed.push("t:pkg.m.n.u".into());
        }
        "symlinked_file_in_module_directory" => {
            module = "pkg.m.n".into();
            nodes.push(f("tree/m/mod.roto", fixed_src("pkg.m", "v")));
            nodes.push(f("shared/x.roto", content_src("pkg.m.n", content)));
            nodes.push(l("tree/m/n.roto", "../../shared/x.roto"));
            fixed.push("t:pkg.m.v".into());
        }
        "symlinked_directory_in_module_directory" => {
            module = "pkg.m.k".into();
            nodes.push(f("tree/m/mod.roto", fixed_src("pkg.m", "v")));
            nodes.push(f("shared/k/mod.roto", content_src("pkg.m.k", content)));
            nodes.push(l("tree/m/k", "../../shared/k"));
            fixed.push("t:pkg.m.v".into());
        }
        "symlinked_root" => {
            nodes.push(f("tree/m/mod.roto", content_src("pkg.m", content)));
            nodes.push(l("link", "tree"));
            arg = "link";
        }
        "dangling_symlink_file" => nodes.push(l("tree/m.roto", "../shared/does_not_exist.roto")),
        "dangling_symlink_directory" => nodes.push(l("tree/m", "../shared/does_not_exist")),
        _ => unreachable!(),
    }
    EntryCase {
        entry,
        content,
        cmd,
        dir: format!("{}-{}", ENTRIES[entry], CONTENTS[content]),
        arg,
        nodes,
        fixed_tests: fixed,
        module,
    }
}

fn entry_describe(sub: u64) -> Value {
    let c = entry_case(sub);
    json!({
        "kind": "cli_fs_entry",
        "subcommand": ENTRY_CMDS[c.cmd],
        "argv": [ENTRY_CMDS[c.cmd], c.arg],
        "entry": ENTRIES[c.entry],
        "entry_is_symlink": entry_is_symlink(c.entry),
        "module": c.module,
        "module_holds": CONTENTS[c.content],
        "files": nodes_json(&c.nodes),
        "cwd": base(0).join(&c.dir),
        "binary": roto_bin(),
    })
}

fn run_entries(cx: &mut Cx) {
    let root = base(0);
    let bin = roto_bin();
    let n = vcore::util::product(&entry_radices());
    let setup = (|| -> Result<(), String> {
        let _ = std::fs::remove_dir_all(&root);
        std::fs::create_dir_all(&root).map_err(|e| e.to_string())?;
        for sub in 0..n / ENTRY_CMDS.len() as u64 {
            let c = entry_case(sub);
            write_nodes(&root.join(&c.dir), &c.nodes)?;
        }
        Ok(())
    })();
    if let Err(e) = setup {
        cx.violation("machinery", SUB_SETUP, json!({"kind": "cli_fs_setup"}), json!("work files written"), json!(e));
        return;
    }
    for sub in 0..n {
        let c = entry_case(sub);
        // a dangling link holds nothing: one content is enough
        if entry_is_dangling(c.entry) && c.content != 0 {
            continue;
        }
        if !cx.case(sub) {
            continue;
        }
        let case = entry_describe(sub);
        cx.states(1);
        let cwd = root.join(&c.dir);
        let argv = [ENTRY_CMDS[c.cmd].to_string(), c.arg.to_string()];
        let out = match launch_ext(&bin, &cwd, &root, &argv, sub, StdoutTo::File) {
            Ok(o) => o,
            Err(e) => {
                cx.violation("machinery", sub, case, json!("the binary can be launched"), json!(e));
                continue;
            }
        };
        cx.transitions(1);
        cx.validated(1);
        cx.count("cli_launches", 1);
        cx.count("cli_fs_launches", 1);
        let is_test = ENTRY_CMDS[c.cmd] == "test";
        let dangling = entry_is_dangling(c.entry);
        let content = if dangling { "nothing" } else { CONTENTS[c.content] };
        let module_mark = format!("t:{}.s", c.module);
        let mut marks: BTreeMap<String, usize> =
            c.fixed_tests.iter().map(|m| (m.clone(), count_mark(&out.stdout, m))).collect();
        marks.insert(module_mark.clone(), count_mark(&out.stdout, &module_mark));
        let success = out.code == Some(0);
        let reported = !success && !out.stderr.trim().is_empty();
        // the reference: the module is part of the package
        let loaded_success = match content {
            "type_error" => false,
            "rejecting_test" => !is_test,
            _ => true,
        };
        let mut loaded_marks: BTreeMap<String, usize> = BTreeMap::new();
        for m in &c.fixed_tests {
            loaded_marks.insert(m.clone(), (is_test && content != "type_error") as usize);
        }
        loaded_marks
            .insert(module_mark.clone(), (is_test && !dangling && content != "type_error") as usize);
        let as_loaded = success == loaded_success && marks == loaded_marks;
        cx.outcome(mix(
            mix(fnv_str(ENTRY_CMDS[c.cmd]), out.code.unwrap_or(-1) as u64),
            marks.values().fold(13, |h, n| mix(h, *n as u64)),
        ));
        cx.nontrivial(mix(0xf5e, sub));
        if ENTRIES[c.entry] == "symlink_to_file" && content == "rejecting_test" && is_test {
            cx.sample(json!({"argv": case["argv"], "files": case["files"], "exit_code": out.code,
                              "stdout": tail(&out.stdout)}));
        }
        let observed = json!({
            "exit_code": out.code, "timed_out": out.timed_out, "marks": marks,
            "stdout": tail(&out.stdout), "stderr": tail(&out.stderr),
        });
        let expected = json!({
            "module_loaded": {"exit_success": loaded_success, "marks": loaded_marks},
            "or": if entry_is_symlink(c.entry) { "the command fails and reports why" } else { "(nothing else)" },
        });
        if out.timed_out {
            cx.violation("cli_hang", sub, case, json!("the command ends"), observed);
        } else if crashed(out.code, &out.stderr) {
            cx.violation("cli_crash", sub, case, expected, observed);
        } else if as_loaded {
            cx.count("fs_entry_loaded", 1);
        } else if entry_is_symlink(c.entry) && reported && marks.values().all(|n| *n <= 1) {
            // refused with a diagnostic: allowed for anything reached through a link
            cx.count("fs_entry_reported", 1);
        } else if success && marks[&module_mark] == 0 && !dangling {
            // the command succeeded and the module was not part of the package
            cx.violation("cli_module_skipped", sub, case, expected, observed);
        } else {
            cx.violation("cli_exit_status", sub, case, expected, observed);
        }
    }
}

// ------------------------------------------------------------------ paths

pub const SPELLINGS: [&str; 4] = ["bare", "dot_slash", "dot_dot", "absolute"];
/// file names, and the directory package as fourth "name"
pub const PATH_NAMES: [&str; 4] = ["x.roto", "mod.roto", "pkg.roto", "<directory>"];
const PATH_CMDS: [&str; 3] = ["check", "test", "run"];

fn path_radices() -> [u64; 3] {
    [PATH_CMDS.len() as u64, PATH_NAMES.len() as u64, SPELLINGS.len() as u64]
}

const PATH_SRC: &str =
    "fn main() {\n    print(\"MARK-main\");\n}\ntest t {\n    print(\"MARK-t:pkg.t\");\n    accept\n}\n";

/// (cwd below the family directory, path argument)
fn path_case(sub: u64) -> (usize, usize, usize, String, String) {
    let d = vcore::util::decode(sub, &path_radices());
    let (cmd, name, sp) = (d[0] as usize, d[1] as usize, d[2] as usize);
    let abs = base(1);
    let (cwd, arg) = if PATH_NAMES[name] == "<directory>" {
        // the package is the directory `dp` (dp/pkg.roto)
        match SPELLINGS[sp] {
            "bare" => ("dp".to_string(), ".".to_string()),
            "dot_slash" => ("dp".to_string(), "./".to_string()),
            "dot_dot" => ("dp".to_string(), "../dp".to_string()),
            _ => ("dp".to_string(), abs.join("dp").to_string_lossy().into_owned()),
        }
    } else {
        let dir = format!("d{name}");
        let file = PATH_NAMES[name];
        match SPELLINGS[sp] {
            "bare" => (dir, file.to_string()),
            "dot_slash" => (dir, format!("./{file}")),
            "dot_dot" => (dir.clone(), format!("../{dir}/{file}")),
            _ => (dir.clone(), abs.join(&dir).join(file).to_string_lossy().into_owned()),
        }
    };
    (cmd, name, sp, cwd, arg)
}

fn path_nodes() -> Vec<(String, Node)> {
    let mut v = vec![("dp/pkg.roto".to_string(), Node::File(PATH_SRC.into()))];
    for (i, n) in PATH_NAMES.iter().enumerate().take(3) {
        v.push((format!("d{i}/{n}"), Node::File(PATH_SRC.into())));
    }
    v
}

fn path_describe(sub: u64) -> Value {
    let (cmd, name, sp, cwd, arg) = path_case(sub);
    json!({
        "kind": "cli_fs_path",
        "subcommand": PATH_CMDS[cmd],
        "argv": [PATH_CMDS[cmd], arg],
        "file_name": PATH_NAMES[name],
        "spelling": SPELLINGS[sp],
        "cwd": base(1).join(cwd),
        "files": nodes_json(&path_nodes()),
        "binary": roto_bin(),
    })
}

fn run_paths(cx: &mut Cx) {
    let root = base(1);
    let bin = roto_bin();
    let setup = (|| -> Result<(), String> {
        let _ = std::fs::remove_dir_all(&root);
        std::fs::create_dir_all(&root).map_err(|e| e.to_string())?;
        write_nodes(&root, &path_nodes())
    })();
    if let Err(e) = setup {
        cx.violation("machinery", SUB_SETUP, json!({"kind": "cli_fs_setup"}), json!("work files written"), json!(e));
        return;
    }
    for sub in 0..vcore::util::product(&path_radices()) {
        if !cx.case(sub) {
            continue;
        }
        let (cmd, _, _, cwd, arg) = path_case(sub);
        let case = path_describe(sub);
        cx.states(1);
        let argv = [PATH_CMDS[cmd].to_string(), arg];
        let out = match launch_ext(&bin, &root.join(cwd), &root, &argv, sub, StdoutTo::File) {
            Ok(o) => o,
            Err(e) => {
                cx.violation("machinery", sub, case, json!("the binary can be launched"), json!(e));
                continue;
            }
        };
        cx.transitions(1);
        cx.validated(1);
        cx.count("cli_launches", 1);
        cx.count("cli_fs_launches", 1);
        let want_marks: BTreeMap<String, usize> = [
            ("main".to_string(), (PATH_CMDS[cmd] == "run") as usize),
            ("t:pkg.t".to_string(), (PATH_CMDS[cmd] == "test") as usize),
        ]
        .into();
        let marks: BTreeMap<String, usize> =
            want_marks.keys().map(|m| (m.clone(), count_mark(&out.stdout, m))).collect();
        cx.outcome(mix(
            mix(fnv_str(PATH_CMDS[cmd]), out.code.unwrap_or(-1) as u64),
            marks.values().fold(17, |h, n| mix(h, *n as u64)),
        ));
        cx.nontrivial(mix(0xf5f, sub));
        let observed = json!({
            "exit_code": out.code, "timed_out": out.timed_out, "marks": marks,
            "stdout": tail(&out.stdout), "stderr": tail(&out.stderr),
        });
        let expected = json!({"exit_success": true, "marks": want_marks,
                              "because": "the script is valid, its test accepts, `main` is an entry point"});
        if out.timed_out {
            cx.violation("cli_hang", sub, case, json!("the command ends"), observed);
        } else if crashed(out.code, &out.stderr) {
            cx.violation("cli_crash", sub, case, expected, observed);
        } else if out.code != Some(0) {
            cx.violation("cli_exit_status", sub, case, expected, observed);
        } else if marks != want_marks {
            cx.violation("cli_effects", sub, case, expected, observed);
        }
    }
}

// ------------------------------------------------------------------ stdout

const STDOUT_TARGETS: [(&str, StdoutTo); 3] =
    [("file", StdoutTo::File), ("dev_full", StdoutTo::DevFull), ("closed_pipe", StdoutTo::ClosedPipe)];
const STDOUT_CMDS: [&str; 3] = ["check", "test", "run"];
/// `main` and the test print nothing themselves: only the front end's and the
/// test runner's own output meets the unwritable stdout
const STDOUT_SRC: &str = "fn main() {\n    let x = 1;\n}\ntest a {\n    accept\n}\n";

fn stdout_describe(sub: u64) -> Value {
    let d = vcore::util::decode(sub, &[STDOUT_CMDS.len() as u64, STDOUT_TARGETS.len() as u64]);
    json!({
        "kind": "cli_fs_stdout",
        "subcommand": STDOUT_CMDS[d[0] as usize],
        "argv": [STDOUT_CMDS[d[0] as usize], "ok.roto"],
        "stdout_target": STDOUT_TARGETS[d[1] as usize].0,
        "files": [{"path": "ok.roto", "contents": STDOUT_SRC}],
        "cwd": base(2),
        "binary": roto_bin(),
    })
}

fn run_stdout(cx: &mut Cx) {
    let root = base(2);
    let bin = roto_bin();
    let setup = (|| -> Result<(), String> {
        let _ = std::fs::remove_dir_all(&root);
        std::fs::create_dir_all(&root).map_err(|e| e.to_string())?;
        std::fs::write(root.join("ok.roto"), STDOUT_SRC).map_err(|e| e.to_string())
    })();
    if let Err(e) = setup {
        cx.violation("machinery", SUB_SETUP, json!({"kind": "cli_fs_setup"}), json!("work files written"), json!(e));
        return;
    }
    for sub in 0..(STDOUT_CMDS.len() * STDOUT_TARGETS.len()) as u64 {
        if !cx.case(sub) {
            continue;
        }
        let case = stdout_describe(sub);
        let cmd = STDOUT_CMDS[sub as usize / STDOUT_TARGETS.len()];
        let (_, target) = STDOUT_TARGETS[sub as usize % STDOUT_TARGETS.len()];
        cx.states(1);
        let argv = [cmd.to_string(), "ok.roto".to_string()];
        let out = match launch_ext(&bin, &root, &root, &argv, sub, target) {
            Ok(o) => o,
            Err(e) => {
                cx.violation("machinery", sub, case, json!("the binary can be launched"), json!(e));
                continue;
            }
        };
        cx.transitions(1);
        cx.validated(1);
        cx.count("cli_launches", 1);
        cx.count("cli_fs_launches", 1);
        cx.outcome(mix(mix(fnv_str(cmd), out.code.unwrap_or(-1) as u64), sub));
        cx.nontrivial(mix(0xf60, sub));
        let observed = json!({
            "exit_code": out.code, "timed_out": out.timed_out,
            "stdout": tail(&out.stdout),
            "stderr_head": out.stderr.lines().take(3).collect::<Vec<_>>().join("\n"),
            "stderr": tail(&out.stderr),
        });
        let expected = json!({"exit_success": true, "never": "a panic / exit status 101 / a signal",
                              "because": "the script is valid and its only test accepts"});
        if out.timed_out {
            cx.violation("cli_hang", sub, case, json!("the command ends"), observed);
        } else if crashed(out.code, &out.stderr) {
            cx.violation("cli_crash", sub, case, expected, observed);
        } else if out.code != Some(0) {
            cx.violation("cli_exit_status", sub, case, expected, observed);
        }
    }
}

// ------------------------------------------------------------------ unit

pub fn run(family: usize, cx: &mut Cx) {
    if !cx.case(SUB_SETUP) {
        return;
    }
    if !roto_bin().exists() {
        cx.violation(
            "machinery",
            SUB_SETUP,
            json!({"kind": "cli_fs_setup"}),
            json!("the roto binary exists (preflight builds it)"),
            json!(roto_bin()),
        );
        return;
    }
    match FAMILIES[family] {
        "entries" => run_entries(cx),
        "paths" => run_paths(cx),
        _ => run_stdout(cx),
    }
}

pub fn describe(family: usize, sub: u64) -> Value {
    if sub == SUB_SETUP {
        return json!({"kind": "cli_fs_setup", "family": FAMILIES[family]});
    }
    match FAMILIES[family] {
        "entries" if sub < vcore::util::product(&entry_radices()) => entry_describe(sub),
        "paths" if sub < vcore::util::product(&path_radices()) => path_describe(sub),
        "stdout" if sub < (STDOUT_CMDS.len() * STDOUT_TARGETS.len()) as u64 => stdout_describe(sub),
        _ => json!({"kind": "cli_fs_setup", "family": FAMILIES[family]}),
    }
}
