//! Test blocks with richer bodies, in every position of their file.
//!
//! A case is (body, position, placement):
//! * body: one of `BODIES` (f-strings interpolating each printable type and a
//!   call result, a method call, `?` in a helper, match, lets, list
//!   operations, string concatenation), each in a passing and a failing
//!   variant, or one of the ill-typed bodies of `ILL` (must not compile);
//! * position: nothing or a function before the block x nothing, a function, a
//!   filtermap, a constant or another test after it (first / middle / last
//!   item of the file, every item kind after it);
//! * placement: the file is the only module, the first (root) or the last
//!   (sub-module `a`) module of a two-module tree, the other module empty or
//!   not.
//!
//! The same generator serves Part A (marker `e(i);`) and Part B (marker
//! `print("MARK-t:<name>");`).

use vcore::{Value, json};

/// (name, helper item declared before the block, statements with `@` for the
/// compared value, value that makes the block accept, value that makes it reject)
pub const BODIES: [(&str, &str, &str, &str, &str); 16] = [
    ("lets", "", "let a = 1;\n    let b = a + 2;\n    let c = b * b;\n    if c == @ { accept } else { reject }", "9", "8"),
    ("fstr_i32", "", "let x: i32 = 40 + 2;\n    let s = f\"x={x}\";\n    if s == \"@\" { accept } else { reject }", "x=42", "x=43"),
    ("fstr_bool", "", "let b = 1 == 1;\n    let s = f\"{b}!\";\n    if s == \"@\" { accept } else { reject }", "true!", "false!"),
    ("fstr_string", "", "let w = \"abc\";\n    let s = f\"<{w}>\";\n    if s == \"@\" { accept } else { reject }", "<abc>", "<abd>"),
    ("fstr_ipaddr", "", "let a = 10.0.0.1;\n    let s = f\"{a}\";\n    if s == \"@\" { accept } else { reject }", "10.0.0.1", "10.0.0.2"),
    (
        "fstr_call",
        "fn twice(x: i32) -> i32 {\n    2 * x\n}\n",
        "let s = f\"{twice(4)}\";\n    if s == \"@\" { accept } else { reject }",
        "8",
        "9",
    ),
    ("fstr_multi", "", "let s = f\"{1}-{true}-{\"x\"}\";\n    if s == \"@\" { accept } else { reject }", "1-true-x", "1-false-x"),
    ("method", "", "let w = \"hello\";\n    if w.contains(\"@\") { accept } else { reject }", "ell", "xyz"),
    (
        "question_mark",
        "fn head(l: List[i32]) -> i32? {\n    let x = l.get(0)?;\n    Option.Some(x + 1)\n}\n",
        "let r = match head([5]) {\n        Some(v) => v,\n        None => 0,\n    };\n    if r == @ { accept } else { reject }",
        "6",
        "7",
    ),
    (
        "match",
        "",
        "let o: i32? = Option.Some(3);\n    let r = match o {\n        Some(v) => v + 1,\n        None => 0,\n    };\n    if r == @ { accept } else { reject }",
        "4",
        "5",
    ),
    ("list", "", "let l = [1, 2, 3];\n    l.push(4);\n    if l.len() == @ { accept } else { reject }", "4", "5"),
    ("concat", "", "let s = \"ab\" + \"cd\";\n    if s == \"@\" { accept } else { reject }", "abcd", "abce"),
    // helpers that call each other: whatever orders the items of a package for compilation
    // must not lose a test block that calls into a recursion cycle (seeded change C19-6)
    (
        "mutual_first",
        "fn ping(n: i32) -> i32 {\n    if n == 0 { 0 } else { pong(n - 1) + 1 }\n}\nfn pong(n: i32) -> i32 {\n    if n == 0 { 0 } else { ping(n - 1) + 1 }\n}\n",
        "if ping(3) == @ { accept } else { reject }",
        "3",
        "4",
    ),
    (
        "mutual_second",
        "fn ping(n: i32) -> i32 {\n    if n == 0 { 0 } else { pong(n - 1) + 1 }\n}\nfn pong(n: i32) -> i32 {\n    if n == 0 { 0 } else { ping(n - 1) + 1 }\n}\n",
        "if pong(3) == @ { accept } else { reject }",
        "3",
        "4",
    ),
    (
        "mutual_three_last",
        "fn ra(n: i32) -> i32 {\n    if n == 0 { 0 } else { rb(n - 1) + 1 }\n}\nfn rb(n: i32) -> i32 {\n    if n == 0 { 0 } else { rc(n - 1) + 1 }\n}\nfn rc(n: i32) -> i32 {\n    if n == 0 { 0 } else { ra(n - 1) + 1 }\n}\n",
        "if rc(4) + rb(1) == @ { accept } else { reject }",
        "5",
        "6",
    ),
    (
        "self_recursive",
        "fn fact(n: i32) -> i32 {\n    if n == 0 { 1 } else { n * fact(n - 1) }\n}\n",
        "if fact(4) == @ { accept } else { reject }",
        "24",
        "25",
    ),
];

/// ill-typed bodies: the script must be rejected with a report
pub const ILL: [(&str, &str); 6] = [
    ("ill_plain_mismatch", "let x: i32 = \"a\";\n    accept"),
    ("ill_fstr_record", "let p = { a: 1 };\n    let s = f\"{p}\";\n    accept"),
    ("ill_fstr_list_of_records", "let l = [{ a: 1 }];\n    let s = f\"{l}\";\n    accept"),
    ("ill_fstr_undefined_name", "let s = f\"{nosuch}\";\n    accept"),
    ("ill_undefined_method", "let w = \"abc\";\n    let n = w.nosuch();\n    accept"),
    ("ill_fstr_undefined_method", "let w = \"abc\";\n    let s = f\"{w.nosuch()}\";\n    accept"),
];

pub const N_BODIES: usize = 2 * BODIES.len() + ILL.len();

pub const PRE: [&str; 2] = ["nothing", "fn"];
pub const POST: [&str; 5] = ["nothing", "fn", "filtermap", "const", "test"];
pub const N_POSITIONS: usize = PRE.len() * POST.len();

/// name of the second test (position `test` after the block)
pub const AFTER_TEST: &str = "zz_after";

pub struct Body {
    pub name: String,
    pub ill_typed: bool,
    /// the block accepts (well-typed bodies)
    pub pass: bool,
    helper: &'static str,
    stmts: String,
}

pub fn body(b: usize) -> Body {
    if b < 2 * BODIES.len() {
        let (name, helper, tpl, pass_v, fail_v) = BODIES[b / 2];
        let pass = b % 2 == 0;
        Body {
            name: format!("{name}_{}", if pass { "pass" } else { "fail" }),
            ill_typed: false,
            pass,
            helper,
            stmts: tpl.replace('@', if pass { pass_v } else { fail_v }),
        }
    } else {
        let (name, stmts) = ILL[b - 2 * BODIES.len()];
        Body { name: name.into(), ill_typed: true, pass: true, helper: "", stmts: stmts.into() }
    }
}

pub fn position_name(pos: usize) -> String {
    format!("{}-before_{}-after", PRE[pos / POST.len()], POST[pos % POST.len()])
}

pub fn has_after_test(pos: usize) -> bool {
    POST[pos % POST.len()] == "test"
}

/// The file holding the block `test body`: `mark(0)` is the block's first
/// statement, `mark(1)` that of the test after it.
pub fn file(b: &Body, pos: usize, mark: &dyn Fn(usize) -> String) -> String {
    let mut s = String::new();
    s += b.helper;
    if PRE[pos / POST.len()] == "fn" {
        s += "fn before() -> i32 {\n    1\n}\n";
    }
    s += &format!("test body {{\n    {}\n    {}\n}}\n", mark(0), b.stmts);
    match POST[pos % POST.len()] {
        "fn" => s += "fn after() -> i32 {\n    2\n}\n",
        "filtermap" => s += "filtermap after() {\n    accept\n}\n",
        "const" => s += "const AFTER: i32 = 3;\n",
        "test" => s += &format!("test {AFTER_TEST} {{\n    {}\n    accept\n}}\n", mark(1)),
        _ => {}
    }
    s
}

/// Part A placements: (module tree, module of the block, source of the other module)
pub const PLACEMENTS: [(usize, usize, &str); 5] = [
    (0, 0, ""),
    (1, 0, ""),
    (1, 0, "fn other() -> i32 {\n    5\n}\n"),
    (1, 1, ""),
    (1, 1, "fn other() -> i32 {\n    5\n}\n"),
];

pub fn describe_extra(b: &Body, pos: usize) -> Value {
    json!({"body": b.name, "ill_typed": b.ill_typed, "position": position_name(pos)})
}
