//! Part B, second unit: directory packages whose sub-module names collide
//! with the path machinery (`pkg/mod.roto` next to `pkg.roto`, `pkg/pkg`,
//! `test`, `super_`, `std`, `dep`, `a`/`ab`/`a_b`), every module with a test
//! block called `foo` — the name of the root's test — and every accept/reject
//! vector over the modules; `roto test <dir>` on each of them, `check` and
//! `run` on the all-reject and all-accept vectors.

use crate::clipart::{count_mark, dirs_dir, launch, roto_bin, tail};
use std::collections::BTreeMap;
use std::time::Instant;
use vcore::util::{fnv_str, mix};
use vcore::{Cx, SUB_SETUP, Value, json};

/// (tree name, modules: (absolute module path, file below the root directory))
pub const TREES: [(&str, &[(&str, &str)]); 3] = [
    ("rootname", &[("pkg", "pkg.roto"), ("pkg.pkg", "pkg/mod.roto"), ("pkg.pkg.pkg", "pkg/pkg/mod.roto")]),
    (
        "keywords",
        &[
            ("pkg", "pkg.roto"),
            ("pkg.test", "test.roto"),
            ("pkg.super_", "super_/mod.roto"),
            ("pkg.std", "std.roto"),
            ("pkg.dep", "dep/mod.roto"),
        ],
    ),
    (
        "affixes",
        &[
            ("pkg", "pkg.roto"),
            ("pkg.a", "a.roto"),
            ("pkg.ab", "ab.roto"),
            ("pkg.a_b", "a_b/mod.roto"),
            ("pkg.a_b.b", "a_b/b.roto"),
        ],
    ),
];

pub const FORMS: [&str; 3] = ["test", "check", "run"];

fn dir_name(tree: usize, vector: u64) -> String {
    let n = TREES[tree].1.len();
    let bits: String = (0..n).map(|i| if vector >> i & 1 == 1 { 'a' } else { 'r' }).collect();
    format!("{}-{bits}", TREES[tree].0)
}

fn files(tree: usize, vector: u64) -> Vec<(String, String)> {
    TREES[tree]
        .1
        .iter()
        .enumerate()
        .map(|(i, (abs, file))| {
            let mut s = String::new();
            if i == 0 {
                s += "fn main() {\n    print(\"MARK-main\");\n}\n";
            }
            s += &format!(
                "test foo {{\n    print(\"MARK-t:{abs}.foo\");\n    {}\n}}\n",
                if vector >> i & 1 == 1 { "accept" } else { "reject" }
            );
            (format!("{}/{file}", dir_name(tree, vector)), s)
        })
        .collect()
}

fn sub_of(tree: usize, form: usize, vector: u64) -> u64 {
    ((tree * FORMS.len() + form) as u64) << 16 | vector
}

fn cases() -> Vec<(usize, usize, u64)> {
    let mut v = vec![];
    for form in 0..FORMS.len() {
        for tree in 0..TREES.len() {
            let n = TREES[tree].1.len();
            for vector in 0..1u64 << n {
                if form == 0 || vector == 0 || vector == (1 << n) - 1 {
                    v.push((tree, form, vector));
                }
            }
        }
    }
    v
}

pub fn describe(sub: u64) -> Value {
    if sub == SUB_SETUP {
        return json!({"kind": "cli_dirs_setup"});
    }
    let tf = (sub >> 16) as usize;
    let (tree, form, vector) = (tf / FORMS.len(), tf % FORMS.len(), sub & 0xffff);
    if tree >= TREES.len() {
        return json!({"kind": "cli_dirs_setup"});
    }
    json!({
        "kind": "cli_dir",
        "subcommand": FORMS[form],
        "argv": [FORMS[form], dir_name(tree, vector)],
        "tree": TREES[tree].0,
        "modules": TREES[tree].1.iter().enumerate().map(|(i, (abs, _))| json!({
            "module": abs, "test": "foo", "accept": vector >> i & 1 == 1})).collect::<Vec<_>>(),
        "files": files(tree, vector).iter().map(|(p, c)| json!({"path": p, "contents": c})).collect::<Vec<_>>(),
        "cwd": dirs_dir(),
        "binary": roto_bin(),
    })
}

pub fn run(cx: &mut Cx) {
    let dir = dirs_dir();
    let bin = roto_bin();
    if !cx.case(SUB_SETUP) {
        return;
    }
    let setup = (|| -> Result<(), String> {
        let _ = std::fs::remove_dir_all(&dir);
        std::fs::create_dir_all(&dir).map_err(|e| format!("{}: {e}", dir.display()))?;
        for tree in 0..TREES.len() {
            for vector in 0..1u64 << TREES[tree].1.len() {
                for (path, contents) in files(tree, vector) {
                    let path = dir.join(path);
                    if let Some(parent) = path.parent() {
                        std::fs::create_dir_all(parent).map_err(|e| e.to_string())?;
                    }
                    std::fs::write(&path, contents).map_err(|e| format!("{}: {e}", path.display()))?;
                }
            }
        }
        if !bin.exists() {
            return Err(format!("{} does not exist (preflight builds it)", bin.display()));
        }
        Ok(())
    })();
    if let Err(e) = setup {
        cx.violation("machinery", SUB_SETUP, json!({"kind": "cli_dirs_setup"}), json!("work files written"), json!(e));
        return;
    }
    let started = Instant::now();
    for (tree, form, vector) in cases() {
        let sub = sub_of(tree, form, vector);
        if !cx.case(sub) {
            continue;
        }
        let case = describe(sub);
        let argv = vec![FORMS[form].to_string(), dir_name(tree, vector)];
        cx.states(1);
        let out = match launch(&bin, &dir, &argv, sub) {
            Ok(o) => o,
            Err(e) => {
                cx.violation("machinery", sub, case, json!("the binary can be launched"), json!(e));
                continue;
            }
        };
        cx.transitions(1);
        cx.validated(1);
        cx.count("cli_launches", 1);
        cx.count("cli_dir_launches", 1);
        let mods = TREES[tree].1;
        let all_accept = vector == (1 << mods.len()) - 1;
        let want_success = match FORMS[form] {
            "test" => all_accept,
            _ => true,
        };
        let mut want_marks: BTreeMap<String, usize> = BTreeMap::new();
        for (abs, _) in mods {
            want_marks.insert(format!("t:{abs}.foo"), (FORMS[form] == "test") as usize);
        }
        want_marks.insert("main".into(), (FORMS[form] == "run") as usize);
        let got_marks: BTreeMap<String, usize> =
            want_marks.keys().map(|m| (m.clone(), count_mark(&out.stdout, m))).collect();
        let success = out.code == Some(0);
        cx.outcome(mix(
            mix(fnv_str(FORMS[form]), out.code.unwrap_or(-1) as u64),
            got_marks.values().fold(7, |h, n| mix(h, *n as u64)),
        ));
        if vector != 0 && !all_accept {
            cx.nontrivial(mix(0xd125, sub));
        }
        if sub_of(0, 0, 5) == sub {
            cx.sample(json!({"argv": case["argv"], "files": case["files"], "exit_code": out.code,
                              "stdout": tail(&out.stdout)}));
        }
        let observed = json!({
            "exit_code": out.code, "timed_out": out.timed_out, "marks": got_marks,
            "stdout": tail(&out.stdout), "stderr": tail(&out.stderr),
        });
        let crashed = matches!(out.code, None | Some(101)) || out.stderr.contains("panicked at");
        if out.timed_out {
            cx.violation("cli_hang", sub, case, json!("the command ends"), observed);
        } else if crashed {
            cx.violation(
                "cli_crash",
                sub,
                case,
                json!({"exit_success": want_success, "never": "a panic / exit status 101 / a signal"}),
                observed,
            );
        } else if success != want_success {
            cx.violation(
                "cli_exit_status",
                sub,
                case,
                json!({"exit_success": want_success, "because": {"compiles": true, "all_tests_accept": all_accept}}),
                observed,
            );
        } else if got_marks != want_marks {
            cx.violation("cli_effects", sub, case, json!({"exit_success": want_success, "marks": want_marks}), observed);
        }
    }
    cx.count("cli_dirs_unit_ms", started.elapsed().as_millis() as u64);
}
