//! Part B of C10: every built-in of the default runtime (table shared with
//! C17: `c17::ops`; the list is checked against the runtime's generated
//! documentation at start-up) on the cross product of per-parameter *edge*
//! domains. The only oracle is that the worker process survives the call:
//! no trap, no abort, no panic across the foreign-function boundary (a panic
//! inside an `extern "C"` built-in aborts the process).

use std::collections::HashMap;
use std::net::IpAddr;
use std::sync::{Arc, OnceLock};

use c17::dom::*;
use c17::ops::{self, Op, P};
use c17::val::V;
use c17::{doclint, plan};
use vcore::{Cfg, Cx, Finding, SUB_SETUP, Value, Violation, json};

/// One work unit: a built-in form, restricted to a contiguous range of its
/// argument tuples (so that forms with many crashing cases are spread over
/// several workers).
pub struct Entry {
    pub name: String,
    op: usize,
    lo: u64,
    hi: u64,
}

// the last five: white space of 2 and 3 bytes at either end and on its own, a vertical tab,
// letters whose case mapping changes their length (after seeded change C10-7: a character
// count used as a byte offset by a fast path of `trim*`)
const STRINGS: [&str; 11] = ["", "a", "é", "a\n", "\n", "𝄞b", "\u{a0}x", "x\u{3000}", "\u{2003}\u{a0}", "\u{b}a\u{b}", "ßİ"];
const IPS4: [&str; 4] = ["0.0.0.0", "1.1.1.1", "127.0.0.1", "255.255.255.255"];
const IPS6: [&str; 4] = ["::", "::1", "::ffff:1.2.3.4", "ffff:ffff:ffff:ffff:ffff:ffff:ffff:ffff"];

fn ips(v: &[&str]) -> Vec<IpAddr> {
    v.iter().map(|s| s.parse().unwrap()).collect()
}

fn edge_strings() -> Vec<V> {
    STRINGS.iter().map(|s| V::str(*s)).collect()
}

/// Huge values of a u64 parameter: around 2^32, around the isize limit
/// (2^63 +- 1: `with_capacity`-style pre-sizing panics beyond it) and around
/// u64::MAX. Used for EVERY integer parameter whose value does not by itself
/// amplify memory (results stay tiny because the receivers are tiny); only
/// the count of `String.repeat` stays in 0..=3.
const HUGE: [u64; 6] = [1 << 32, (1 << 63) - 1, 1 << 63, (1 << 63) + 1, u64::MAX - 1, u64::MAX];

/// indices {0, 1, len-1, len, len+1} for every len that occurs (strings up to
/// 5 bytes, lists up to 5 elements) = 0..=6, plus the huge values
fn edge_indices() -> Vec<V> {
    ints((0..=6u64).chain(HUGE).map(|x| x as i128))
}

fn edge_prefixes() -> Vec<V> {
    let mut all = ips(&IPS4);
    all.extend(ips(&IPS6));
    prefixes(&all, |ip| {
        if ip.is_ipv4() { vec![0, 1, 8, 31, 32] } else { vec![0, 1, 64, 127, 128] }
    })
}

fn u64_lists() -> Vec<V> {
    // lengths 0, 1, 4 (= first capacity), 5 (= after growing)
    vec![
        V::List(vec![]),
        V::List(ints([7])),
        V::List(ints([1, 2, 3, 5])),
        V::List(ints([1, 2, 3, 5, u64::MAX as i128])),
    ]
}

fn str_lists() -> Vec<V> {
    vec![
        V::List(vec![]),
        V::strs(["a"]),
        V::strs(["", "a", "é", "a\n"]),
        V::strs(["", "a", "é", "a\n", "𝄞b"]),
    ]
}

/// C10's edge domain of one parameter kind (the same in both tiers)
fn domain(p: P) -> Vec<V> {
    match p {
        P::Recv | P::RecvReplace | P::Str2 | P::BufStr | P::ElemStr => edge_strings(),
        P::Idx | P::ListIdx => edge_indices(),
        // the only parameter that amplifies memory by its value
        P::Rep => ints(0..=3),
        // `n` of splitn / rsplitn only bounds the number of pieces
        P::SplitN => ints((0..=3u64).chain(HUGE).map(|x| x as i128)),
        P::U8 => ints(0..=u8::MAX as i128),
        P::I8 => ints(i8::MIN as i128..=i8::MAX as i128),
        P::U16 => wide_ints(0, u16::MAX as i128),
        P::I16 => wide_ints(i16::MIN as i128, i16::MAX as i128),
        P::U32 => wide_ints(0, u32::MAX as i128),
        P::I32 => wide_ints(i32::MIN as i128, i32::MAX as i128),
        P::U64 => wide_ints(0, u64::MAX as i128),
        P::I64 => wide_ints(i64::MIN as i128, i64::MAX as i128),
        P::F32 => f32_set(8),
        P::F64 => f64_set(64),
        P::F32Pow => f32_set(64),
        P::F64Pow => f64_set(512),
        P::Bool => vec![V::Bool(false), V::Bool(true)],
        P::Char | P::BufChar => {
            ['\0', 'a', '\n', 'é', '漢', '𝄞', 'ǅ', 'İ', '\u{d7ff}', '\u{e000}', '\u{10ffff}'].into_iter().map(V::Char).collect()
        }
        P::Asn => wide_ints(0, u32::MAX as i128).into_iter().map(|v| V::Asn(v.u() as u32)).collect(),
        // operands of Prefix.new / `ip / len`: all-zeros and all-ones of each
        // family (every length beyond the family's maximum kills a worker on
        // this tree, so the address set is kept small)
        // the first two of each are the only ones that also get lengths beyond the
        // family's maximum (see `skipped_by_construction`); every address gets every
        // length the family allows - IPv6 addresses that embed an IPv4 address
        // (mapped, compatible, translated, 6to4, NAT64) included, after seeded change C10-4
        P::Ip4 => ips(&[IPS4[0], IPS4[3], IPS4[1], IPS4[2], "10.1.2.3", "128.0.0.0", "224.0.0.1"]).into_iter().map(V::Ip).collect(),
        P::Ip6 => ips(&[
            IPS6[0], IPS6[3], IPS6[1], IPS6[2], "::ffff:10.1.2.3", "::ffff:0.0.0.0", "::ffff:255.255.255.255", "::1.2.3.4",
            "::ffff:0:1.2.3.4", "64:ff9b::1.2.3.4", "2002:102:304::", "fe80::1", "2001:db8::1", "8000::", "::fffe:1.2.3.4", "0:0:0:0:0:ffff:8000:0",
        ]).into_iter().map(V::Ip).collect(),
        P::Ip => ips(&IPS4).into_iter().chain(ips(&IPS6)).map(V::Ip).collect(),
        // every u8 is a well-typed prefix length
        P::Len4 | P::Len6 => ints(0..=255),
        P::Pfx | P::PfxPair => edge_prefixes(),
        P::CharList => {
            let c = |s: &str| V::List(s.chars().map(V::Char).collect());
            vec![c(""), c("a"), c("é"), c("aé漢𝄞"), c("a\n漢𝄞\0"), V::List(vec![V::Char('\u{10ffff}')])]
        }
        P::CtxCase | P::CtxTrim | P::CtxLen => ints(0..=6),
        P::UnusedStr => vec![V::str("")],
        P::UnusedChar => vec![V::Char('a')],
        P::ListU64 => u64_lists(),
        P::ListStr => str_lists(),
        P::ElemU64 => ints([0, 1, 3, 5, u64::MAX as i128]),
        P::ListLen => ints([0, 1, 2, 4, 5]),
        P::ListLen3 => ints([0, 1, 2]),
        P::UnusedInt => ints([0]),
    }
}

struct Table {
    ops: Vec<Op>,
    doms: Vec<Vec<Vec<V>>>,
    entries: Vec<(usize, u64, u64)>,
}

fn table() -> Arc<Table> {
    static T: OnceLock<Arc<Table>> = OnceLock::new();
    T.get_or_init(|| {
        let ops = ops::ops();
        let mut cache: HashMap<P, Vec<V>> = HashMap::new();
        let mut doms = vec![];
        let mut entries = vec![];
        for (i, op) in ops.iter().enumerate() {
            let d: Vec<Vec<V>> =
                op.params.iter().map(|p| cache.entry(*p).or_insert_with(|| domain(*p)).clone()).collect();
            // Prefix construction: small units (most lengths kill the
            // worker on this tree; deaths within one unit are sequential)
            let target = if op.name == "Prefix.new" { 32 } else { 200_000 };
            for (lo, hi) in plan::sub_chunks(&d, target) {
                entries.push((i, lo, hi));
            }
            doms.push(d);
        }
        Arc::new(Table { ops, doms, entries })
    })
    .clone()
}

pub fn entries() -> Vec<Entry> {
    let t = table();
    t.entries
        .iter()
        .map(|(op, lo, hi)| Entry { name: t.ops[*op].label(), op: *op, lo: *lo, hi: *hi })
        .collect()
}

/// Argument tuples that are left out on purpose: a prefix length beyond the family's
/// maximum kills the worker on this tree (known finding), which does not depend on the
/// address; only the first two addresses of each family get such lengths.
fn skipped_by_construction(op: &Op, doms: &[Vec<V>], args: &[V]) -> bool {
    if op.name != "Prefix.new" {
        return false;
    }
    let (Some(V::Ip(ip)), Some(V::Int(len))) = (args.first(), args.get(1)) else { return false };
    let max = if ip.is_ipv4() { 32 } else { 128 };
    let representative = doms[0].iter().take(2).any(|d| matches!(d, V::Ip(x) if x == ip));
    *len > max && !representative
}

fn case(op: &Op, args: &[V]) -> Value {
    let mut c = plan::case_json(op, args, "script");
    // fields the known-finding predicate looks at
    if op.name == "Prefix.new" {
        if let (Some(V::Ip(ip)), Some(V::Int(len))) = (args.first(), args.get(1)) {
            c["prefix_len"] = json!(*len as u64);
            c["family_max_len"] = json!(if ip.is_ipv4() { 32 } else { 128 });
        }
    }
    c
}

pub fn run(i: usize, cx: &mut Cx) {
    let t = table();
    let (opi, lo, hi) = t.entries[i];
    let op = &t.ops[opi];
    let doms = &t.doms[opi];
    if !cx.case(SUB_SETUP) {
        return;
    }
    let prep = match plan::prepare(op) {
        Ok(p) => p,
        Err((class, msg)) => {
            cx.violation(
                class,
                SUB_SETUP,
                json!({"kind": "setup", "builtin": op.name, "form": op.form, "script": op.script}),
                json!("the script compiles and f is retrievable under the documented signature"),
                json!(msg),
            );
            return;
        }
    };
    cx.states(1);
    cx.nontrivial(vcore::util::fnv_str(&format!("{}#{}", op.label(), op.script)));
    let (mut s0, mut s1) = (lo, hi);
    match cx.only() {
        Some(SUB_SETUP) => return,
        Some(o) => {
            s0 = s0.max(o);
            s1 = s1.min(o.saturating_add(1));
        }
        None => {}
    }
    let mut h = 0u64;
    let mut n = 0u64;
    let mut sampled = false;
    for sub in s0..s1 {
        let args = op.real_args(plan::args_at(doms, sub));
        if skipped_by_construction(op, doms, &args) {
            cx.count("prefix_lengths_beyond_family_maximum_not_run", 1);
            continue;
        }
        if !cx.case(sub) {
            continue;
        }
        match vcore::util::catch(|| (prep.call)(&args)) {
            Ok(v) => {
                h = vcore::util::mix(h, v.hash());
                if !sampled {
                    sampled = true;
                    cx.sample(json!({"builtin": op.name, "form": op.form, "script": op.script,
                        "argument_tuples": plan::total(doms),
                        "first": args.iter().map(|a| a.json()).collect::<Vec<_>>(), "returned": v.json()}));
                }
            }
            Err(p) => {
                cx.violation("panic", sub, case(op, &args), json!("the call returns"), json!(p));
            }
        }
        n += 1;
    }
    cx.transitions(n);
    cx.validated(n);
    cx.outcome(h);
    cx.count("builtin_calls", n);
}

pub fn describe(i: usize, _cfg: &Cfg, sub: u64) -> Value {
    let t = table();
    let (opi, _, _) = t.entries[i];
    let op = &t.ops[opi];
    if sub == SUB_SETUP {
        return json!({"kind": "setup", "builtin": op.name, "form": op.form, "script": op.script});
    }
    let args = op.real_args(plan::args_at(&t.doms[opi], sub));
    case(op, &args)
}

pub fn matches(f: &Finding, v: &Violation) -> bool {
    let c = &v.case;
    match f.matcher.as_str() {
        // Prefix.new(ip, len) / `ip / len` with a length that does not fit
        // the address family: `Prefix::new_relaxed(..).unwrap()` panics inside
        // the extern "C" built-in and the process aborts
        "prefix_new_len_out_of_range" => {
            let ip: Option<IpAddr> = c["args"][0].as_str().and_then(|s| s.parse().ok());
            let len: Option<u64> = c["args"][1].as_str().and_then(|s| s.parse().ok());
            v.class.starts_with("signal:")
                && c["kind"] == "builtin"
                && c["builtin"] == "Prefix.new"
                && matches!((ip, len), (Some(ip), Some(len)) if len > if ip.is_ipv4() { 32 } else { 128 })
        }
        _ => false,
    }
}

pub fn preflight() -> Result<(), String> {
    let t = table();
    // every registered built-in (List methods included) has a table entry
    let n = doclint::lint("c10", &t.ops, |_| true)?;
    if n == 0 {
        return Err("no built-ins found in the runtime's documentation".into());
    }
    for (op, d) in t.ops.iter().zip(&t.doms) {
        if d.iter().any(|x| x.is_empty()) {
            return Err(format!("built-in {} has an empty argument domain", op.label()));
        }
    }
    Ok(())
}
