//! Part B of C10: built-ins (table filled in below)
use vcore::{Cfg, Cx, Finding, Value, Violation, json};

pub struct Entry {
    pub name: &'static str,
}

pub fn entries() -> Vec<Entry> {
    vec![]
}
pub fn run(_i: usize, _cx: &mut Cx) {}
pub fn describe(_i: usize, _cfg: &Cfg, _sub: u64) -> Value {
    json!(null)
}
pub fn matches(_f: &Finding, _v: &Violation) -> bool {
    false
}
pub fn preflight() -> Result<(), String> {
    Ok(())
}
