//! C10 — well-typed scripts and built-ins cannot kill the host process.
//!
//! Part A (this file): every (operator, integer type) on all operand pairs of
//! the bounded domain — all 65 536 pairs for 8-bit types, the boundary cross
//! product for wider types (thorough: all 2^32 pairs for 16-bit types).
//! Part B (`builtins.rs`): every built-in of the default runtime on the cross
//! product of per-parameter edge domains.
//!
//! Oracle: the worker process survives every call.

use roto::{NoCtx, Package, TypedFunc};
use vcore::{Cfg, Check, Cx, Finding, Meta, SUB_SETUP, Tier, Value, Violation, json};

mod builtins;

const TYPES: [&str; 8] = ["u8", "i8", "u16", "i16", "u32", "i32", "u64", "i64"];
const BINOPS: [&str; 11] = ["+", "-", "*", "/", "%", "==", "!=", "<", "<=", ">", ">="];
// unary forms and compound assignment forms get their own units
const EXTRA: [&str; 6] = ["neg", "+=", "-=", "*=", "/=", "%="];

fn is_signed(t: &str) -> bool {
    t.starts_with('i')
}
fn bits(t: &str) -> u32 {
    t[1..].parse().unwrap()
}

/// boundary values of a type as i128
fn boundary(t: &str) -> Vec<i128> {
    let w = bits(t);
    let mut v: Vec<i128> = if is_signed(t) {
        let min = -(1i128 << (w - 1));
        let max = (1i128 << (w - 1)) - 1;
        vec![0, 1, -1, 2, -2, min, min + 1, max, max - 1, 1 << (w / 2), -(1 << (w / 2)), 3, 7]
    } else {
        let max = (1i128 << w) - 1;
        vec![0, 1, 2, 3, 7, max, max - 1, 1 << (w / 2), (1 << (w / 2)) - 1, 1 << (w - 1), (1 << (w - 1)) - 1]
    };
    v.sort();
    v.dedup();
    v
}

/// operand domain of one unit
fn domain(t: &str, tier: Tier) -> Vec<i128> {
    let w = bits(t);
    let full = w == 8 || (w == 16 && tier == Tier::Thorough);
    if full {
        if is_signed(t) {
            (-(1i128 << (w - 1))..(1i128 << (w - 1))).collect()
        } else {
            (0..(1i128 << w)).collect()
        }
    } else {
        boundary(t)
    }
}

#[derive(Clone, Debug)]
enum Unit {
    Bin { ty: &'static str, op: &'static str },
    Extra { ty: &'static str, op: &'static str },
    Builtin(usize),
}

fn unit_table() -> Vec<Unit> {
    let mut v = vec![];
    // 8-bit first (simplest first), then wider
    for ty in TYPES {
        for op in BINOPS {
            v.push(Unit::Bin { ty, op });
        }
        for op in EXTRA {
            if op == "neg" && !is_signed(ty) {
                continue;
            }
            v.push(Unit::Extra { ty, op });
        }
    }
    for i in 0..builtins::entries().len() {
        v.push(Unit::Builtin(i));
    }
    v
}

fn script_for(u: &Unit) -> String {
    match u {
        Unit::Bin { ty, op } => {
            let ret = if ["==", "!=", "<", "<=", ">", ">="].contains(op) { "bool" } else { ty };
            format!("fn f(a: {ty}, b: {ty}) -> {ret} {{ a {op} b }}\n")
        }
        Unit::Extra { ty, op: "neg" } => format!("fn f(a: {ty}, b: {ty}) -> {ty} {{ -a }}\n"),
        Unit::Extra { ty, op } => {
            format!("fn f(a: {ty}, b: {ty}) -> {ty} {{ let x = a; x {op} b; x }}\n")
        }
        Unit::Builtin(_) => String::new(),
    }
}

macro_rules! run_pairs {
    ($t:ty, $ret:ty, $pkg:expr, $dom:expr, $zero_first:expr, $zero_div_only_with:expr, $cx:expr) => {{
        let f: TypedFunc<NoCtx, fn($t, $t) -> $ret> = match $pkg.get_function("f") {
            Ok(f) => f,
            Err(e) => {
                $cx.violation("get_function", SUB_SETUP, json!("f"), json!("Ok"), json!(e.to_string()));
                return;
            }
        };
        let dom: &Vec<i128> = $dom;
        let zero_div_only_with: &Option<Vec<i128>> = $zero_div_only_with;
        let mut h: u64 = 0;
        let mut n: u64 = 0;
        let mut not_run: u64 = 0;
        // Trapping pairs first: every trap kills the worker and the unit is
        // re-run from its start up to that pair, so the zero-divisor column
        // of a dividing operator is enumerated before everything else
        // (sub-case ids do not depend on the order).
        let zero_ib: Option<usize> = if $zero_first { dom.iter().position(|x| *x == 0) } else { None };
        let first = zero_ib.into_iter().flat_map(|ib| (0..dom.len()).map(move |ia| (ia, ib)));
        let rest = (0..dom.len())
            .flat_map(|ia| (0..dom.len()).map(move |ib| (ia, ib)))
            .filter(|(_, ib)| Some(*ib) != zero_ib);
        for (ia, ib) in first.chain(rest) {
            {
                let (a, b) = (&dom[ia], &dom[ib]);
                if *b == 0 {
                    if let Some(bd) = zero_div_only_with {
                        if !bd.contains(a) {
                            not_run += 1;
                            continue;
                        }
                    }
                }
                let sub = ((ia as u64) << 32) | ib as u64;
                if !$cx.case(sub) {
                    continue;
                }
                let r = f.call(*a as $t, *b as $t);
                n += 1;
                h = vcore::util::mix(h, r as u64);
            }
        }
        $cx.transitions(n);
        $cx.validated(n);
        $cx.outcome(h);
        if not_run > 0 {
            $cx.count("zero_divisor_pairs_not_run", not_run);
        }
    }};
}

fn run_arith(u: &Unit, cx: &mut Cx) {
    let (ty, op) = match u {
        Unit::Bin { ty, op } | Unit::Extra { ty, op } => (*ty, *op),
        _ => unreachable!(),
    };
    let src = script_for(u);
    if !cx.case(SUB_SETUP) {
        return;
    }
    let rt = host::runtime();
    let mut pkg: Package<NoCtx> = match host::compile(&rt, &src) {
        Ok(p) => p,
        Err(e) => {
            cx.violation("compile", SUB_SETUP, json!(src), json!("compiles"), json!(format!("{e:?}")));
            return;
        }
    };
    let dom = domain(ty, cx.cfg.tier);
    cx.states(1);
    cx.nontrivial(vcore::util::fnv_str(&src));
    cx.sample(json!({"script": src, "operand_pairs": dom.len() * dom.len(),
                      "first": [dom[0].to_string(), dom[0].to_string()]}));
    let is_cmp = ["==", "!=", "<", "<=", ">", ">="].contains(&op);
    // Every pair (a, 0) of a dividing operator traps (known finding) and each
    // trap costs a worker process and a re-run of the unit up to that pair.
    // Where the domain is the full 16-bit range (thorough) the divisor 0 is
    // therefore paired with the boundary dividends only (the trap does not
    // depend on the dividend); all other pairs run. 65 536 deaths per unit
    // would also exceed vcore's cap of 5 000 deaths per unit.
    let div_like = ["/", "%", "/=", "%="].contains(&op);
    let zero_div_only_with: Option<Vec<i128>> = (div_like && dom.len() > 256).then(|| boundary(ty));
    macro_rules! go {
        ($t:ty) => {
            if is_cmp {
                run_pairs!($t, bool, pkg, &dom, div_like, &zero_div_only_with, cx)
            } else {
                run_pairs!($t, $t, pkg, &dom, div_like, &zero_div_only_with, cx)
            }
        };
    }
    match ty {
        "u8" => go!(u8),
        "i8" => go!(i8),
        "u16" => go!(u16),
        "i16" => go!(i16),
        "u32" => go!(u32),
        "i32" => go!(i32),
        "u64" => go!(u64),
        "i64" => go!(i64),
        _ => unreachable!(),
    }
}

struct C10;

impl Check for C10 {
    fn id(&self) -> &'static str {
        "C10"
    }
    fn units(&self, _cfg: &Cfg) -> usize {
        unit_table().len()
    }
    fn run_unit(&self, unit: usize, cx: &mut Cx) {
        let u = unit_table()[unit].clone();
        match u {
            Unit::Builtin(i) => builtins::run(i, cx),
            _ => run_arith(&u, cx),
        }
    }
    fn describe(&self, cfg: &Cfg, unit: usize, sub: u64) -> Value {
        let u = unit_table()[unit].clone();
        match &u {
            Unit::Builtin(i) => builtins::describe(*i, cfg, sub),
            Unit::Bin { ty, op } | Unit::Extra { ty, op } => {
                if sub == SUB_SETUP {
                    return json!({"kind": "setup", "ty": ty, "op": op, "script": script_for(&u)});
                }
                let dom = domain(ty, cfg.tier);
                let a = dom[(sub >> 32) as usize];
                let b = dom[(sub & 0xffff_ffff) as usize];
                let w = bits(ty);
                let min = if is_signed(ty) { -(1i128 << (w - 1)) } else { 0 };
                json!({"kind": "arith", "ty": ty, "op": op, "a": a.to_string(), "b": b.to_string(),
                       "a_is_min": a == min, "script": script_for(&u)})
            }
        }
    }
    fn matches(&self, f: &Finding, v: &Violation) -> bool {
        let c = &v.case;
        match f.matcher.as_str() {
            // integer division or remainder by zero traps
            "int_div_by_zero" => {
                v.class.starts_with("signal:")
                    && c["kind"] == "arith"
                    && ["/", "%", "/=", "%="].contains(&c["op"].as_str().unwrap_or(""))
                    && c["b"] == "0"
            }
            // MIN / -1 and MIN % -1 trap
            "int_min_div_minus_one" => {
                v.class.starts_with("signal:")
                    && c["kind"] == "arith"
                    && ["/", "%", "/=", "%="].contains(&c["op"].as_str().unwrap_or(""))
                    && c["b"] == "-1"
                    && c["a_is_min"] == true
                    && c["ty"].as_str().is_some_and(|t| t.starts_with('i'))
            }
            _ => builtins::matches(f, v),
        }
    }
    fn meta(&self, cfg: &Cfg) -> Meta {
        Meta {
            rule: "every (operator, integer type) unit runs on every operand pair of its domain (all 2^16 pairs for 8-bit types; boundary cross product for wider types; thorough: all 2^32 pairs for 16-bit types, except that the divisor 0 of / % /= %= is paired with the boundary dividends only — the trap does not depend on the dividend and each one costs a worker process; counters.zero_divisor_pairs_not_run); every built-in runs on the cross product of its per-parameter edge domains. A unit (one compiled script) is non-trivial by construction; distinct_nontrivial counts distinct scripts".into(),
            assumptions: vec![
                "x86-64 Cranelift backend of this sandbox".into(),
                "resource exhaustion excluded by construction (repeat counts <= 3, no loops)".into(),
            ],
            bounds: json!({"int_types": TYPES, "binops": BINOPS, "extra_forms": EXTRA,
                           "full_pairs_bits": cfg.tier.pick(8, 16),
                           "builtins": builtins::entries().len()}),
            states_are: "distinct (operator,type) / built-in scripts".into(),
            transitions_are: "calls into compiled code".into(),
        }
    }
    fn preflight(&self, _cfg: &Cfg) -> Result<(), String> {
        builtins::preflight()
    }
}

fn main() {
    vcore::main(&C10)
}
