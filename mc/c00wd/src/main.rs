//! Self-test of the pool's watchdog (not a property check): unit 0 passes, unit 1
//! spins forever inside a case (must be killed after `case_timeout_s` of CPU),
//! unit 2 sleeps forever inside a case (blocked: must be killed after the timeout
//! of wall clock), unit 3 is slow but makes progress (0.6 s of CPU per case: must
//! NOT be killed), unit 4 waits 2.5 s per case for a child process of its own
//! (asleep without CPU, but not blocked: must NOT be killed).
//! Unit 5 works for half a second and THEN sleeps forever (a case that got stuck after
//! making progress, e.g. a thread blocked on a lock the scheduler does not know of):
//! must be killed after the timeout of idle wall clock, not after the 8x backstop.
//! `c00wd quick` is expected to exit 1 with exactly three violations (class hang).
use vcore::{Cfg, Check, Cx, Finding, Meta, Value, Violation, json};

struct Wd;

impl Check for Wd {
    fn id(&self) -> &'static str {
        "C00"
    }
    fn units(&self, _cfg: &Cfg) -> usize {
        6
    }
    fn case_timeout_s(&self, _cfg: &Cfg) -> f64 {
        1.0
    }
    fn run_unit(&self, unit: usize, cx: &mut Cx) {
        for i in 0..3u64 {
            if !cx.case(i) {
                continue;
            }
            cx.states(1);
            match (unit, i) {
                (1, 1) => loop {
                    std::hint::black_box(0);
                },
                (2, 1) => loop {
                    std::thread::sleep(std::time::Duration::from_secs(1));
                },
                (5, 1) => {
                    let t = std::time::Instant::now();
                    while t.elapsed().as_millis() < 500 {
                        std::hint::black_box(0);
                    }
                    loop {
                        std::thread::sleep(std::time::Duration::from_secs(1));
                    }
                }
                (3, _) => {
                    // 0.6 s of CPU per case: progress, below the timeout
                    let t = std::time::Instant::now();
                    while t.elapsed().as_millis() < 600 {
                        std::hint::black_box(0);
                    }
                }
                (4, _) => {
                    // 2.5 s of wall clock without CPU use, waiting for a child process
                    let _ = std::process::Command::new("sleep").arg("2.5").status();
                }
                _ => {}
            }
        }
    }
    fn describe(&self, _cfg: &Cfg, unit: usize, sub: u64) -> Value {
        json!({"unit": unit, "case": sub})
    }
    fn matches(&self, _f: &Finding, _v: &Violation) -> bool {
        false
    }
    fn meta(&self, _cfg: &Cfg) -> Meta {
        Meta {
            rule: "watchdog self-test".into(),
            assumptions: vec![],
            bounds: json!({}),
            states_are: "cases".into(),
            transitions_are: "cases".into(),
        }
    }
}

fn main() {
    vcore::main(&Wd)
}
