//! C03 — every host value a script owns is released exactly once on every path.
//!
//! All statement bodies up to the size bound over every control-flow
//! construct, with each expression hole filled (by rotation) with every
//! ownership form of a drop-tracked host value, strings and lists, under six
//! entry signatures, run on 16 input vectors that steer every path.
//!
//! Oracle after each call (result and arguments dropped): the ledger of live
//! tracked values is what it was before the call, no double drop, no clone of
//! a dead value, no drop/clone of memory that never was a tracked value, the
//! worker survived, and the number of live heap blocks is in a steady state.

use host::alloc_count::{Counting, live_blocks};
use roto::{List, NoCtx, Package, RotoString, TypedFunc, Val, Verdict};
use vcore::{Cfg, Check, Cx, Finding, Meta, SUB_SETUP, Tier, Value, Violation, json};

mod r#gen;
use r#gen::*;

#[global_allocator]
static ALLOC: Counting = Counting;

const BATCH: usize = 40;

#[derive(Clone)]
struct Case {
    shape: usize,
    size: usize,
    phi: usize,
    sig: Sig,
}

fn sizes(tier: Tier) -> Vec<(usize, usize)> {
    // (size, nest)
    match tier {
        Tier::Quick => vec![(1, 2), (2, 2)],
        Tier::Thorough => vec![(1, 2), (2, 2), (3, 2)],
    }
}

fn shapes(size: usize, nest: usize) -> &'static Vec<Vec<Node>> {
    use std::sync::OnceLock;
    static S: [OnceLock<Vec<Vec<Node>>>; 4] = [OnceLock::new(), OnceLock::new(), OnceLock::new(), OnceLock::new()];
    S[size].get_or_init(|| bodies(size, nest))
}

fn cases(tier: Tier) -> &'static Vec<Case> {
    static C: std::sync::OnceLock<Vec<Case>> = std::sync::OnceLock::new();
    C.get_or_init(|| {
        let mut v = vec![];
        for (size, nest) in sizes(tier) {
            let n = shapes(size, nest).len();
            // quick: size-2 bodies get 3 of the 10 rotations and 4 of the 6
            // signatures; thorough: everything for sizes <= 2, two rotations at size 3
            let rots: Vec<usize> = match (tier, size) {
                (_, 1) => (0..ROTATIONS).collect(),
                (Tier::Quick, _) => vec![0, 3, 7],
                (Tier::Thorough, 2) => (0..ROTATIONS).collect(),
                _ => vec![0, 5],
            };
            let sigs: Vec<Sig> = match (tier, size) {
                (Tier::Quick, 2) => vec![Sig::Plain, Sig::TrArg, Sig::RetOpt, Sig::Filter],
                _ => SIGS.to_vec(),
            };
            for sig in sigs {
                for shape in 0..n {
                    for &phi in &rots {
                        v.push(Case { shape, size, phi, sig });
                    }
                }
            }
        }
        v
    })
}

fn prog_of(c: &Case) -> Prog {
    let nest = 2;
    program(&shapes(c.size, nest)[c.shape], c.phi, c.sig)
}

fn inputs() -> Vec<(i32, i32)> {
    let mut v = vec![];
    for a in 0..4 {
        for b in 0..4 {
            v.push((a, b));
        }
    }
    v
}

enum Entry {
    Plain(TypedFunc<NoCtx, fn(i32, i32) -> i32>),
    TrArg(TypedFunc<NoCtx, fn(i32, i32, Val<host::Tr>) -> i32>),
    RetTr(TypedFunc<NoCtx, fn(i32, i32) -> Val<host::Tr>>),
    RetOpt(TypedFunc<NoCtx, fn(i32, i32) -> Option<Val<host::Tr>>>),
    Filter(TypedFunc<NoCtx, fn(i32, i32) -> Verdict<Val<host::Tr>, Val<host::Tr>>>),
    StrList(TypedFunc<NoCtx, fn(i32, i32, RotoString, List<Val<host::Tr>>) -> i32>),
}

fn get_entry(pkg: &mut Package<NoCtx>, name: &str, sig: Sig) -> Result<Entry, String> {
    Ok(match sig {
        Sig::Plain => Entry::Plain(pkg.get_function(name).map_err(|e| e.to_string())?),
        Sig::TrArg => Entry::TrArg(pkg.get_function(name).map_err(|e| e.to_string())?),
        Sig::RetTr => Entry::RetTr(pkg.get_function(name).map_err(|e| e.to_string())?),
        Sig::RetOpt => Entry::RetOpt(pkg.get_function(name).map_err(|e| e.to_string())?),
        Sig::Filter => Entry::Filter(pkg.get_function(name).map_err(|e| e.to_string())?),
        Sig::StrListArg => Entry::StrList(pkg.get_function(name).map_err(|e| e.to_string())?),
    })
}

fn call_entry(e: &Entry, a: i32, b: i32) {
    match e {
        Entry::Plain(f) => {
            f.call(a, b);
        }
        Entry::TrArg(f) => {
            f.call(a, b, Val(host::Tr::new(1000)));
        }
        Entry::RetTr(f) => {
            drop(f.call(a, b));
        }
        Entry::RetOpt(f) => {
            drop(f.call(a, b));
        }
        Entry::Filter(f) => {
            drop(f.call(a, b));
        }
        Entry::StrList(f) => {
            let s = RotoString::from("arg");
            let l: List<Val<host::Tr>> = List::new();
            l.push(Val(host::Tr::new(1001)));
            f.call(a, b, s.clone(), l.clone());
            drop(l);
            drop(s);
        }
    }
}

struct C03;

impl Check for C03 {
    fn id(&self) -> &'static str {
        "C03"
    }
    fn units(&self, cfg: &Cfg) -> usize {
        cases(cfg.tier).len().div_ceil(BATCH)
    }
    fn max_deaths_per_unit(&self, _cfg: &Cfg) -> u32 {
        // a well-typed generated program must never kill the process: a few
        // deaths are enough evidence, re-running the unit after each is wasted
        6
    }
    fn case_timeout_s(&self, cfg: &Cfg) -> f64 {
        cfg.tier.pick(60.0, 300.0)
    }
    fn run_unit(&self, unit: usize, cx: &mut Cx) {
        if !cx.case(SUB_SETUP) {
            return;
        }
        let all = cases(cx.cfg.tier);
        let lo = unit * BATCH;
        let hi = (lo + BATCH).min(all.len());
        let rt = host::runtime();
        let ins = inputs();
        for i in lo..hi {
            let li = (i - lo) as u64;
            let c = &all[i];
            let p = prog_of(c);
            // every program gets its own package: a script constant of tracked
            // type lives in the package and must be released with it
            if !cx.case((li << 8) | 0xFF) {
                continue;
            }
            let before_pkg = host::ledger_snapshot();
            let mut pkg = match host::compile(&rt, &p.src) {
                Ok(pk) => pk,
                Err(e) => {
                    cx.violation(
                        match e {
                            host::CompileFail::Panic(_) => "compile-panic",
                            host::CompileFail::Report(_) => "rejected",
                        },
                        li << 8,
                        json!({"program": p.src, "features": p.features, "sig": format!("{:?}", p.sig)}),
                        json!("a well-typed program compiles"),
                        json!(format!("{e:?}")),
                    );
                    continue;
                }
            };
            let entry = match get_entry(&mut pkg, "f", p.sig) {
                Ok(e) => e,
                Err(e) => {
                    cx.violation("get_function", li << 8, json!({"program": p.src}), json!("Ok"), json!(e));
                    continue;
                }
            };
            cx.states(1);
            let mut reported: Vec<String> = vec![];
            let mut created_any = false;
            let mut shapes_seen = std::collections::HashSet::new();
            for (k, (a, b)) in ins.iter().enumerate() {
                let sub = (li << 8) | k as u64;
                if !cx.case(sub) {
                    continue;
                }
                let (live0, z0, an0) = host::ledger_snapshot();
                let (cr0, dr0) = host::ledger_counts();
                let mut blocks = vec![];
                for _ in 0..4 {
                    host::clear_log();
                    call_entry(&entry, *a, *b);
                    let _ = host::take_log();
                    blocks.push(live_blocks());
                }
                cx.transitions(4);
                cx.validated(4);
                let (live1, z1, an1) = host::ledger_snapshot();
                let (cr1, dr1) = host::ledger_counts();
                if cr1 > cr0 {
                    created_any = true;
                }
                shapes_seen.insert((cr1 - cr0, dr1 - dr0));
                let mut problems: Vec<(String, Value)> = vec![];
                if an1.len() > an0.len() {
                    for x in &an1[an0.len()..] {
                        let class = match x {
                            host::Anomaly::DoubleDrop(_) => "double-drop",
                            host::Anomaly::CloneOfDead(_) => "use-after-drop",
                            host::Anomaly::Garbage { .. } => "garbage-drop",
                            host::Anomaly::ZUnderflow => "z-underflow",
                            host::Anomaly::ReadOfDead(_) => "read-after-drop",
                        };
                        problems.push((class.to_string(), json!(format!("{x:?}"))));
                    }
                }
                if live1.len() != live0.len() || z1 != z0 {
                    let extra: Vec<u64> =
                        live1.iter().filter(|x| !live0.contains(x)).map(|x| x.1).collect();
                    problems.push((
                        if live1.len() > live0.len() { "leak".to_string() } else { "over-release".to_string() },
                        json!({"live_before": live0.len(), "live_after_4_calls": live1.len(), "leaked_payloads": extra}),
                    ));
                }
                if blocks[3] != blocks[2] {
                    problems.push((
                        "heap-leak".to_string(),
                        json!({"live_heap_blocks_after_calls": blocks}),
                    ));
                }
                for (class, detail) in problems {
                    if reported.contains(&class) {
                        continue;
                    }
                    reported.push(class.clone());
                    cx.violation(
                        class,
                        sub,
                        json!({"program": p.src, "features": p.features, "sig": format!("{:?}", p.sig), "a": a, "b": b}),
                        json!("ledger balanced, no anomaly, heap steady"),
                        detail,
                    );
                }
            }
            drop(entry);
            drop(pkg);
            // the package's constants must be released with it
            let after_pkg = host::ledger_snapshot();
            if after_pkg.0.len() != before_pkg.0.len() && !reported.contains(&"leak".to_string()) {
                cx.violation(
                    "package-leak",
                    li << 8,
                    json!({"program": p.src, "features": p.features, "sig": format!("{:?}", p.sig)}),
                    json!("constants released with the package"),
                    json!({"live_before_compile": before_pkg.0.len(), "live_after_drop": after_pkg.0.len()}),
                );
            }
            if created_any && shapes_seen.len() > 1 {
                // non-trivial: tracked values are created and the number created
                // or dropped depends on the path taken
                cx.nontrivial(vcore::util::fnv_str(&p.src));
            }
            let mut h = 0u64;
            for s in &shapes_seen {
                h ^= vcore::util::mix(s.0, s.1);
            }
            cx.outcome(h);
            if i == lo {
                cx.sample(json!({"program": p.src, "sig": format!("{:?}", p.sig), "paths_distinct_create_drop_counts": shapes_seen.len()}));
            }
        }
    }
    fn describe(&self, cfg: &Cfg, unit: usize, sub: u64) -> Value {
        if sub == SUB_SETUP {
            return json!({"phase": "setup", "unit": unit});
        }
        let all = cases(cfg.tier);
        let i = unit * BATCH + (sub >> 8) as usize;
        let k = (sub & 0xFF) as usize;
        let Some(c) = all.get(i) else { return json!(null) };
        let p = prog_of(c);
        let ins = inputs();
        let (a, b) = ins.get(k).copied().unwrap_or((-1, -1));
        json!({"program": p.src, "features": p.features, "sig": format!("{:?}", p.sig), "a": a, "b": b,
               "phase": if k == 0xFF { "compile" } else { "call" }})
    }
    fn matches(&self, f: &Finding, v: &Violation) -> bool {
        let feats: Vec<&str> = v.case["features"]
            .as_array()
            .map(|a| a.iter().filter_map(|x| x.as_str()).collect())
            .unwrap_or_default();
        match f.matcher.as_str() {
            "feature_and_class" => {
                let classes: Vec<&str> = f.params["classes"]
                    .as_array()
                    .map(|a| a.iter().filter_map(|x| x.as_str()).collect())
                    .unwrap_or_default();
                let feature = f.params["feature"].as_str().unwrap_or("?");
                classes.contains(&v.class.as_str()) && feats.contains(&feature)
            }
            _ => false,
        }
    }
    fn meta(&self, cfg: &Cfg) -> Meta {
        Meta {
            rule: "all statement bodies with up to `size` statements (23 statement forms: discard, let, reassign, consume, field overwrite, constructors, list operations, strings, if/else and while with and without owned temporaries in the condition, for, match with owned guard temporaries, `_` arms, early return/reject, `?`, block values, short-circuit operands) nested to depth 2, x 10 rotations of the ownership forms in the expression holes x 6 entry signatures x 16 input vectors; non-trivial = tracked values are created and the create/drop counts differ between paths".into(),
            assumptions: vec![
                "drop ORDER and the number of clones are not constrained".into(),
                "heap steady state: live heap blocks equal after the 3rd and 4th identical call".into(),
            ],
            bounds: json!({"sizes": sizes(cfg.tier), "rotations": ROTATIONS, "signatures": SIGS.iter().map(|s| format!("{s:?}")).collect::<Vec<_>>(), "inputs": 16}),
            states_are: "distinct generated programs".into(),
            transitions_are: "calls into compiled code (4 per program and input vector)".into(),
        }
    }
}

fn main() {
    // triage aid: `c03 --dump <feature substring>` prints the first two quick programs with it
    let args: Vec<String> = std::env::args().collect();
    if args.get(1).map(|s| s.as_str()) == Some("--dump") {
        let want = args.get(2).cloned().unwrap_or_default();
        let mut n = 0;
        for c in cases(Tier::Quick) {
            let p = prog_of(c);
            if p.features.iter().any(|f| f.contains(&want)) {
                println!("// {:?} {:?}\n{}", c.sig, p.features, p.src.split("fn payd").nth(1).map(|x| x.split_once('\n').map(|y| y.1).unwrap_or(x)).unwrap_or(&p.src));
                n += 1;
                if n == 2 {
                    break;
                }
            }
        }
        println!("// {n} shown");
        return;
    }
    vcore::main(&C03)
}
