//! Generator of ownership programs (text): statement bodies over every
//! control-flow construct with, in every expression hole, each ownership form
//! of a drop-tracked host value (`Tr`), a string or a list.

#[derive(Clone, Debug)]
pub struct Prog {
    pub src: String,
    /// entry signature kind
    pub sig: Sig,
    /// syntactic features (used only by known-finding predicates)
    pub features: Vec<&'static str>,
}

#[derive(Clone, Copy, Debug, PartialEq, Eq)]
pub enum Sig {
    /// fn f(a: i32, b: i32) -> i32
    Plain,
    /// fn f(a: i32, b: i32, t: Tr) -> i32   (tracked argument received from Rust)
    TrArg,
    /// fn f(a: i32, b: i32) -> Tr            (value moved into the return value)
    RetTr,
    /// fn f(a: i32, b: i32) -> Tr?           (`?` allowed in the body)
    RetOpt,
    /// filtermap f(a: i32, b: i32) -> Verdict[Tr, Tr]
    Filter,
    /// fn f(a: i32, b: i32, s: String, l: List[Tr]) -> i32
    StrListArg,
}

pub const SIGS: [Sig; 6] = [Sig::Plain, Sig::TrArg, Sig::RetTr, Sig::RetOpt, Sig::Filter, Sig::StrListArg];

pub const PRELUDE: &str = "\
record R { t: Tr, n: i32 }
record RS { s: String, l: List[Tr] }
enum En { A(Tr, Tr), B(i32), C, D(u64, Tr), E(u32, u32, Tr), F(Tr, u64, String) }
record R2 { n: u64, t: Tr, s: String }
const KT: Tr = mk(900);
const KR: R = R { t: mk(904), n: 1 };
const KR2: R2 = R2 { n: 5, t: mk(905), s: \"k\" };
const KO: Tr? = Option.Some(mk(906));
fn id(x: Tr) -> Tr { x }
fn two(x: Tr, y: Tr) -> Tr { y }
fn opt(c: bool, x: Tr) -> Tr? { if c { Option.Some(x) } else { Option.None } }
fn pay(o: Tr?) -> Tr { match o { Some(v) => v, None => mk(901) } }
fn first(l: List[Tr]) -> Tr { match l.get(0) { Some(v) => v, None => mk(902) } }
fn mkr(k: u64) -> R { R { t: mk(k), n: 1 } }
fn optn(c: bool) -> i32? { if c { Option.Some(1) } else { Option.None } }
fn optb(c: bool, r: bool) -> bool? { if c { Option.Some(r) } else { Option.None } }
fn opts(c: bool) -> String? { if c { Option.Some(f\"zz{c}\") } else { Option.None } }
fn optl(c: bool, x: Tr) -> List[Tr]? { if c { Option.Some([x]) } else { Option.None } }
fn ena(e: En) -> u64 { match e { A(x, y) => val(x) + val(y), B(n) => 1, C => 2, D(n, x) => n + val(x), E(p, q, x) => val(x), F(x, n, s) => val(x) + n } }
fn payd(e: En) -> Tr { match e { D(n, x) => x, E(p, q, x) => x, F(x, n, s) => x, A(x, y) => y, _ => mk(903) } }
";

struct G {
    /// rotation offset: which form a hole at position p gets is (p + phi) % FORMS
    phi: usize,
    pos: usize,
    k: u64,
    var: usize,
    features: Vec<&'static str>,
    sig: Sig,
}

const N_V: usize = 16;
const N_B: usize = 8;
pub const ROTATIONS: usize = 16;

impl G {
    fn k(&mut self) -> u64 {
        self.k += 1;
        self.k
    }
    fn fresh(&mut self, p: &str) -> String {
        self.var += 1;
        format!("{p}{}", self.var)
    }
    fn cond(&mut self) -> &'static str {
        self.pos += 1;
        ["a < b", "a == 1", "b % 3 == 0", "a >= b", "b > 1"][(self.pos + self.phi) % 5]
    }
    /// an expression of type Tr that creates / copies / moves a tracked value
    fn v(&mut self) -> String {
        self.pos += 1;
        let k = self.k();
        let c = self.cond();
        match (self.pos + self.phi) % N_V {
            0 => format!("mk({k})"),
            1 => format!("id(mk({k}))"),
            2 => format!("{{ let u = mk({k}); u }}"),
            3 => format!("(if {c} {{ mk({k}) }} else {{ mk({}) }})", k + 500),
            4 => format!("mkr({k}).t"),
            5 => format!("pay(Option.Some(mk({k})))"),
            6 => format!("first([mk({k}), mk({})])", k + 500),
            7 => format!("two(mk({k}), mk({}))", k + 500),
            8 => "KT".to_string(),
            // a field taken directly off a record constant, a constant with a String next to the
            // tracked field, the payload of an Option constant (seeded change C03-10: the
            // temporary copy of the constant made for `CONST.field` was never dropped)
            13 => "KR.t".to_string(),
            14 => "KR2.t".to_string(),
            15 => "pay(KO)".to_string(),
            10 => format!("payd(En.D({k}, mk({k})))"),
            11 => format!("payd(En.E(1, 2, mk({k})))"),
            12 => format!("payd(En.F(mk({k}), 9, f\"{{a}}\"))"),
            _ => {
                if self.sig == Sig::TrArg {
                    "t".to_string()
                } else {
                    format!("pay(opt({c}, mk({k})))")
                }
            }
        }
    }
    /// a bool expression whose evaluation creates owned temporaries
    fn b(&mut self) -> String {
        self.pos += 1;
        let k = self.k();
        let c = self.cond();
        let v1 = self.v();
        let v2 = self.v();
        match (self.pos + self.phi) % N_B {
            0 => format!("{v1} == {v2}"),
            1 => format!("val({v1}) == {k}"),
            2 => format!("{c} && {v1} == {v2}"),
            3 => format!("{c} || {v1} != {v2}"),
            4 => format!("f\"{{a}}-{k}\" == f\"{{b}}-{k}\""),
            5 => format!("[{v1}].len() == 1"),
            6 => format!("[{v1}] == [{v2}]"),
            _ => format!("ena(En.A({v1}, {v2})) > {k}"),
        }
    }
    /// plain condition or one with owned temporaries
    fn c_or_b(&mut self, owned: bool) -> String {
        if owned { self.b() } else { self.cond().to_string() }
    }

    fn body(&mut self, shape: &[Node], depth: usize) -> String {
        let mut s = String::new();
        for n in shape {
            s.push_str(&self.stmt(n, depth));
            s.push(' ');
        }
        s
    }

    fn stmt(&mut self, n: &Node, depth: usize) -> String {
        let sub = |g: &mut G, i: usize| -> String {
            match n.subs.get(i) {
                Some(b) => g.body(b, depth + 1),
                None => String::new(),
            }
        };
        match n.k {
            St::Discard => format!("{};", self.v()),
            St::Let => {
                let t = self.fresh("t");
                format!("let {t} = {};", self.v())
            }
            St::LetUse => {
                let t = self.fresh("t");
                format!("let {t} = {}; emit_tr({t}); let {t}b = {t};", self.v())
            }
            St::Reassign => {
                let t = self.fresh("t");
                let v1 = self.v();
                let v2 = self.v();
                format!("let {t} = {v1}; {t} = {v2};")
            }
            St::Consume => format!("emit_tr({});", self.v()),
            St::Field => {
                let r = self.fresh("r");
                let v1 = self.v();
                let v2 = self.v();
                format!("let {r} = R {{ t: {v1}, n: 1 }}; {r}.t = {v2}; let {r}c = {r};")
            }
            St::Ctor => {
                let o = self.fresh("o");
                let v1 = self.v();
                let v2 = self.v();
                let v3 = self.v();
                let v4 = self.v();
                let v5 = self.v();
                let v6 = self.v();
                format!("let {o} = Option.Some({v1}); let {o}e = En.A({v2}, {v3}); let {o}n: Tr? = Option.None; let {o}d = En.D(7, {v4}); let {o}f = En.E(1, 2, {v5}); let {o}g = En.F({v6}, 9, f\"{{b}}\"); let {o}r = R2 {{ n: 5, t: mk(77), s: f\"{{a}}\" }}; {o}d = En.B(1); let {o}h = {o}f;")
            }
            St::ListOps => {
                let l = self.fresh("l");
                let v1 = self.v();
                let v2 = self.v();
                let v3 = self.v();
                let v4 = self.v();
                format!("let {l} = [{v1}, {v2}]; {l}.push({v3}); {l}.push(mk(7)); let {l}c = {l}; {l}.swap(0, 1); let {l}g = {l}.get(1); let {l}h = {l}.get(9); let {l}i = {l}.contains(mk(7)); let {l}j = {l}.contains(mk(8)); let {l}k = {l}.index(mk(7)); let {l}m = {l}.index(mk(8)); let {l}n = {l}.index({v4}); let {l}e: List[Tr] = []; let {l}o = {l}e.index(mk(7)); let {l}p = {l}e.contains(mk(7)); let {l}q = {l} + {l}e; let {l}r = {l}.concat([mk(6)]);")
            }
            St::Strings => {
                let s = self.fresh("s");
                let k = self.k();
                format!("let {s} = f\"{{a}}x{k}\" + \"y\"; let {s}r = RS {{ s: {s}, l: [] }}; {s}r.s = f\"{{b}}\"; emit_str({s}r.s);")
            }
            St::If(owned) => {
                if owned {
                    self.features.push("if_cond_owned_temp");
                }
                let c = self.c_or_b(owned);
                format!("if {c} {{ {} }}", sub(self, 0))
            }
            St::IfElse(owned) => {
                let c = self.c_or_b(owned);
                let a = sub(self, 0);
                let b = sub(self, 1);
                format!("if {c} {{ {a} }} else {{ {b} }}")
            }
            St::While(owned) => {
                if owned {
                    self.features.push("while_cond_owned_temp");
                }
                let i = self.fresh("i");
                let variant = self.pos % 3;
                let body;
                let head;
                if owned && variant == 0 {
                    // the condition IS a comparison of two owned temporaries
                    // built from the counter: `while mk(i) != mk(n)`
                    let wrap = ["mk({})", "id(mk({}))", "mkr({}).t", "pay(Option.Some(mk({})))"][(self.pos / 3 + self.phi) % 4];
                    let l = wrap.replace("{}", &i);
                    let r = wrap.replace("{}", &format!("{i}n"));
                    head = format!(
                        "let {i}: u64 = 0; let {i}n: u64 = 0; if b % 4 == 1 {{ {i}n = 1; }} if b % 4 == 2 {{ {i}n = 2; }} if b % 4 == 3 {{ {i}n = 3; }}"
                    );
                    body = sub(self, 0);
                    return format!("{head} while {l} != {r} {{ {body} {i} = {i} + 1; }}");
                }
                let cond = if owned {
                    // owned temporaries next to the counter test, before or after it
                    let b = self.b();
                    if variant == 1 { format!("({b}) && {i} < b % 4") } else { format!("{i} < b % 4 && ({b})") }
                } else {
                    format!("{i} < b % 4")
                };
                body = sub(self, 0);
                format!("let {i} = 0; while {cond} {{ {body} {i} = {i} + 1; }}")
            }
            St::For => {
                let x = self.fresh("x");
                let v1 = self.v();
                let v2 = self.v();
                let body = sub(self, 0);
                format!("for {x} in [{v1}, {v2}] {{ emit_tr({x}); {body} }}")
            }
            St::Match(guard_owned) => {
                if guard_owned {
                    self.features.push("match_guard_owned_temp");
                }
                let y = self.fresh("y");
                let c = self.cond();
                let v = self.v();
                let g = if guard_owned { format!("{y} == {}", self.v()) } else { "a > 1".to_string() };
                let b0 = sub(self, 0);
                let b1 = sub(self, 1);
                format!(
                    "match opt({c}, {v}) {{ Some({y}) if {g} => {{ emit_tr({y}); {b0} }}, Some({y}) => {{ {b1} }}, None => {{ {} }}, }}",
                    self.stmt(&Node { k: St::Discard, subs: vec![] }, depth + 1)
                )
            }
            St::MatchWild => {
                let y = self.fresh("y");
                let c = self.cond();
                let v1 = self.v();
                let v2 = self.v();
                let b0 = sub(self, 0);
                format!("match En.A({v1}, {v2}) {{ A({y}, {y}z) if {c} => {{ {b0} }}, _ => {{ }}, }}")
            }
            St::ArmExit(kind) => {
                // the WHOLE body of the taken arm leaves the function while the arm's owned
                // bindings are alive (seeded change C03-9: bindings of an arm whose body
                // diverges were not put on the arm's frame)
                self.features.push(["arm_body_exits", "arm_body_exits_two_binders", "arm_body_exits_guarded", "arm_body_exits_nested"][kind as usize]);
                let y = self.fresh("y");
                let c = self.cond();
                let v1 = self.v();
                let v2 = self.v();
                // leave with a constant, or with the binding itself (moved into the result)
                let ret = match self.sig {
                    Sig::Plain | Sig::TrArg | Sig::StrListArg => "return 7;".to_string(),
                    Sig::RetTr => format!("return {y};"),
                    Sig::RetOpt => format!("return Option.Some({y});"),
                    Sig::Filter => format!("reject {y};"),
                };
                let ret_const = match self.sig {
                    Sig::Plain | Sig::TrArg | Sig::StrListArg => "return 8;".to_string(),
                    Sig::RetTr => format!("return {};", self.v()),
                    Sig::RetOpt => "return Option.None;".to_string(),
                    Sig::Filter => format!("reject {};", self.v()),
                };
                match kind {
                    0 => format!("match opt({c}, {v1}) {{ Some({y}) => {{ {ret} }}, None => {{ }}, }}"),
                    1 => format!("match En.A({v1}, {v2}) {{ A({y}, {y}z) => {{ {ret_const} }}, _ => {{ }}, }}"),
                    2 => format!("match opt(true, {v1}) {{ Some({y}) if {c} => {{ {ret_const} }}, Some({y}) => {{ emit_tr({y}); }}, None => {{ }}, }}"),
                    _ => format!("match opt(true, {v1}) {{ Some({y}) => {{ match opt({c}, {v2}) {{ Some({y}n) => {{ {ret} }}, None => {{ emit_tr({y}); }}, }} }}, None => {{ }}, }}"),
                }
            }
            St::Return => {
                self.features.push("early_return");
                let c = self.cond();
                let t = self.fresh("t");
                let v = self.v();
                let ret = match self.sig {
                    Sig::Plain | Sig::TrArg | Sig::StrListArg => "return 7;".to_string(),
                    Sig::RetTr => format!("return {t};"),
                    Sig::RetOpt => format!("return Option.Some({t});"),
                    Sig::Filter => format!("reject {t};"),
                };
                format!("let {t} = {v}; if {c} {{ {ret} }}")
            }
            St::Try => {
                if self.sig != Sig::RetOpt {
                    // `?` needs an Option-returning function: use a nested helper call instead
                    let t = self.fresh("t");
                    return format!("let {t} = pay(opt({}, {}));", self.cond(), self.v());
                }
                self.features.push("try");
                let t = self.fresh("t");
                let t2 = self.fresh("t");
                let v0 = self.v();
                let c = self.cond();
                let v = self.v();
                format!("let {t2} = {v0}; let {t} = opt({c}, {v})?;")
            }
            St::BlockValue => {
                let t = self.fresh("t");
                let v1 = self.v();
                let v2 = self.v();
                let inner = sub(self, 0);
                format!("let {t} = {{ let q = {v1}; {inner} {v2} }};")
            }
            St::ExitIn(kind) => {
                self.features.push(
                    [
                        "exit_in_record",
                        "exit_in_enum",
                        "exit_in_list",
                        "exit_in_call_args",
                        "exit_in_method_args",
                        "exit_in_short_circuit",
                        "exit_in_record_before_owned_field",
                        "exit_in_anonymous_record_owned_field",
                        "exit_in_record_middle_owned_field",
                        "exit_in_match_guard",
                        "exit_in_match_guard_two_binders",
                        "exit_in_fstring_part",
                        "exit_in_string_concat",
                        "exit_in_list_concat",
                        "exit_in_eq_operand",
                        "exit_in_field_assignment",
                        "exit_in_assignment",
                        "exit_in_for_iterable",
                        "exit_in_nested_record",
                        "exit_in_nested_list",
                        "exit_in_block_value",
                        "exit_in_while_condition",
                        "exit_in_if_condition",
                    ][kind as usize],
                );
                let r = self.fresh("r");
                let (v1, v2, v3) = (self.v(), self.v(), self.v());
                let c1 = self.cond();
                // the expression that may leave the function early, of type i32 / Tr
                let (exit_i32, exit_tr) = if self.sig == Sig::RetOpt {
                    (format!("optn({c1})?"), format!("opt({c1}, {v2})?"))
                } else {
                    let ret = match self.sig {
                        Sig::Plain | Sig::TrArg | Sig::StrListArg => "return 9;".to_string(),
                        Sig::RetTr => format!("return {v3};"),
                        Sig::Filter => format!("reject {v3};"),
                        Sig::RetOpt => unreachable!(),
                    };
                    (format!("{{ if {c1} {{ {ret} }} 1 }}"), format!("{{ if {c1} {{ {ret} }} {v2} }}"))
                };
                if kind == 5 {
                    // a live tracked local, then `cond && { return .. }`: the right
                    // operand leaves the function only when it is evaluated
                    let ret = if self.sig == Sig::RetOpt {
                        "return Option.None;".to_string()
                    } else {
                        match self.sig {
                            Sig::Plain | Sig::TrArg | Sig::StrListArg => "return 9;".to_string(),
                            Sig::RetTr => format!("return {v3};"),
                            Sig::Filter => format!("reject {v3};"),
                            Sig::RetOpt => unreachable!(),
                        }
                    };
                    let op = if self.pos % 2 == 0 { "&&" } else { "||" };
                    return format!("let {r} = {v1}; let {r}c = {c1} {op} {{ {ret} }};");
                }
                if kind == 9 || kind == 10 {
                    // the guard of a match arm leaves the function while the arm's
                    // binders (and the scrutinee) are alive
                    let c2 = self.cond();
                    let exit_bool = if self.sig == Sig::RetOpt {
                        format!("optb({c1}, {c2})?")
                    } else {
                        let ret = match self.sig {
                            Sig::Plain | Sig::TrArg | Sig::StrListArg => "return 9;".to_string(),
                            Sig::RetTr => format!("return {v3};"),
                            Sig::Filter => format!("reject {v3};"),
                            Sig::RetOpt => unreachable!(),
                        };
                        format!("{{ if !({c1}) {{ {ret} }} {c2} }}")
                    };
                    let c0 = self.cond();
                    return if kind == 9 {
                        format!(
                            "match opt({c0}, {v1}) {{ Some({r}) if {exit_bool} => {{ emit_tr({r}); }}, Some({r}) => {{ emit_tr({r}); }}, None => {{ }}, }}"
                        )
                    } else {
                        format!("match En.A({v1}, {v2}) {{ A({r}, {r}z) if {exit_bool} => {{ emit_tr({r}z); }}, _ => {{ }}, }}")
                    };
                }
                // exits of type String and List[Tr]
                let (exit_str, exit_list) = if self.sig == Sig::RetOpt {
                    (format!("opts({c1})?"), format!("optl({c1}, {v2})?"))
                } else {
                    let ret = match self.sig {
                        Sig::Plain | Sig::TrArg | Sig::StrListArg => "return 9;".to_string(),
                        Sig::RetTr => format!("return {v3};"),
                        Sig::Filter => format!("reject {v3};"),
                        Sig::RetOpt => unreachable!(),
                    };
                    (format!("{{ if !({c1}) {{ {ret} }} f\"zz{{a}}\" }}"), format!("{{ if !({c1}) {{ {ret} }} [{v2}] }}"))
                };
                match kind {
                    11 => return format!("let {r} = f\"p{{a}}\"; let {r}s = f\"{{{r}}}{{({exit_str})}}q\";"),
                    12 => return format!("let {r} = f\"p{{a}}\"; let {r}s = {r} + {exit_str}; let {r}t = f\"q{{b}}\".append({exit_str});"),
                    13 => return format!("let {r} = [{v1}]; let {r}s = {r} + {exit_list};"),
                    14 => return format!("let {r} = {v1} == {exit_tr};"),
                    15 => return format!("let {r} = R {{ t: {v1}, n: 2 }}; {r}.t = {exit_tr};"),
                    16 => return format!("let {r} = {v1}; {r} = {exit_tr};"),
                    17 => return format!("for {r} in [{v1}, {exit_tr}] {{ emit_tr({r}); }}"),
                    18 => return format!("let {r} = {{ a: {{ b: {v1}, c: {exit_tr} }}, d: mk(3) }}; let {r}o = Option.Some(R {{ t: {exit_tr}, n: 1 }});"),
                    19 => return format!("let {r} = [[{v1}], {exit_list}];"),
                    20 => return format!("let {r} = {v1}; let {r}u = {{ let q = mk(4); {exit_tr} }};"),
                    21 => return format!("let {r} = {v1}; let {r}i = 0; while {r}i < 2 && val({exit_tr}) > 0 {{ {r}i = {r}i + 1; }}"),
                    22 => return format!("let {r} = {v1}; if val({exit_tr}) > 1 {{ emit_tr({r}); }}"),
                    _ => {}
                }
                match kind {
                    6 => format!("let {r} = R {{ n: {exit_i32}, t: {v1} }};"),
                    7 => format!("let {r} = {{ a: {v1}, b: {exit_tr}, c: f\"{{a}}\" }};"),
                    8 => format!("let {r} = R2 {{ n: 5, t: {exit_tr}, s: f\"{{a}}\" }};"),
                    0 => format!("let {r} = R {{ t: {v1}, n: {exit_i32} }};"),
                    1 => format!("let {r} = En.A({v1}, {exit_tr});"),
                    2 => format!("let {r} = [{v1}, {exit_tr}];"),
                    3 => format!("let {r} = two({v1}, {exit_tr});"),
                    _ => format!("let {r} = [{v1}]; {r}.push({exit_tr});"),
                }
            }
            St::Alias(kind) => {
                self.features.push("examinee_reassigned");
                let x = self.fresh("x");
                let y = self.fresh("y");
                let c = self.cond();
                let v1 = self.v();
                let v2 = self.v();
                match kind {
                    0 => format!("let {x} = opt(true, {v1}); match {x} {{ Some({y}) if {{ {x} = Option.None; false }} => {{ }}, Some({y}) => {{ emit_tr({y}); }}, None => {{ }}, }}"),
                    1 => format!("let {x} = opt(true, {v1}); match {x} {{ Some({y}) => {{ {x} = Option.None; emit_tr({y}); }}, None => {{ }}, }}"),
                    2 => format!("let {x} = [{v1}, {v2}]; for {y} in {x} {{ {x} = []; emit_tr({y}); }}"),
                    3 => format!("let {x} = En.A({v1}, {v2}); match {x} {{ A({y}, {y}q) if {{ {x} = En.C; false }} => {{ }}, A({y}, {y}q) => {{ emit_tr({y}q); emit_tr({y}); }}, _ => {{ }}, }}"),
                    4 => format!("let {x} = opt(true, {v1}); match {x} {{ Some({y}) if {{ {x} = opt({c}, {v2}); {c} }} => {{ emit_tr({y}); }}, Some({y}) => {{ emit_tr({y}); emit_tr(pay({x})); }}, None => {{ }}, }}"),
                    _ => format!("let {x} = R {{ t: {v1}, n: 1 }}; match opt(true, {x}.t) {{ Some({y}) if {{ {x}.t = {v2}; false }} => {{ }}, Some({y}) => {{ emit_tr({y}); emit_tr({x}.t); }}, None => {{ }}, }}"),
                }
            }
            St::ShortCircuit => {
                self.features.push("short_circuit_owned_temp");
                let x = self.fresh("c");
                let c = self.cond();
                let b1 = self.b();
                let b2 = self.b();
                format!("let {x} = ({c} && ({b1})) || ({b2});")
            }
        }
    }
}

#[derive(Clone, Copy, Debug, PartialEq, Eq)]
pub enum St {
    Discard,
    Let,
    LetUse,
    Reassign,
    Consume,
    Field,
    Ctor,
    ListOps,
    Strings,
    If(bool),
    IfElse(bool),
    While(bool),
    For,
    Match(bool),
    MatchWild,
    Return,
    Try,
    BlockValue,
    ShortCircuit,
    /// early exit (`?` or `return`) in the middle of building a record (0),
    /// enum (1), list (2), call arguments (3), method call arguments (4),
    /// the right operand of `&&` / `||` (5), a record field BEFORE an owned field
    /// (6), an owned field of an anonymous record with an owned field after it (7),
    /// the middle owned field of a named record (8), a match guard with one (9) or
    /// two (10) owned binders alive; f-string part (11), string (12) and list (13)
    /// concatenation operand, `==` operand (14), field (15) and variable (16)
    /// assignment, `for` iterable (17), nested record / Some(record) (18), nested
    /// list (19), block value (20), `while` (21) and `if` (22) condition
    ExitIn(u8),
    /// the variable a construct is working on is reassigned while the construct still
    /// uses it: match examinee reassigned by a failing guard (0), by the arm body (1),
    /// `for` iterable reassigned by the body (2), two-payload examinee reassigned by a
    /// failing guard (3), examinee reassigned by a guard that may succeed (4), the
    /// record a matched field came from reassigned by the guard (5)
    Alias(u8),
    /// the whole body of a match arm is an exit: one owned binding, moved into the result
    /// (0), two owned bindings, constant result (1), after a guard (2), in a nested match (3)
    ArmExit(u8),
}

pub const STMTS: [St; 56] = [
    St::ArmExit(0),
    St::ArmExit(1),
    St::ArmExit(2),
    St::ArmExit(3),
    St::Alias(0),
    St::Alias(1),
    St::Alias(2),
    St::Alias(3),
    St::Alias(4),
    St::Alias(5),
    St::ExitIn(11),
    St::ExitIn(12),
    St::ExitIn(13),
    St::ExitIn(14),
    St::ExitIn(15),
    St::ExitIn(16),
    St::ExitIn(17),
    St::ExitIn(18),
    St::ExitIn(19),
    St::ExitIn(20),
    St::ExitIn(21),
    St::ExitIn(22),
    St::ExitIn(6),
    St::ExitIn(7),
    St::ExitIn(8),
    St::ExitIn(9),
    St::ExitIn(10),
    St::ExitIn(5),
    St::ExitIn(0),
    St::ExitIn(1),
    St::ExitIn(2),
    St::ExitIn(3),
    St::ExitIn(4),
    St::Discard,
    St::Let,
    St::LetUse,
    St::Reassign,
    St::Consume,
    St::Field,
    St::Ctor,
    St::ListOps,
    St::Strings,
    St::If(false),
    St::If(true),
    St::IfElse(false),
    St::IfElse(true),
    St::While(false),
    St::While(true),
    St::For,
    St::Match(false),
    St::Match(true),
    St::MatchWild,
    St::Return,
    St::Try,
    St::BlockValue,
    St::ShortCircuit,
];

impl St {
    fn arity(self) -> usize {
        match self {
            St::If(_) | St::While(_) | St::For | St::MatchWild | St::BlockValue => 1,
            St::IfElse(_) | St::Match(_) => 2,
            _ => 0,
        }
    }
}

#[derive(Clone, Debug)]
pub struct Node {
    pub k: St,
    pub subs: Vec<Vec<Node>>,
}

/// all bodies with exactly `size` statements in total, nesting <= nest
pub fn bodies(size: usize, nest: usize) -> Vec<Vec<Node>> {
    if size == 0 {
        return vec![vec![]];
    }
    let mut out = vec![];
    for s in 1..=size {
        let firsts = nodes(s, nest);
        let rests = bodies(size - s, nest);
        for f in &firsts {
            for r in &rests {
                let mut v = vec![f.clone()];
                v.extend(r.iter().cloned());
                out.push(v);
            }
        }
    }
    out
}

fn nodes(size: usize, nest: usize) -> Vec<Node> {
    let mut out = vec![];
    for k in STMTS {
        let ar = k.arity();
        if ar == 0 {
            if size == 1 {
                out.push(Node { k, subs: vec![] });
            }
            continue;
        }
        if nest == 0 {
            continue;
        }
        for split in splits(size - 1, ar) {
            let choices: Vec<Vec<Vec<Node>>> = split.iter().map(|s| bodies(*s, nest - 1)).collect();
            let total: usize = choices.iter().map(|c| c.len()).product();
            for mut idx in 0..total {
                let mut subs = Vec::with_capacity(ar);
                for c in choices.iter().rev() {
                    subs.push(c[idx % c.len()].clone());
                    idx /= c.len();
                }
                subs.reverse();
                out.push(Node { k, subs });
            }
        }
    }
    out
}

fn splits(total: usize, parts: usize) -> Vec<Vec<usize>> {
    if parts == 1 {
        return vec![vec![total]];
    }
    let mut out = vec![];
    for first in 0..=total {
        for mut rest in splits(total - first, parts - 1) {
            let mut v = vec![first];
            v.append(&mut rest);
            out.push(v);
        }
    }
    out
}

/// The program for body shape `shape`, rotation `phi`, signature `sig`
pub fn program(shape: &[Node], phi: usize, sig: Sig) -> Prog {
    let mut g = G { phi, pos: 0, k: 0, var: 0, features: vec![], sig };
    let body = g.body(shape, 0);
    let tail_v = g.v();
    let (head, tail) = match sig {
        Sig::Plain => ("fn f(a: i32, b: i32) -> i32".to_string(), "a + b".to_string()),
        Sig::TrArg => ("fn f(a: i32, b: i32, t: Tr) -> i32".to_string(), "a + b".to_string()),
        Sig::StrListArg => {
            ("fn f(a: i32, b: i32, s: String, l: List[Tr]) -> i32".to_string(), "emit_str(s + \"z\"); l.push(KT); let lc = l; a".to_string())
        }
        Sig::RetTr => ("fn f(a: i32, b: i32) -> Tr".to_string(), tail_v),
        Sig::RetOpt => ("fn f(a: i32, b: i32) -> Tr?".to_string(), format!("Option.Some({tail_v})")),
        Sig::Filter => ("filtermap f(a: i32, b: i32)".to_string(), format!("if a < b {{ accept {tail_v} }} else {{ reject mk(77) }}")),
    };
    let src = format!("{PRELUDE}{head} {{ {body}{tail} }}\n");
    Prog { src, sig, features: g.features }
}
