//! Family `cycctx`: function-only recursion cycles combined with one context
//! read and one constant, in every declaration order and every relative order
//! of the interned item names.
//!
//! Roles of a program (k = L + hops + 1 items, all in `pkg`):
//!   c_0 .. c_{L-1}   a ring of mutually recursive functions (c_i calls
//!                    c_{i+1 mod L}, guarded by the depth parameter `d`)
//!   h_1 .. h_hops    non-cycle functions; h_hops reads `cv`, h_t calls h_{t+1}
//!   K                one constant
//! `attached`: c_0 reads the context (hops = 0: `cv` itself, else `h_1()`).
//! detached: nobody on the cycle mentions h_1 (hops >= 1 only).
//! Mode of K: enter the cycle through c_e / call h_t directly / mention nothing.
//!
//! The walk over the reference graph in the type checker is keyed by resolved
//! names (scope, interned symbol); a symbol's number is (shard chosen by a fixed
//! hash of the SPELLING) << 28 | (index in that shard). Each name set below is
//! reduced at start-up to five spellings in five different shards, so their
//! relative order is a function of the spelling alone (not of what the process
//! interned earlier), and `sigma` assigns the sorted spellings to the roles in
//! every possible way.

use std::num::NonZeroU32;
use std::sync::OnceLock;

use symbol_table::GlobalSymbol;

use crate::model::{ACCESS, CV, access_expr};

/// candidate spellings per name set; the first five that fall in pairwise
/// different symbol shards are used
const THEMES: [&[&str]; 8] = [
    &["step", "spin", "leaf", "KK", "twig", "root", "bark", "stem", "moss", "fern", "pine", "reed"],
    &["alpha", "beta", "gamma", "QQ", "delta", "omega", "sigma", "kappa", "theta", "iota", "zeta", "lambda"],
    &["f0", "f1", "f2", "C0", "f3", "f4", "C1", "f5", "f6", "C2", "f7", "f8"],
    &["zz", "yy", "xx", "WW", "vv", "uu", "TT", "ss", "rr", "qq", "PP", "oo"],
    &["a1", "b2", "c3", "D4", "g5", "h6", "j7", "L8", "n9", "p10", "r11", "S12"],
    &["ping", "pong", "relay", "LIMIT", "hop", "skip", "jump", "bounce", "dash", "roll", "slide", "drift"],
    &["north", "south", "east", "WEST", "upper", "lower", "inner", "outer", "near", "far", "mid", "edge"],
    &["red", "green", "blue", "MAX", "cyan", "pink", "gold", "grey", "teal", "plum", "rust", "sand"],
];
pub const N_SETS: usize = THEMES.len();


/// the getter of the constant: a spelling of the last symbol shard
pub fn getter() -> String {
    crate::mutc::late_name("zread")
}

pub fn raw(name: &str) -> u32 {
    NonZeroU32::from(GlobalSymbol::from(name)).get()
}

/// the five spellings of each set, sorted by interned symbol (ascending)
pub fn name_sets() -> &'static Vec<Result<Vec<&'static str>, String>> {
    static T: OnceLock<Vec<Result<Vec<&'static str>, String>>> = OnceLock::new();
    T.get_or_init(|| {
        THEMES
            .iter()
            .map(|cands| {
                let mut picked: Vec<(u32, &'static str)> = vec![];
                for c in cands.iter() {
                    let r = raw(c);
                    // the last shard is reserved for getters (they sort after every item)
                    if r >> 28 != 15 && picked.iter().all(|(p, _)| p >> 28 != r >> 28) {
                        picked.push((r, *c));
                    }
                    if picked.len() == 5 {
                        break;
                    }
                }
                if picked.len() < 5 {
                    return Err(format!("name set {cands:?}: fewer than 5 spellings in distinct symbol shards"));
                }
                picked.sort();
                Ok(picked.into_iter().map(|(_, n)| n).collect())
            })
            .collect()
    })
}

/// (cycle length, hops to the context read, attached to the cycle)
pub const CONFIGS: [(usize, usize, bool); 8] = [
    (2, 0, true),
    (2, 1, true),
    (3, 0, true),
    (2, 1, false),
    (2, 2, true),
    (3, 1, true),
    (2, 2, false),
    (3, 1, false),
];
/// configurations enumerated by the quick tier (the rest: thorough only)
pub const QUICK_CONFIGS: [usize; 6] = [0, 1, 2, 3, 4, 5];

pub fn factorial(k: usize) -> u64 {
    (1..=k as u64).product()
}

/// the idx-th permutation of 0..k in lexicographic order
pub fn permutation(k: usize, mut idx: u64) -> Vec<usize> {
    let mut pool: Vec<usize> = (0..k).collect();
    let mut out = vec![];
    for i in (0..k).rev() {
        let f = factorial(i);
        out.push(pool.remove((idx / f) as usize));
        idx %= f;
    }
    out
}

#[derive(Clone, Debug, PartialEq)]
pub enum Mode {
    /// K calls cycle member e
    Enter(usize),
    /// K calls helper h_t (1-based) without touching the cycle
    Reach(usize),
    /// K mentions nothing
    Pure,
}

#[derive(Clone, Debug)]
pub struct CCase {
    pub config: usize,
    pub mode: Mode,
    /// perm[p] = role declared at position p
    pub perm: Vec<usize>,
    /// sigma[r] = rank of role r's name among the names of the program (symbol order)
    pub sigma: Vec<usize>,
    pub set: usize,
    /// index into model::ACCESS: how the context read is written
    pub access: usize,
}

impl CCase {
    pub fn l(&self) -> usize {
        CONFIGS[self.config].0
    }
    pub fn hops(&self) -> usize {
        CONFIGS[self.config].1
    }
    pub fn attached(&self) -> bool {
        CONFIGS[self.config].2
    }
    pub fn k(&self) -> usize {
        self.l() + self.hops() + 1
    }
    pub fn modes(config: usize) -> Vec<Mode> {
        let (l, hops, _) = CONFIGS[config];
        let mut v: Vec<Mode> = (0..l).map(Mode::Enter).collect();
        v.extend((1..=hops).map(Mode::Reach));
        v.push(Mode::Pure);
        v
    }
    pub fn role_name(&self, r: usize) -> &'static str {
        // the first k spellings (in symbol order) of the set, dealt out by sigma
        let set = name_sets()[self.set].as_ref().expect("checked in preflight");
        set[self.sigma[r]]
    }
    fn k_role(&self) -> usize {
        self.k() - 1
    }
    fn h_role(&self, t: usize) -> usize {
        self.l() + t - 1
    }
    pub fn tag(r: usize) -> i64 {
        10i64.pow(r as u32)
    }

    /// rejected iff the constant transitively reaches the context read
    pub fn expect_reject(&self) -> bool {
        match self.mode {
            Mode::Enter(_) => self.attached(),
            Mode::Reach(_) => true,
            Mode::Pure => false,
        }
    }

    // --- reference semantics (accepted programs only)
    pub fn val_h(&self, t: usize) -> i64 {
        CCase::tag(self.h_role(t)) + if t < self.hops() { self.val_h(t + 1) } else { CV }
    }
    pub fn val_c(&self, i: usize, d: i64) -> i64 {
        let mut v = CCase::tag(i);
        if d > 0 {
            v += self.val_c((i + 1) % self.l(), d - 1);
        }
        if i == 0 && self.attached() {
            v += if self.hops() == 0 { CV } else { self.val_h(1) };
        }
        v
    }
    pub fn val_k(&self) -> i64 {
        CCase::tag(self.k_role())
            + match self.mode {
                Mode::Enter(e) => self.val_c(e, 1),
                Mode::Reach(t) => self.val_h(t),
                Mode::Pure => 0,
            }
    }

    /// (name, takes depth, expected value per depth) of everything callable
    pub fn probes(&self) -> Vec<(String, Option<i64>, i64)> {
        let mut v = vec![];
        for i in 0..self.l() {
            for d in 0..=2 {
                v.push((self.role_name(i).to_string(), Some(d), self.val_c(i, d)));
            }
        }
        for t in 1..=self.hops() {
            v.push((self.role_name(self.h_role(t)).to_string(), None, self.val_h(t)));
        }
        v.push((getter(), None, self.val_k()));
        v
    }

    pub fn source(&self) -> String {
        let l = self.l();
        let mut text = vec![String::new(); self.k()];
        for i in 0..l {
            let next = self.role_name((i + 1) % l);
            let mut body = format!("{} + (if d > 0 {{ {next}(d - 1) }} else {{ 0 }})", CCase::tag(i));
            if i == 0 && self.attached() {
                if self.hops() == 0 {
                    body.push_str(&format!(" + {}", access_expr(self.access)));
                } else {
                    body.push_str(&format!(" + {}()", self.role_name(self.h_role(1))));
                }
            }
            text[i] = format!("fn {}(d: i32) -> i32 {{ {body} }}", self.role_name(i));
        }
        for t in 1..=self.hops() {
            let r = self.h_role(t);
            let rest = if t < self.hops() {
                format!("{}()", self.role_name(self.h_role(t + 1)))
            } else {
                access_expr(self.access)
            };
            text[r] = format!("fn {}() -> i32 {{ {} + {rest} }}", self.role_name(r), CCase::tag(r));
        }
        let kr = self.k_role();
        let kref = match self.mode {
            Mode::Enter(e) => format!(" + {}(1)", self.role_name(e)),
            Mode::Reach(t) => format!(" + {}()", self.role_name(self.h_role(t))),
            Mode::Pure => String::new(),
        };
        text[kr] = format!("const {}: i32 = e({}){kref};", self.role_name(kr), CCase::tag(kr));
        let mut out = String::new();
        for p in 0..self.k() {
            out.push_str(&text[self.perm[p]]);
            out.push('\n');
        }
        if !self.expect_reject() {
            // only accepted programs carry the getter (one more item in the graph)
            out.push_str(&format!("fn {}() -> i32 {{ {} }}\n", getter(), self.role_name(kr)));
        }
        out
    }

    pub fn role_label(&self, r: usize) -> String {
        if r < self.l() {
            format!("c{r}")
        } else if r < self.k_role() {
            format!("h{}", r - self.l() + 1)
        } else {
            "K".into()
        }
    }
}

/// one work unit: a configuration, a mode of the constant, a range of symbol orders
#[derive(Clone, Debug)]
pub struct CUnit {
    pub config: usize,
    pub mode_idx: usize,
    pub sigma_lo: u64,
    pub sigma_hi: u64,
    /// true: every case runs with all name sets; false: the name set rotates
    pub all_sets: bool,
    /// false: every (symbol order, declaration order) pair; true: only the pairs
    /// with (symbol order index + declaration order index) divisible by 8, i.e.
    /// every symbol order with k!/8 declaration orders and vice versa
    pub diagonal: bool,
    /// false: the context read is the plain `cv`; true: the other access forms
    /// in rotation over the cases
    pub other_access: bool,
}

impl CUnit {
    fn k(&self) -> usize {
        let (l, h, _) = CONFIGS[self.config];
        l + h + 1
    }
    fn radices(&self) -> [u64; 3] {
        [
            self.sigma_hi - self.sigma_lo,
            if self.diagonal { factorial(self.k()) / 8 } else { factorial(self.k()) },
            if self.all_sets { N_SETS as u64 } else { 1 },
        ]
    }
    pub fn subs(&self) -> u64 {
        vcore::util::product(&self.radices())
    }
    pub fn decode(&self, sub: u64) -> Option<CCase> {
        if sub >= self.subs() {
            return None;
        }
        let d = vcore::util::decode(sub, &self.radices());
        let sigma_idx = self.sigma_lo + d[0];
        let perm_idx = if self.diagonal { 8 * d[1] + (8 - sigma_idx % 8) % 8 } else { d[1] };
        let set = if self.all_sets {
            d[2] as usize
        } else {
            ((sigma_idx + perm_idx / 8 + perm_idx + self.mode_idx as u64) % N_SETS as u64) as usize
        };
        Some(CCase {
            config: self.config,
            mode: CCase::modes(self.config)[self.mode_idx].clone(),
            perm: permutation(self.k(), perm_idx),
            sigma: permutation(self.k(), sigma_idx),
            set,
            access: if self.other_access {
                1 + ((3 * sigma_idx + 5 * perm_idx + self.mode_idx as u64) % (ACCESS.len() as u64 - 1)) as usize
            } else {
                0
            },
        })
    }
}

pub fn units(thorough: bool) -> Vec<CUnit> {
    let mut out = vec![];
    let configs: Vec<usize> =
        if thorough { (0..CONFIGS.len()).collect() } else { QUICK_CONFIGS.to_vec() };
    for config in configs {
        let (l, h, _) = CONFIGS[config];
        let k = l + h + 1;
        // quick: 5-item configurations on the diagonal slice, one name set per case;
        // thorough: full product; all name sets up to 4 items, one per case for 5 items
        let diagonal = !thorough && k == 5;
        let all_sets = thorough && k < 5;
        for other_access in [false, true] {
            // the non-plain access forms of 5-item configurations stay on the diagonal
            // slice in both tiers (the plain read keeps the full product in thorough)
            let diagonal = diagonal || (other_access && k == 5);
            let per_sigma =
                factorial(k) / if diagonal { 8 } else { 1 } * if all_sets { N_SETS as u64 } else { 1 };
            let chunk = (1500 / per_sigma).max(1);
            for mode_idx in 0..CCase::modes(config).len() {
                let mut lo = 0;
                while lo < factorial(k) {
                    let hi = (lo + chunk).min(factorial(k));
                    out.push(CUnit { config, mode_idx, sigma_lo: lo, sigma_hi: hi, all_sets, diagonal, other_access });
                    lo = hi;
                }
            }
        }
    }
    out
}

pub fn self_test() -> Result<(), String> {
    for s in name_sets() {
        let s = s.as_ref().map_err(|e| e.clone())?;
        let r: Vec<u32> = s.iter().map(|n| raw(n)).collect();
        if !r.windows(2).all(|w| w[0] < w[1] && w[0] >> 28 != w[1] >> 28) {
            return Err(format!("name set {s:?} is not sorted into distinct shards"));
        }
    }
    if permutation(3, 0) != vec![0, 1, 2] || permutation(3, 5) != vec![2, 1, 0] || factorial(5) != 120 {
        return Err("permutation decoding".into());
    }
    // step(d) = 1 + spin(d-1) + leaf(); spin(d) = 10 + step(d-1); leaf = 100 + cv
    let c = CCase { config: 1, mode: Mode::Enter(1), perm: vec![0, 1, 2, 3], sigma: vec![0, 1, 2, 3], set: 0, access: 0 };
    if !c.expect_reject() || c.val_c(1, 1) != 10 + 1 + 100 + CV || c.val_c(0, 2) != 1 + 100 + CV + 10 + 1 + 100 + CV {
        return Err("cycctx model self-test".into());
    }
    let d = CCase { config: 3, ..c.clone() };
    if d.expect_reject() || d.val_k() != 1000 + 10 + 1 {
        return Err("cycctx model self-test (detached)".into());
    }
    Ok(())
}
