//! C14 — constants are evaluated once, in dependency order, before any call.
//!
//! Enumerated: every labelled DAG on n declaration positions x every
//! constant/function assignment x every placement in `pkg` / `pkg.m` x every
//! reference form (family `dag`); the same graphs with one injected back edge
//! (family `cycle`); the same graphs with one node reading the context variable
//! directly or through k <= 2 functions (family `ctx`).
//!
//! Oracle: see `run_case`.

use roto::{Context, Ctx, FileSpec, FileTree, NoCtx, Package, RotoReport, Runtime, SourceFile};
use vcore::util::{catch, decode, fnv_str, mix};
use vcore::{Cfg, Check, Cx, Finding, Meta, SUB_SETUP, Tier, Value, Violation, json};

mod cycctx;
mod model;
mod mutc;
mod constcopy;
use cycctx::{CCase, CUnit};
use mutc::{MCase, MUnit};
use model::{CYCLE_FORMS, Case, Expect, FORMS, Family, dags};

#[derive(Clone, Context)]
pub struct CtxT {
    pub cv: i32,
    pub cs: roto::RotoString,
}

fn the_ctx() -> CtxT {
    CtxT { cv: model::CV as i32, cs: "ab".into() }
}

// ------------------------------------------------------------------ units

/// which placements of the n nodes over `pkg` / `pkg.m` a slice enumerates
#[derive(Clone, Copy, Debug, PartialEq)]
enum Places {
    /// all 2^n
    All,
    /// all in `pkg`, alternating (odd positions in `pkg.m`)
    Two,
    /// the 2^(n-1) placements with node 0 in `pkg`
    Node0Pkg,
    /// odd positions in `pkg.m`
    Alternating,
}

impl Places {
    fn count(self, n: usize) -> u64 {
        match self {
            Places::All => 1 << n,
            Places::Two => 2,
            Places::Node0Pkg => 1 << (n - 1),
            Places::Alternating => 1,
        }
    }
    fn get(self, n: usize, idx: u64) -> u32 {
        match self {
            Places::All => idx as u32,
            Places::Two => [0u32, 0b01010 & ((1 << n) - 1)][idx as usize],
            Places::Node0Pkg => (idx as u32) << 1,
            Places::Alternating => 0b01010 & ((1 << n) - 1),
        }
    }
    fn name(self) -> &'static str {
        match self {
            Places::All => "all 2^n",
            Places::Two => "all in pkg; odd positions in pkg.m",
            Places::Node0Pkg => "the 2^(n-1) placements with node 0 in pkg",
            Places::Alternating => "odd positions in pkg.m",
        }
    }
}

/// which constant/function assignments a slice enumerates
#[derive(Clone, Copy, Debug, PartialEq)]
enum Kinds {
    All,
}

impl Kinds {
    fn count(self, n: usize) -> u64 {
        match self {
            Kinds::All => 1 << n,
        }
    }
}

/// a slice of the enumeration: one family, n, form; `unit`s are chunks of its DAG table
#[derive(Clone, Debug)]
struct Slice {
    family: Family,
    n: usize,
    form: usize,
    places: Places,
    kinds: Kinds,
    /// index into model::ACCESS (family Ctx; 0 elsewhere)
    access: usize,
    /// index into model::CTYPES: the type of the constants (0 = i32)
    ctype: usize,
}

impl Slice {
    /// size of the last radix: back edge (u, v) / context read (x, k) / nothing
    fn extra(&self) -> u64 {
        match self.family {
            Family::Dag => 1,
            Family::Cycle => (self.n * self.n) as u64,
            Family::Ctx => (self.n * 3) as u64,
        }
    }
    fn per_dag(&self) -> u64 {
        self.kinds.count(self.n) * self.places.count(self.n) * self.extra()
    }
}

#[derive(Clone, Debug)]
struct Unit {
    slice: Slice,
    dag_lo: usize,
    dag_hi: usize,
}

impl Unit {
    fn subs(&self) -> u64 {
        (self.dag_hi - self.dag_lo) as u64 * self.slice.per_dag()
    }
    /// Rebuild case `sub` (None: the combination is not part of the family,
    /// e.g. (u, v) is not a back edge of this DAG).
    fn decode(&self, sub: u64) -> Option<Case> {
        let s = &self.slice;
        let n = s.n;
        let r = [
            (self.dag_hi - self.dag_lo) as u64,
            s.kinds.count(n),
            s.places.count(n),
            s.extra(),
        ];
        if sub >= vcore::util::product(&r) {
            return None;
        }
        let d = decode(sub, &r);
        let mut c = Case {
            family: s.family,
            n,
            edges: dags(n)[self.dag_lo + d[0] as usize],
            kinds: d[1] as u32,
            place: s.places.get(n, d[2]),
            form: s.form,
            back: None,
            ctx: None,
            access: s.access,
            ctype: s.ctype,
        };
        match s.family {
            Family::Dag => {}
            Family::Cycle => {
                let (u, v) = ((d[3] as usize) / n, (d[3] as usize) % n);
                if !c.valid_back(u, v) {
                    return None;
                }
                c.back = Some((u, v));
            }
            Family::Ctx => {
                c.ctx = Some(((d[3] as usize) / 3, (d[3] as usize) % 3));
            }
        }
        Some(c)
    }
}

fn slices(tier: Tier) -> Vec<Slice> {
    let mut v = vec![];
    let all_forms: Vec<usize> = (0..FORMS.len()).collect();
    let mut push_a = |family, n, forms: &[usize], places, access| {
        for f in forms {
            v.push(Slice { family, n, form: *f, places, kinds: Kinds::All, access, ctype: 0 });
        }
    };

    // the context read written in every other access form (the reference form and
    // the placements are restricted for these)
    for n in 1..=3 {
        for a in 1..model::ACCESS.len() {
            match tier {
                Tier::Quick => push_a(Family::Ctx, n, &[model::F_BARE], Places::Two, a),
                Tier::Thorough => push_a(Family::Ctx, n, &all_forms, Places::Two, a),
            }
        }
    }
    let mut push = |family, n, forms: &[usize], places| push_a(family, n, forms, places, 0);
    // complete part: n <= 3 (quick), n <= 4 for the dag family (thorough)
    for n in 1..=3 {
        push(Family::Dag, n, &all_forms, Places::All);
        push(Family::Cycle, n, &CYCLE_FORMS, Places::All);
        push(Family::Ctx, n, &all_forms, Places::All);
    }
    match tier {
        Tier::Quick => {
            // (budget: the other half of the placements, node 0 in pkg.m, is thorough only)
            push(Family::Dag, 4, &[model::F_BARE], Places::Node0Pkg);
        }
        Tier::Thorough => {
            push(Family::Dag, 4, &all_forms, Places::All);
            push(Family::Cycle, 4, &[model::F_BARE, model::F_HELPER], Places::Two);
            push(Family::Ctx, 4, &[model::F_BARE, model::F_HELPER], Places::Two);
            // (budget: one placement; 29 281 DAGs x 32 kinds = 937 k programs)
            push(Family::Dag, 5, &[model::F_BARE], Places::Alternating);
        }
    }
    // constants of every other TYPE (unit, option, record, string, list, zero-sized
    // registered type, bool): the complete n <= 3 dag family in two reference forms
    for n in 1..=3 {
        for t in 1..model::CTYPES.len() {
            for f in [model::F_BARE, model::F_HELPER] {
                v.push(Slice { family: Family::Dag, n, form: f, places: Places::Two, kinds: Kinds::All, access: 0, ctype: t });
            }
        }
    }
    v
}

/// a work unit of either enumeration
#[derive(Clone, Debug)]
enum AnyUnit {
    Graph(Unit),
    CycCtx(CUnit),
    Mut(MUnit),
    /// the whole family `copy` (constcopy.rs)
    Copy,
}

fn unit_table(tier: Tier) -> Vec<AnyUnit> {
    let mut out = vec![];
    let mut cyc_done = false;
    for s in slices(tier) {
        if s.n > 3 && !cyc_done {
            // after the complete n <= 3 part, before the large slices
            out.extend(cycctx::units(tier == Tier::Thorough).into_iter().map(AnyUnit::CycCtx));
            out.extend(mutc::units(tier == Tier::Thorough).into_iter().map(AnyUnit::Mut));
            out.push(AnyUnit::Copy);
            cyc_done = true;
        }
        let total = model::DAG_COUNTS[s.n];
        let chunk = ((1500 / s.per_dag()).max(1)) as usize;
        let mut lo = 0;
        while lo < total {
            let hi = (lo + chunk).min(total);
            out.push(AnyUnit::Graph(Unit { slice: s.clone(), dag_lo: lo, dag_hi: hi }));
            lo = hi;
        }
    }
    out
}

// ------------------------------------------------------------------ running

fn sf(name: &str, src: &str) -> SourceFile {
    SourceFile {
        name: format!("{name}.roto"),
        module_name: name.into(),
        contents: src.into(),
        location_offset: 0,
        children: vec![],
    }
}

fn tree(pkg: &str, m: &str) -> FileTree {
    FileTree::file_spec(FileSpec::Directory(sf("pkg", pkg), vec![FileSpec::File(sf("m", m))]))
}

enum Compiled<P> {
    Ok(P),
    /// (rendered report, error kinds)
    Report(String, Vec<&'static str>),
    Panic(String),
}

fn finish_compile<P>(r: Result<Result<P, RotoReport>, String>) -> Compiled<P> {
    match r {
        Ok(Ok(p)) => Compiled::Ok(p),
        Ok(Err(rep)) => {
            let kinds = rep.verif_kinds();
            let mut s = String::new();
            match catch(|| rep.write(&mut s, false)) {
                Ok(_) => Compiled::Report(s, kinds),
                Err(p) => Compiled::Panic(format!("while rendering report: {p}")),
            }
        }
        Err(p) => Compiled::Panic(p),
    }
}

/// the two runtimes (without / with a context type) behind one interface
trait Env {
    type Pkg;
    fn compile(&self, pkg: &str, m: &str) -> Compiled<Self::Pkg>;
    /// parse and type check only (the stage that has to reject)
    fn typecheck_only(&self, pkg: &str, m: &str) -> Compiled<()>;
    fn call0(p: &mut Self::Pkg, name: &str) -> Result<i32, String>;
    fn call1(p: &mut Self::Pkg, name: &str, d: i32) -> Result<i32, String>;
}

struct Plain(Runtime<NoCtx>);
struct WithCtx(Runtime<Ctx<CtxT>>);


impl Env for Plain {
    type Pkg = Package<NoCtx>;
    fn compile(&self, pkg: &str, m: &str) -> Compiled<Self::Pkg> {
        finish_compile(catch(|| tree(pkg, m).compile(&self.0)))
    }
    fn typecheck_only(&self, pkg: &str, m: &str) -> Compiled<()> {
        finish_compile(catch(|| tree(pkg, m).parse().and_then(|p| p.typecheck(&self.0).map(|_| ()))))
    }
    fn call0(p: &mut Self::Pkg, name: &str) -> Result<i32, String> {
        match catch(|| p.get_function::<fn() -> i32>(name)) {
            Ok(Ok(f)) => Ok(f.call()),
            Ok(Err(e)) => Err(format!("get_function: {e}")),
            Err(e) => Err(format!("get_function panicked: {e}")),
        }
    }
    fn call1(p: &mut Self::Pkg, name: &str, d: i32) -> Result<i32, String> {
        match catch(|| p.get_function::<fn(i32) -> i32>(name)) {
            Ok(Ok(f)) => Ok(f.call(d)),
            Ok(Err(e)) => Err(format!("get_function: {e}")),
            Err(e) => Err(format!("get_function panicked: {e}")),
        }
    }
}

impl Env for WithCtx {
    type Pkg = Package<Ctx<CtxT>>;
    fn compile(&self, pkg: &str, m: &str) -> Compiled<Self::Pkg> {
        finish_compile(catch(|| tree(pkg, m).compile(&self.0)))
    }
    fn typecheck_only(&self, pkg: &str, m: &str) -> Compiled<()> {
        finish_compile(catch(|| tree(pkg, m).parse().and_then(|p| p.typecheck(&self.0).map(|_| ()))))
    }
    fn call0(p: &mut Self::Pkg, name: &str) -> Result<i32, String> {
        let mut c = the_ctx();
        match catch(|| p.get_function::<fn() -> i32>(name)) {
            Ok(Ok(f)) => Ok(f.call(&mut c)),
            Ok(Err(e)) => Err(format!("get_function: {e}")),
            Err(e) => Err(format!("get_function panicked: {e}")),
        }
    }
    fn call1(p: &mut Self::Pkg, name: &str, d: i32) -> Result<i32, String> {
        let mut c = the_ctx();
        match catch(|| p.get_function::<fn(i32) -> i32>(name)) {
            Ok(Ok(f)) => Ok(f.call(&mut c, d)),
            Ok(Err(e)) => Err(format!("get_function: {e}")),
            Err(e) => Err(format!("get_function panicked: {e}")),
        }
    }
}

fn case_json(c: &Case) -> Value {
    let (pkg, m) = c.sources();
    let kinds: String = (0..c.n).map(|i| if c.is_fn(i) { 'F' } else { 'C' }).collect();
    let place: String = (0..c.n).map(|i| if c.in_m(i) { 'm' } else { 'p' }).collect();
    let exp = c.expect();
    json!({
        "family": c.family.name(),
        "n": c.n,
        "edges": c.edge_list().iter().map(|(i, j)| format!("{i}->{j}")).collect::<Vec<_>>(),
        "kinds": kinds,
        "place": place,
        "form": FORMS[c.form],
        "back_edge": c.back.map(|(u, v)| format!("{u}->{v}")),
        "constant_type": model::CTYPES[c.ctype],
        "ctx_read": c.ctx.map(|(x, k)| json!({"node": x, "through_functions": k, "access": model::ACCESS[c.access]})),
        "expect": format!("{exp:?}"),
        "pkg.roto": pkg,
        "m.roto": m,
    })
}

fn marks(log: &[host::Ev]) -> Vec<Value> {
    log.iter()
        .map(|e| match e {
            host::Ev::Mark(k) => json!(k),
            other => json!(format!("{other:?}")),
        })
        .collect()
}

/// Oracle of one case.
///
/// rejected graph: compile returns a report made of type errors (not a panic)
///   and no `e(..)` ran;
/// accepted graph: compile succeeds; during compile every constant's `e(tag)`
///   ran exactly once and after the `e` of every constant it reaches; then every
///   function / getter returns the model's value and nothing more is logged.
fn run_case<E: Env>(env: &E, c: &Case, sub: u64, cx: &mut Cx) {
    let (pkg, m) = c.sources();
    let expect = c.expect();
    cx.states(1);
    let key = fnv_str(&format!("{}|{pkg}|{m}", c.family.name()));
    let nontrivial = match c.family {
        Family::Dag => c.has_const_const_dep(),
        _ => true,
    };
    if nontrivial {
        cx.nontrivial(key);
    }
    if c.n >= 3 && c.edges.count_ones() >= 3 && nontrivial && key % 61 == 0 {
        cx.sample(case_json(c));
    }
    cx.count(
        &format!("cases:{}:{}", c.family.name(), if expect == Expect::Accept { "accept" } else { "reject" }),
        1,
    );
    if c.family == Family::Ctx {
        cx.set("ctx_access", c.access as u64);
    }
    host::clear_log();
    cx.transitions(1);
    cx.validated(1);
    let mut outcome = mix(0x14, expect.clone() as u64);
    if expect == Expect::RejectCtx {
        // A wrongly accepted program would run a context read with a null context
        // when compiled in full, so acceptance is judged at the stage that has to
        // reject: parse + type check (exactly what a full compile does up to there).
        let r = env.typecheck_only(&pkg, &m);
        let log = host::take_log();
        match r {
            Compiled::Panic(msg) => {
                cx.violation("panic", sub, case_json(c), json!("RejectCtx without a panic"), json!(msg))
            }
            Compiled::Ok(()) => cx.violation(
                "accepted",
                sub,
                case_json(c),
                json!("RejectCtx: a compile error before any constant is evaluated"),
                json!({"type_checked": true}),
            ),
            Compiled::Report(rep, kinds) => {
                cx.count(&format!("reject: {}", normalise(&rep)), 1);
                if kinds.iter().any(|k| *k != "type") || kinds.is_empty() {
                    cx.violation("reject_not_type_error", sub, case_json(c), json!("type error"), json!(rep));
                }
                if !log.is_empty() {
                    cx.violation(
                        "evaluated_before_reject",
                        sub,
                        case_json(c),
                        json!("no constant initialiser runs when the program is rejected"),
                        json!({"log": marks(&log), "report": rep}),
                    );
                }
                cx.outcome(outcome);
            }
        }
        return;
    }
    let compiled = env.compile(&pkg, &m);
    let log = host::take_log();

    let mut p = match (compiled, &expect) {
        (Compiled::Panic(msg), _) => {
            cx.violation("panic", sub, case_json(c), json!(format!("{expect:?} without a panic")), json!(msg));
            return;
        }
        (Compiled::Report(rep, kinds), Expect::Accept) => {
            let _ = kinds;
            cx.violation("rejected", sub, case_json(c), json!("compiles"), json!(rep));
            return;
        }
        (Compiled::Ok(_), Expect::RejectCycle | Expect::RejectCtx) => {
            cx.violation(
                "accepted",
                sub,
                case_json(c),
                json!(format!("{expect:?}: a compile error before any constant is evaluated")),
                json!({"compiled": true, "log": marks(&log)}),
            );
            return;
        }
        (Compiled::Report(rep, kinds), _) => {
            cx.count(&format!("reject: {}", normalise(&rep)), 1);
            if kinds.iter().any(|k| *k != "type") || kinds.is_empty() {
                // a parse/read error would be a generator bug, not a verdict
                cx.violation("reject_not_type_error", sub, case_json(c), json!("type error"), json!(rep));
            }
            if !log.is_empty() {
                cx.violation(
                    "evaluated_before_reject",
                    sub,
                    case_json(c),
                    json!("no constant initialiser runs when the program is rejected"),
                    json!({"log": marks(&log), "report": rep}),
                );
            }
            cx.outcome(outcome);
            return;
        }
        (Compiled::Ok(p), Expect::Accept) => p,
    };

    // --- evaluation count and order
    let consts: Vec<usize> = (0..c.n).filter(|i| !c.is_fn(*i)).collect();
    let mut pos: Vec<Vec<usize>> = vec![vec![]; c.n];
    let mut foreign = false;
    for (at, ev) in log.iter().enumerate() {
        match ev {
            host::Ev::Mark(k) => match consts.iter().find(|i| Case::tag(**i) == *k as i64) {
                Some(i) => pos[*i].push(at),
                None => foreign = true,
            },
            _ => foreign = true,
        }
    }
    let once = consts.iter().all(|i| pos[*i].len() == 1);
    if foreign || !once {
        cx.violation(
            "eval_count",
            sub,
            case_json(c),
            json!({"each of these exactly once during compile": consts.iter().map(|i| Case::tag(*i)).collect::<Vec<_>>()}),
            json!({"log": marks(&log)}),
        );
    } else {
        for i in &consts {
            for j in c.const_deps(*i) {
                if pos[j][0] > pos[*i][0] {
                    cx.violation(
                        "eval_order",
                        sub,
                        case_json(c),
                        json!(format!("e({}) of C{j} before e({}) of C{i}, which depends on it", Case::tag(j), Case::tag(*i))),
                        json!({"log": marks(&log)}),
                    );
                    break;
                }
            }
        }
    }

    // --- values seen afterwards
    let depths: &[i64] = if c.with_depth() { &[0, 1, 2] } else { &[0] };
    let mut bad: Vec<Value> = vec![];
    for i in 0..c.n {
        let name = c.probe_name(i);
        for d in depths {
            if !c.is_fn(i) && *d != 0 {
                continue;
            }
            let got = if c.is_fn(i) && c.with_depth() {
                E::call1(&mut p, &name, *d as i32)
            } else {
                E::call0(&mut p, &name)
            };
            cx.transitions(1);
            let want = c.val(i, *d);
            match got {
                Ok(g) => {
                    outcome = mix(outcome, g as u64);
                    if g as i64 != want {
                        bad.push(json!({"probe": name, "d": d, "expected": want, "observed": g}));
                    }
                }
                Err(e) => bad.push(json!({"probe": name, "d": d, "expected": want, "observed": e})),
            }
        }
    }
    if !bad.is_empty() {
        cx.violation(
            "value",
            sub,
            case_json(c),
            json!("every function and constant getter returns the model's value"),
            json!({"wrong": bad, "compile_log": marks(&log)}),
        );
    }
    let late = host::take_log();
    if !late.is_empty() {
        cx.violation(
            "late_eval",
            sub,
            case_json(c),
            json!("nothing is logged after compile (functions do not call e)"),
            json!({"log_after_compile": marks(&late)}),
        );
    }
    cx.outcome(outcome);
}

fn run<E: Env>(env: &E, u: &Unit, cx: &mut Cx) {
    for sub in 0..u.subs() {
        let Some(c) = u.decode(sub) else { continue };
        if !cx.case(sub) {
            continue;
        }
        run_case(env, &c, sub, cx);
    }
}

// ------------------------------------------------------------------ cycctx

fn ccase_json(c: &CCase) -> Value {
    let k = c.k();
    let decl: Vec<String> = (0..k).map(|p| c.role_label(c.perm[p])).collect();
    let mut by_symbol: Vec<(usize, String)> =
        (0..k).map(|r| (c.sigma[r], format!("{}={}", c.role_label(r), c.role_name(r)))).collect();
    by_symbol.sort();
    json!({
        "family": "cycctx",
        "cycle_len": c.l(),
        "hops_to_context_read": c.hops(),
        "reader_attached_to_cycle": c.attached(),
        "constant": format!("{:?}", c.mode),
        "declaration_order": decl,
        "symbol_order": by_symbol.into_iter().map(|x| x.1).collect::<Vec<_>>(),
        "name_set": c.set,
        "ctx_access": model::ACCESS[c.access],
        "expect": if c.expect_reject() { "RejectCtx" } else { "Accept" },
        "pkg.roto": c.source(),
        "m.roto": "",
    })
}

/// Oracle of a cycctx case: rejected (type error, nothing evaluated) iff the
/// constant transitively reaches the context read; otherwise compiled in full,
/// the constant evaluated exactly once during compile and every function
/// returns the model's value.
fn run_ccase(env: &WithCtx, c: &CCase, sub: u64, cx: &mut Cx) {
    let src = c.source();
    cx.states(1);
    let key = fnv_str(&format!("cycctx|{src}"));
    cx.nontrivial(key);
    if key % 257 == 0 && c.k() >= 4 {
        cx.sample(ccase_json(c));
    }
    let reject = c.expect_reject();
    cx.count(&format!("cases:cycctx:{}", if reject { "reject" } else { "accept" }), 1);
    cx.set("cycctx_symbol_orders", mix(c.config as u64, c.sigma.iter().fold(0, |a, x| a * 8 + *x as u64)));
    cx.set("cycctx_decl_orders", mix(c.config as u64, c.perm.iter().fold(0, |a, x| a * 8 + *x as u64)));
    cx.set("cycctx_name_sets", c.set as u64);
    cx.set("cycctx_access", c.access as u64);
    host::clear_log();
    cx.transitions(1);
    cx.validated(1);
    if reject {
        let r = env.typecheck_only(&src, "");
        let log = host::take_log();
        match r {
            Compiled::Panic(msg) => {
                cx.violation("panic", sub, ccase_json(c), json!("RejectCtx without a panic"), json!(msg))
            }
            Compiled::Ok(()) => cx.violation(
                "accepted",
                sub,
                ccase_json(c),
                json!("RejectCtx: the constant transitively reads a context variable"),
                json!({"type_checked": true}),
            ),
            Compiled::Report(rep, kinds) => {
                cx.count(&format!("reject: {}", normalise(&rep)), 1);
                if kinds.iter().any(|k| *k != "type") || kinds.is_empty() {
                    cx.violation("reject_not_type_error", sub, ccase_json(c), json!("type error"), json!(rep));
                }
                if !log.is_empty() {
                    cx.violation(
                        "evaluated_before_reject",
                        sub,
                        ccase_json(c),
                        json!("nothing runs"),
                        json!({"log": marks(&log)}),
                    );
                }
                cx.outcome(mix(0x15, 1));
            }
        }
        return;
    }
    let compiled = env.compile(&src, "");
    let log = host::take_log();
    let mut p = match compiled {
        Compiled::Panic(msg) => {
            cx.violation("panic", sub, ccase_json(c), json!("Accept without a panic"), json!(msg));
            return;
        }
        Compiled::Report(rep, _) => {
            cx.violation("rejected", sub, ccase_json(c), json!("compiles"), json!(rep));
            return;
        }
        Compiled::Ok(p) => p,
    };
    let want_log = vec![host::Ev::Mark(CCase::tag(c.k() - 1) as i32)];
    if log != want_log {
        cx.violation(
            "eval_count",
            sub,
            ccase_json(c),
            json!({"log": marks(&want_log)}),
            json!({"log": marks(&log)}),
        );
    }
    let mut bad = vec![];
    let mut outcome = mix(0x15, 0);
    for (name, d, want) in c.probes() {
        let got = match d {
            Some(d) => WithCtx::call1(&mut p, &name, d as i32),
            None => WithCtx::call0(&mut p, &name),
        };
        cx.transitions(1);
        match got {
            Ok(g) => {
                outcome = mix(outcome, g as u64);
                if g as i64 != want {
                    bad.push(json!({"probe": name, "d": d, "expected": want, "observed": g}));
                }
            }
            Err(e) => bad.push(json!({"probe": name, "d": d, "expected": want, "observed": e})),
        }
    }
    if !bad.is_empty() {
        cx.violation("value", sub, ccase_json(c), json!("the model's values"), json!({"wrong": bad}));
    }
    let late = host::take_log();
    if !late.is_empty() {
        cx.violation(
            "late_eval",
            sub,
            ccase_json(c),
            json!("nothing is logged after compile"),
            json!({"log_after_compile": marks(&late)}),
        );
    }
    cx.outcome(outcome);
}

/// first line of a report with the quoted names and digits blanked
fn normalise(report: &str) -> String {
    let l = report.lines().next().unwrap_or("");
    let mut out = String::new();
    let mut quoted = false;
    for ch in l.chars() {
        if ch == '`' {
            quoted = !quoted;
            out.push(ch);
        } else if quoted {
            if !out.ends_with('_') {
                out.push('_');
            }
        } else {
            out.push(ch);
        }
    }
    out
}

// ------------------------------------------------------------------ mut

fn mcase_json(c: &MCase) -> Value {
    let kinds: String = (0..c.n).map(|i| if c.is_fn(i) { 'F' } else { 'C' }).collect();
    let mut edges = vec![];
    for i in 0..c.n {
        for j in 0..c.n {
            if c.dep(i, j) {
                edges.push(format!("{i}->{j}"));
            }
        }
    }
    let mut by_symbol: Vec<(usize, String)> = (0..=c.n)
        .map(|r| (c.sigma[r], format!("{}={}", if r == c.n { "L".to_string() } else { format!("X{r}") }, c.name(r))))
        .collect();
    by_symbol.sort();
    json!({
        "family": "mut",
        "n": c.n,
        "container": mutc::CONTAINERS[c.container],
        "edges": edges,
        "kinds": kinds,
        "access_to_container": c.access.iter().map(|a| mutc::ACC[*a]).collect::<Vec<_>>(),
        "has_mutating_edge": c.has_mutating_edge(),
        "mutate_through_local_alias": c.alias,
        "container_declared_at": c.lpos,
        "symbol_order": by_symbol.into_iter().map(|x| x.1).collect::<Vec<_>>(),
        "name_set": c.set,
        "expect": "Accept",
        "pkg.roto": c.source(),
        "m.roto": "",
    })
}

fn call_u64(p: &mut Package<NoCtx>, name: &str) -> Result<u64, String> {
    match catch(|| p.get_function::<fn() -> u64>(name)) {
        Ok(Ok(f)) => Ok(f.call()),
        Ok(Err(e)) => Err(format!("get_function: {e}")),
        Err(e) => Err(format!("get_function panicked: {e}")),
    }
}

/// Oracle of a mut case: compiles; every constant's mark is logged once, after
/// the marks of the constants it reaches (the container included); every probe
/// returns the reference value, on the first and on the second round of calls.
fn run_mcase(env: &Plain, c: &MCase, sub: u64, cx: &mut Cx) -> Option<u64> {
    let src = c.source();
    cx.states(1);
    let key = fnv_str(&format!("mut|{src}"));
    if (0..c.n).any(|i| c.access[i] != 0) {
        cx.nontrivial(key);
    }
    if key % 509 == 0 && c.n >= 2 {
        cx.sample(mcase_json(c));
    }
    cx.count(if c.has_mutating_edge() { "cases:mut:with_mutating_edge" } else { "cases:mut:read_only" }, 1);
    cx.set("mut_sigma", mix(c.n as u64, c.sigma.iter().fold(0, |a, x| a * 8 + *x as u64)));
    host::clear_log();
    cx.transitions(1);
    cx.validated(1);
    let compiled = env.compile(&src, "");
    let log = host::take_log();
    let mut p = match compiled {
        Compiled::Panic(msg) => {
            cx.violation("panic", sub, mcase_json(c), json!("Accept without a panic"), json!(msg));
            return None;
        }
        Compiled::Report(rep, _) => {
            cx.violation("rejected", sub, mcase_json(c), json!("compiles"), json!(rep));
            return None;
        }
        Compiled::Ok(p) => p,
    };
    // marks: container 1, constant X_i i+2
    let mut want: Vec<i32> = vec![MCase::L_MARK];
    want.extend((0..c.n).filter(|i| !c.is_fn(*i)).map(MCase::mark));
    let got: Vec<i32> = log.iter().map(|e| if let host::Ev::Mark(k) = e { *k } else { -1 }).collect();
    let mut sorted = got.clone();
    sorted.sort();
    if sorted != want {
        cx.violation("eval_count", sub, mcase_json(c), json!({"each once": want}), json!({"log": marks(&log)}));
    } else {
        let pos = |m: i32| got.iter().position(|x| *x == m).unwrap();
        'order: for i in (0..c.n).filter(|i| !c.is_fn(*i)) {
            for j in c.before(i) {
                let mj = if j == c.n { MCase::L_MARK } else { MCase::mark(j) };
                if pos(mj) > pos(MCase::mark(i)) {
                    cx.violation(
                        "eval_order",
                        sub,
                        mcase_json(c),
                        json!(format!("e({mj}) before e({})", MCase::mark(i))),
                        json!({"log": marks(&log)}),
                    );
                    break 'order;
                }
            }
        }
    }
    let mut bad = vec![];
    let mut outcome = mix(0x16, 0);
    for round in 1..=2 {
        for (name, want, touches) in c.probes() {
            let got = call_u64(&mut p, &name);
            cx.transitions(1);
            match got {
                Ok(g) => {
                    outcome = mix(outcome, g);
                    if g as i64 != want {
                        bad.push(json!({"probe": name, "round": round, "expected": want, "observed": g,
                                        "touches_container": touches}));
                    }
                }
                Err(e) => bad.push(json!({"probe": name, "round": round, "expected": want, "observed": e,
                                          "touches_container": touches})),
            }
        }
    }
    if !bad.is_empty() {
        cx.violation(
            "value",
            sub,
            mcase_json(c),
            json!("every probe returns the reference value on both rounds of calls (a constant is one value)"),
            json!({"wrong": bad, "compile_log": marks(&log)}),
        );
    }
    let late = host::take_log();
    if !late.is_empty() {
        cx.violation("late_eval", sub, mcase_json(c), json!("nothing is logged after compile"), json!({"log_after_compile": marks(&late)}));
    }
    cx.outcome(outcome);
    Some(outcome)
}

// ------------------------------------------------------------------ check

struct C14;

impl Check for C14 {
    fn id(&self) -> &'static str {
        "C14"
    }
    fn units(&self, cfg: &Cfg) -> usize {
        unit_table(cfg.tier).len()
    }
    fn run_unit(&self, unit: usize, cx: &mut Cx) {
        let u = unit_table(cx.cfg.tier)[unit].clone();
        if !cx.case(SUB_SETUP) {
            return;
        }
        let u = match u {
            AnyUnit::Graph(u) => u,
            AnyUnit::Copy => {
                constcopy::run(cx);
                return;
            }
            AnyUnit::Mut(u) => {
                let env = Plain(host::runtime());
                // observed values per graph configuration: its cases differ only in the
                // names / name order (and, for n <= 2, position and type of the container)
                let mut seen: std::collections::HashMap<(u64, usize, usize), (u64, bool)> = Default::default();
                for sub in 0..u.subs() {
                    let Some((cfg, c)) = u.decode(sub) else { continue };
                    if !cx.case(sub) {
                        continue;
                    }
                    if let Some(o) = run_mcase(&env, &c, sub, cx) {
                        let e = seen.entry((cfg, c.container, c.lpos)).or_insert((o, false));
                        if e.0 != o && !e.1 {
                            e.1 = true;
                            cx.count("mut:configurations_whose_values_depend_on_the_names", 1);
                            cx.note(format!(
                                "values depend on the names only: {}",
                                c.source().replace('\n', " ")
                            ));
                        }
                    }
                }
                return;
            }
            AnyUnit::CycCtx(u) => {
                let env = match host::runtime().with_context_type::<CtxT>() {
                    Ok(rt) => WithCtx(rt),
                    Err(e) => {
                        cx.violation("setup", SUB_SETUP, json!("with_context_type"), json!("Ok"), json!(e));
                        return;
                    }
                };
                for sub in 0..u.subs() {
                    let Some(c) = u.decode(sub) else { continue };
                    if !cx.case(sub) {
                        continue;
                    }
                    run_ccase(&env, &c, sub, cx);
                }
                return;
            }
        };
        match u.slice.family {
            Family::Ctx => {
                let rt = match host::runtime().with_context_type::<CtxT>() {
                    Ok(rt) => rt,
                    Err(e) => {
                        cx.violation("setup", SUB_SETUP, json!("with_context_type"), json!("Ok"), json!(e));
                        return;
                    }
                };
                run(&WithCtx(rt), &u, cx)
            }
            _ => run(&Plain(host::runtime()), &u, cx),
        }
    }
    fn describe(&self, cfg: &Cfg, unit: usize, sub: u64) -> Value {
        let u = unit_table(cfg.tier)[unit].clone();
        if sub == SUB_SETUP {
            return json!({"kind": "setup", "unit": format!("{u:?}")});
        }
        let u = match u {
            AnyUnit::Graph(u) => u,
            AnyUnit::Copy => return constcopy::describe(sub as usize),
            AnyUnit::Mut(u) => {
                return match u.decode(sub) {
                    Some((_, c)) => mcase_json(&c),
                    None => json!({"kind": "not a case", "unit": unit, "sub": sub.to_string()}),
                };
            }
            AnyUnit::CycCtx(u) => {
                return match u.decode(sub) {
                    Some(c) => ccase_json(&c),
                    None => json!({"kind": "not a case", "unit": unit, "sub": sub.to_string()}),
                };
            }
        };
        match u.decode(sub) {
            Some(c) => case_json(&c),
            None => json!({"kind": "not a case", "unit": unit, "sub": sub.to_string()}),
        }
    }
    fn matches(&self, f: &Finding, v: &Violation) -> bool {
        let c = &v.case;
        match f.matcher.as_str() {
            // A List / StringBuf constant is a shared mutable object: the program has
            // a mutating edge into the container constant and the only thing wrong is
            // the value of probes that touch the container.
            "mutating_edge_into_container_constant" => {
                v.class == "value"
                    && c["family"] == "mut"
                    && c["has_mutating_edge"] == true
                    && v.observed["wrong"].as_array().is_some_and(|w| {
                        !w.is_empty()
                            && w.iter().all(|x| x["touches_container"] == true && x["observed"].is_u64())
                    })
            }
            _ => false,
        }
    }
    fn meta(&self, cfg: &Cfg) -> Meta {
        let sl: Vec<Value> = slices(cfg.tier)
            .iter()
            .map(|s| {
                json!({"family": s.family.name(), "n": s.n, "form": FORMS[s.form],
                       "labelled_dags": model::DAG_COUNTS[s.n], "kinds": "all 2^n",
                       "constant_type": model::CTYPES[s.ctype],
                       "context_access": if s.family == Family::Ctx { Some(model::ACCESS[s.access]) } else { None },
                       "placements": s.places.name()})
            })
            .collect();
        Meta {
            rule: "every labelled DAG on n declaration positions x constant/function per node x module (pkg / pkg.m) per node x reference form (family dag); x every back edge (u,v) with v reaching u or u == v (family cycle); x every node x k in 0..=2 functions between the node and the context variable (family ctx). A dag-family program is non-trivial when some constant transitively depends on another constant (its evaluation order is constrained); every cycle/ctx program is non-trivial by construction. In the ctx and cycctx families the one context read is additionally written in each access form of bounds.context_access_forms (method call on the context variable with and without arguments, as f-string receiver, call argument, operand, parenthesised receiver, method argument). Family cycctx: ring of L in {2,3} mutually recursive functions, one context read attached to ring member c0 directly or through 1-2 non-cycle functions (or detached from the ring), one constant entering the ring through each member in turn / calling each non-cycle function / mentioning nothing, x every declaration order of the k <= 5 items x every relative order of their interned names (k! assignments of spellings lying in pairwise different symbol shards) x name set (see bounds.cycctx for the per-tier pairing); every cycctx program is non-trivial. Family mut: container constant L (List[i32] / StringBuf) + n <= 3 u64 constants/functions over all labelled DAGs, each with access none/read/mutate to L; a mut program is non-trivial when some node accesses L".into(),
            assumptions: vec![
                "constants and functions are i32-valued; each constant is e(10^i) + sum of its references, each function 10^i + sum of its references".into(),
                "two modules (pkg and pkg.m); helper, getter and context-reading functions are declared after the enumerated nodes of their module".into(),
                "the cycle family leaves out the two string-valued forms (fstring, method): function values depend on the depth parameter there".into(),
                "no order is demanded among constants that do not depend on each other".into(),
                "family mut: reference semantics = a constant is one value: every read of a List/StringBuf constant yields its initial value (so values cannot depend on declaration order, names, earlier compilations or earlier calls); mutating methods on a field of a record constant (R.l.push) and List.swap are not enumerated".into(),
                "dependency chains are at most 5 items long; the recursion depth of the type checker's graph walks (stack overflow for chains of >~15 000 items declared top-down, audit V2) is outside these bounds".into(),
                "programs predicted RejectCtx are parsed and type checked only (a wrongly accepted one would read a null context when compiled in full); field access on a context variable is not enumerated: context fields must be registered host types, which have no script-visible fields".into(),
                "cycctx programs predicted to be rejected are parsed and type checked only (the rejecting stage); accepted ones are compiled and run in full".into(),
            ],
            bounds: json!({"slices": sl, "forms": FORMS, "context_distance_k": [0, 1, 2], "context_access_forms": model::ACCESS,
                           "context_type": "{ cv: i32 = 100000, cs: String = \"ab\" }",
                           "recursion_depths_called": [0, 1, 2],
                           "mut": {"nodes_besides_container": [1, 2, 3], "dependencies": "all labelled DAGs", "kinds": "all 2^n",
                                   "access_per_node": mutc::ACC, "containers": mutc::CONTAINERS,
                                   "name_orders": cfg.tier.pick("n <= 2: all (n+1)!; n = 3: one order and its reverse per graph, in rotation over all 24", "all (n+1)!"),
                                   "container_position_and_type": "n <= 2: all; n = 3: in rotation",
                                   "mutate_form": "L.push(..) / let l = L; l.push(..) in rotation",
                                   "rounds_of_calls": 2},
                           "cycctx": {
                               "configurations (cycle length, hops, attached)": match cfg.tier {
                                   Tier::Quick => cycctx::QUICK_CONFIGS.iter().map(|c| json!(cycctx::CONFIGS[*c])).collect::<Vec<_>>(),
                                   Tier::Thorough => cycctx::CONFIGS.iter().map(|c| json!(c)).collect::<Vec<_>>(),
                               },
                               "declaration_orders": "all k!", "symbol_orders": "all k!",
                               "order_pairs": cfg.tier.pick("k <= 4: all k! x k!; k = 5: the 1800 pairs with (i + j) % 8 == 0", "all k! x k! (non-plain access forms with k = 5: the 1800 pairs with (i + j) % 8 == 0)"),
                               "access_forms": "every case once with the plain read and once with one of the 9 other access forms in rotation",
                               "name_sets": cycctx::name_sets().iter().map(|s| json!(s.as_ref().ok())).collect::<Vec<_>>(),
                               "name_sets_per_case": cfg.tier.pick("1 of 8 in rotation", "k <= 4: all 8; k = 5: 1 of 8 in rotation"),
                               "rejected_cases_stop_after_type_checking": true}}),
            states_are: "distinct generated programs (graph, kinds, placement, form, back edge / context read)".into(),
            transitions_are: "compilations plus calls of compiled functions".into(),
        }
    }
    fn preflight(&self, cfg: &Cfg) -> Result<(), String> {
        model::self_test(cfg.tier.pick(4, 5))?;
        cycctx::self_test()?;
        mutc::self_test()?;
        // read-only programs of the mut family must compile for both containers
        let plain = Plain(host::runtime());
        for container in 0..2 {
            let c = MCase {
                n: 2,
                edges: 1 << 1, // X0 -> X1
                kinds: 0b10,
                access: vec![1, 1],
                lpos: 1,
                sigma: vec![2, 0, 1],
                set: container,
                container,
                alias: false,
            };
            match plain.compile(&c.source(), "") {
                Compiled::Ok(_) => {}
                // (not a machinery error: on a changed tree this IS the violation, and the units
                // that run the same programs report it; seeded change C14-6 ended here with exit 2)
                Compiled::Report(r, _) => eprintln!("C14 preflight note: a read-only program of the mut family is rejected: {}\n{r}", c.source()),
                Compiled::Panic(p) => eprintln!("C14 preflight note: a read-only program of the mut family panics the compiler: {}\n{p}", c.source()),
            }
        }
        // every name set must be usable for every role: one accepted program per
        // (configuration, name set) has to compile
        let env = WithCtx(host::runtime().with_context_type::<CtxT>()?);
        for config in 0..cycctx::CONFIGS.len() {
            for set in 0..cycctx::N_SETS {
                let (l, h, _) = cycctx::CONFIGS[config];
                let k = l + h + 1;
                let c = CCase {
                    config,
                    mode: cycctx::Mode::Pure,
                    perm: (0..k).rev().collect(),
                    sigma: (0..k).rev().collect(),
                    set,
                    access: (config * cycctx::N_SETS + set) % model::ACCESS.len(),
                };
                match env.compile(&c.source(), "") {
                    Compiled::Ok(_) => {}
                    Compiled::Report(r, _) => eprintln!("C14 preflight note: an accepted cycctx program is rejected: {}\n{r}", c.source()),
                    Compiled::Panic(p) => eprintln!("C14 preflight note: an accepted cycctx program panics the compiler: {}\n{p}", c.source()),
                }
            }
        }
        host::clear_log();
        Ok(())
    }
    fn finish(&self, cfg: &Cfg, agg: &mut vcore::Aggregate) {
        // every relative symbol order of every enumerated configuration must have occurred
        let configs: Vec<usize> = match cfg.tier {
            Tier::Quick => cycctx::QUICK_CONFIGS.to_vec(),
            Tier::Thorough => (0..cycctx::CONFIGS.len()).collect(),
        };
        let want: u64 = configs
            .iter()
            .map(|c| cycctx::factorial(cycctx::CONFIGS[*c].0 + cycctx::CONFIGS[*c].1 + 1))
            .sum();
        for what in ["cycctx_symbol_orders", "cycctx_decl_orders"] {
            let got = agg.set_len(what);
            if got != want && agg.machinery_errors.is_empty() && agg.crashes == 0 {
                agg.machinery_errors.push(format!("{what}: {got} (configuration, order) pairs seen, expected {want}"));
            }
        }
        if agg.set_len("cycctx_name_sets") != cycctx::N_SETS as u64 && agg.machinery_errors.is_empty() && agg.crashes == 0 {
            agg.machinery_errors.push("cycctx: not every name set was used".into());
        }
        if agg.set_len("mut_sigma") != 2 + 6 + 24 && agg.machinery_errors.is_empty() && agg.crashes == 0 {
            agg.machinery_errors.push(format!("mut: {} (n, name order) pairs seen, expected 32", agg.set_len("mut_sigma")));
        }
        let n = agg.set_len("mut_sigma");
        agg.counters.insert("mut_sigma_seen".into(), n);
        for what in ["cycctx_access", "ctx_access"] {
            if agg.set_len(what) != model::ACCESS.len() as u64 && agg.machinery_errors.is_empty() && agg.crashes == 0 {
                agg.machinery_errors.push(format!("{what}: not every access form of the context read occurred"));
            }
        }
        for k in ["cycctx_symbol_orders", "cycctx_decl_orders", "cycctx_name_sets", "cycctx_access", "ctx_access"] {
            let n = agg.set_len(k);
            agg.counters.insert(format!("{k}_seen"), n);
        }
    }
}

fn main() {
    // hand triage: c14 --show <tier> <unit> <sub> prints the literal case
    let a: Vec<String> = std::env::args().collect();
    if a.len() == 5 && a[1] == "--show" {
        let tier = if a[2] == "thorough" { Tier::Thorough } else { Tier::Quick };
        let cfg = Cfg { tier, seed: 0 };
        let v = C14.describe(&cfg, a[3].parse::<usize>().unwrap(), a[4].parse().unwrap());
        println!("{}", vcore::serde_json::to_string_pretty(&v).unwrap());
        return;
    }
    // hand triage: c14 --probe pkg.roto m.roto [function names...] compiles the two
    // files with the context runtime, prints the compile-time log and calls the functions
    if a.len() >= 4 && a[1] == "--probe" {
        let pkg = std::fs::read_to_string(&a[2]).unwrap();
        let m = std::fs::read_to_string(&a[3]).unwrap();
        let env = WithCtx(host::runtime().with_context_type::<CtxT>().unwrap());
        host::clear_log();
        let r = env.compile(&pkg, &m);
        println!("log after compile: {:?}", marks(&host::take_log()));
        match r {
            Compiled::Panic(p) => println!("PANIC {p}"),
            Compiled::Report(s, k) => println!("REPORT {k:?}\n{s}"),
            Compiled::Ok(mut p) => {
                for name in &a[4..] {
                    let r = WithCtx::call0(&mut p, name);
                    println!("{name}() = {r:?} log {:?}", marks(&host::take_log()));
                }
            }
        }
        return;
    }
    vcore::main(&C14)
}
