//! Graph enumeration, program generation and the reference model of C14.
//!
//! A case is a dependency graph on `n` declaration positions (node `i` is the
//! `i`-th declaration; bit `i*n+j` of `edges` = "the body of `i` mentions `j`"),
//! a kind per node (constant / function), a module per node (`pkg` / `pkg.m`)
//! and one reference form used for every edge of the program.

use std::collections::BTreeSet;
use std::sync::OnceLock;

pub const MAXN: usize = 5;
/// value of the context variable `cv` handed to every call
pub const CV: i64 = 100_000;
/// depth literal used by constants when they call a function (family Cycle)
pub const CONST_D: i64 = 1;
/// value produced by the string-valued forms when the text read is not the
/// expected one (the model never produces it)
pub const POISON: i64 = 7_777_777;

pub const FORMS: [&str; 9] = [
    "bare",         // same module: `C1`; other module: `m.C1` / `super.C1`
    "abs_path",     // `pkg.C1` / `pkg.m.C1`
    "import_top",   // top-level `import pkg.m.C1;` (other module), then `C1`
    "import_local", // `{ import pkg.m.C1; C1 }`
    "block",        // `{ if true { { C1 } } else { 0 } }`
    "fstring",      // `(if f"{C1}" == "<v>" { <v> } else { POISON })`
    "call_arg",     // `echo_i32(C1)`
    "helper",       // `h0_1()` with `fn h0_1() -> i32 { C1 }`
    "method",       // `(if C1.to_string() == "<v>" { <v> } else { POISON })`
];
pub const F_BARE: usize = 0;
pub const F_HELPER: usize = 7;

/// forms usable in the cycle family (function values depend on the depth
/// parameter there, so the two forms that embed the expected text are left out)
pub const CYCLE_FORMS: [usize; 7] = [0, 1, 2, 3, 4, 6, 7];

/// how the one context read of a program is written; every form evaluates to
/// CV when the context is { cv: CV, cs: "ab" }
pub const ACCESS: [&str; 10] = [
    "plain",          // cv
    "int_method",     // cv.to_string()
    "str_method",     // cs.to_uppercase()
    "str_method_arg", // cs.contains("a")
    "fstring_plain",  // f"{cv}"
    "fstring_method", // f"{cs.to_uppercase()}"
    "call_arg",       // echo_i32(cv)
    "operand",        // (2 * cv - cv)
    "paren_receiver", // (cs).to_uppercase()
    "method_arg",     // "cab".contains(cs)
];

/// the type every CONSTANT of a program has (functions always return i32).
/// `wrap` turns the i32 initialiser into the type, `un` reads it back; lossy types
/// (unit, zero-sized registered type, bool) contribute 0 to whoever mentions them, but
/// their initialiser still has to run exactly once, after what it depends on.
pub const CTYPES: [&str; 8] = ["i32", "()", "i32?", "Rc", "String", "List[i32]", "Z", "bool"];

/// (type as written, wrapper, un-wrapper, lossy)
fn ctype_info(t: usize) -> (&'static str, &'static str, &'static str, bool) {
    match t {
        0 => ("i32", "", "", false),
        1 => ("()", "fn wr(x: i32) {}", "fn un(x: ()) -> i32 { 0 }", true),
        2 => ("i32?", "fn wr(x: i32) -> i32? { Option.Some(x) }", "fn un(x: i32?) -> i32 { match x { Some(v) => v, None => 7777777 } }", false),
        3 => ("pkg.Rc", "record Rc { u: (), a: i32 }\nfn wr(x: i32) -> Rc { Rc { u: (), a: x } }", "fn un(x: Rc) -> i32 { x.a }", false),
        4 => ("String", "fn wr(x: i32) -> String { x.to_string() }", "", false),
        5 => ("List[i32]", "fn wr(x: i32) -> List[i32] { [x] }", "fn un(x: List[i32]) -> i32 { match x.get(0) { Some(v) => v, None => 7777777 } }", false),
        6 => ("Z", "fn wr(x: i32) -> Z { mkz() }", "fn un(x: Z) -> i32 { eatz(x); 0 }", true),
        7 => ("bool", "fn wr(x: i32) -> bool { x > 0 }", "fn un(x: bool) -> i32 { if x { 0 } else { 7777777 } }", true),
        _ => unreachable!(),
    }
}

pub fn access_expr(a: usize) -> String {
    let sel = |cond: &str| format!("(if {cond} {{ {CV} }} else {{ {POISON} }})");
    match a {
        0 => "cv".into(),
        1 => sel(&format!("cv.to_string() == \"{CV}\"")),
        2 => sel("cs.to_uppercase() == \"AB\""),
        3 => sel("cs.contains(\"a\")"),
        4 => sel(&format!("f\"{{cv}}\" == \"{CV}\"")),
        5 => sel("f\"{cs.to_uppercase()}\" == \"AB\""),
        6 => "echo_i32(cv)".into(),
        7 => "(2 * cv - cv)".into(),
        8 => sel("(cs).to_uppercase() == \"AB\""),
        9 => sel("\"cab\".contains(cs)"),
        _ => unreachable!(),
    }
}

#[derive(Clone, Copy, PartialEq, Eq, Debug)]
pub enum Family {
    /// acyclic graph, must compile
    Dag,
    /// acyclic graph plus one injected back edge
    Cycle,
    /// acyclic graph plus one node reading the context variable through k functions
    Ctx,
}

impl Family {
    pub fn name(self) -> &'static str {
        match self {
            Family::Dag => "dag",
            Family::Cycle => "cycle",
            Family::Ctx => "ctx",
        }
    }
}

#[derive(Clone, Debug)]
pub struct Case {
    pub family: Family,
    pub n: usize,
    pub edges: u32,
    /// bit i set = node i is a function
    pub kinds: u32,
    /// bit i set = node i lives in `pkg.m`
    pub place: u32,
    pub form: usize,
    /// injected back edge u -> v (family Cycle)
    pub back: Option<(usize, usize)>,
    /// (x, k): node x reads `cv` through k functions (family Ctx)
    pub ctx: Option<(usize, usize)>,
    /// index into ACCESS: how the context read is written (family Ctx)
    pub access: usize,
    /// index into CTYPES: the type of every constant of the program
    pub ctype: usize,
}

#[derive(Clone, Debug, PartialEq)]
pub enum Expect {
    Accept,
    /// a cycle through at least one constant
    RejectCycle,
    /// a constant transitively reads the context variable
    RejectCtx,
}

/// all labelled DAGs on n nodes as edge masks, fewest edges first
pub fn dags(n: usize) -> &'static Vec<u32> {
    static T: [OnceLock<Vec<u32>>; MAXN + 1] = [const { OnceLock::new() }; MAXN + 1];
    T[n].get_or_init(|| {
        let pairs: Vec<(usize, usize)> =
            (0..n).flat_map(|i| (0..n).filter(move |j| *j != i).map(move |j| (i, j))).collect();
        let mut out = vec![];
        for m in 0u32..(1u32 << pairs.len()) {
            let mut adj = [0u8; MAXN];
            for (b, (i, j)) in pairs.iter().enumerate() {
                if m >> b & 1 == 1 {
                    adj[*i] |= 1 << j;
                }
            }
            // acyclic iff repeatedly removing sinks removes everything
            let mut alive: u8 = ((1u32 << n) - 1) as u8;
            loop {
                let mut removed = false;
                for i in 0..n {
                    if alive >> i & 1 == 1 && adj[i] & alive == 0 {
                        alive &= !(1 << i);
                        removed = true;
                    }
                }
                if !removed {
                    break;
                }
            }
            if alive == 0 {
                let mut e = 0u32;
                for i in 0..n {
                    for j in 0..n {
                        if adj[i] >> j & 1 == 1 {
                            e |= 1 << (i * n + j);
                        }
                    }
                }
                out.push(e);
            }
        }
        out.sort_by_key(|e| (e.count_ones(), *e));
        out
    })
}

pub const DAG_COUNTS: [usize; MAXN + 1] = [1, 1, 3, 25, 543, 29281];

impl Case {
    pub fn dep(&self, i: usize, j: usize) -> bool {
        self.edges >> (i * self.n + j) & 1 == 1
    }
    pub fn is_fn(&self, i: usize) -> bool {
        self.kinds >> i & 1 == 1
    }
    pub fn in_m(&self, i: usize) -> bool {
        self.place >> i & 1 == 1
    }
    pub fn tag(i: usize) -> i64 {
        10i64.pow(i as u32)
    }
    /// direct successors of i, injected back edge included
    pub fn succ(&self, i: usize) -> Vec<usize> {
        let mut v: Vec<usize> = (0..self.n).filter(|j| self.dep(i, *j)).collect();
        if let Some((u, w)) = self.back {
            if u == i && !v.contains(&w) {
                v.push(w);
            }
        }
        v
    }
    /// reach[i][j] = there is a path of length >= 1 from i to j
    pub fn reach(&self) -> [[bool; MAXN]; MAXN] {
        let mut r = [[false; MAXN]; MAXN];
        for i in 0..self.n {
            for j in self.succ(i) {
                r[i][j] = true;
            }
        }
        for k in 0..self.n {
            for i in 0..self.n {
                for j in 0..self.n {
                    if r[i][k] && r[k][j] {
                        r[i][j] = true;
                    }
                }
            }
        }
        r
    }

    /// is (u, v) a back edge of the acyclic graph: u == v or v reaches u
    pub fn valid_back(&self, u: usize, v: usize) -> bool {
        debug_assert!(self.back.is_none());
        u == v || self.reach()[v][u]
    }

    pub fn expect(&self) -> Expect {
        let r = self.reach();
        if let Some((u, _)) = self.back {
            // strongly connected component of u
            let scc_has_const = (0..self.n)
                .filter(|w| *w == u || (r[u][*w] && r[*w][u]))
                .any(|w| !self.is_fn(w));
            if scc_has_const {
                return Expect::RejectCycle;
            }
        }
        if let Some((x, _)) = self.ctx {
            let const_reads = (0..self.n).filter(|c| !self.is_fn(*c)).any(|c| c == x || r[c][x]);
            if const_reads {
                return Expect::RejectCtx;
            }
        }
        Expect::Accept
    }

    /// constants that must have been evaluated before constant `i`
    pub fn const_deps(&self, i: usize) -> Vec<usize> {
        let r = self.reach();
        (0..self.n).filter(|j| *j != i && !self.is_fn(*j) && r[i][*j]).collect()
    }

    pub fn has_const_const_dep(&self) -> bool {
        (0..self.n).any(|i| !self.is_fn(i) && !self.const_deps(i).is_empty())
    }

    /// Reference semantics: the value of node i (a function called with depth d).
    /// Only defined for accepted programs.
    pub fn val(&self, i: usize, d: i64) -> i64 {
        let d = if self.is_fn(i) { d } else { CONST_D };
        let mut v = Case::tag(i);
        for j in 0..self.n {
            if self.dep(i, j) {
                v += self.val(j, d);
            }
        }
        if let Some((u, w)) = self.back {
            if u == i && self.is_fn(i) && d > 0 {
                v += self.val(w, d - 1);
            }
        }
        if let Some((x, _)) = self.ctx {
            if x == i {
                v += CV;
            }
        }
        if !self.is_fn(i) && ctype_info(self.ctype).3 {
            // a constant of a lossy type: what is read back from it
            return 0;
        }
        v
    }

    pub fn node_name(&self, i: usize) -> String {
        if self.is_fn(i) { format!("f{i}") } else { format!("C{i}") }
    }

    /// name to pass to `get_function` to observe node i
    pub fn probe_name(&self, i: usize) -> String {
        if self.is_fn(i) {
            if self.in_m(i) { format!("m.f{i}") } else { format!("f{i}") }
        } else {
            format!("g{i}")
        }
    }

    /// do functions take the depth parameter
    pub fn with_depth(&self) -> bool {
        self.family == Family::Cycle
    }

    /// (pkg.roto, m.roto)
    pub fn sources(&self) -> (String, String) {
        let mut imports: [BTreeSet<String>; 2] = [BTreeSet::new(), BTreeSet::new()];
        let mut decls: [Vec<String>; 2] = [vec![], vec![]];
        let mut extra: [Vec<String>; 2] = [vec![], vec![]];
        let accept = self.expect() == Expect::Accept;

        for i in 0..self.n {
            let mi = self.in_m(i) as usize;
            let mut terms: Vec<String> = vec![];
            terms.push(if self.is_fn(i) {
                format!("{}", Case::tag(i))
            } else {
                format!("e({})", Case::tag(i))
            });
            let arg = if !self.with_depth() {
                ""
            } else if self.is_fn(i) {
                "d"
            } else {
                "1"
            };
            for j in 0..self.n {
                if self.dep(i, j) {
                    terms.push(self.reference(i, j, arg, accept, &mut imports[mi], &mut extra[mi]));
                }
            }
            if let Some((u, w)) = self.back {
                if u == i {
                    if self.is_fn(i) {
                        let r =
                            self.reference(i, w, "d - 1", accept, &mut imports[mi], &mut extra[mi]);
                        terms.push(format!("(if d > 0 {{ {r} }} else {{ 0 }})"));
                    } else {
                        terms.push(self.reference(i, w, "1", accept, &mut imports[mi], &mut extra[mi]));
                    }
                }
            }
            if let Some((x, k)) = self.ctx {
                if x == i {
                    let read = access_expr(self.access);
                    match k {
                        0 => terms.push(read),
                        1 => {
                            terms.push("q1()".into());
                            extra[mi].push(format!("fn q1() -> i32 {{ {read} }}"));
                        }
                        _ => {
                            terms.push("q1()".into());
                            extra[mi].push("fn q1() -> i32 { q2() }".into());
                            extra[mi].push(format!("fn q2() -> i32 {{ {read} }}"));
                        }
                    }
                }
            }
            let body = terms.join(" + ");
            decls[mi].push(if self.is_fn(i) {
                let params = if self.with_depth() { "d: i32" } else { "" };
                format!("fn f{i}({params}) -> i32 {{ {body} }}")
            } else {
                if self.ctype == 0 {
                    format!("const C{i}: i32 = {body};")
                } else {
                    format!("const C{i}: {} = pkg.wr({body});", ctype_info(self.ctype).0)
                }
            });
        }
        // getters for the constants live in pkg, after everything else
        for i in 0..self.n {
            if !self.is_fn(i) {
                let abs = if self.in_m(i) { "pkg.m." } else { "pkg." };
                extra[0].push(format!("fn g{i}() -> i32 {{ {} }}", self.unwrap(&format!("{abs}C{i}"), i, accept)));
            }
        }
        if self.ctype != 0 {
            let (_, w, u, _) = ctype_info(self.ctype);
            extra[0].push(w.to_string());
            if !u.is_empty() {
                extra[0].push(u.to_string());
            }
        }
        let mut out = [String::new(), String::new()];
        for m in 0..2 {
            for l in imports[m].iter().chain(decls[m].iter()).chain(extra[m].iter()) {
                out[m].push_str(l);
                out[m].push('\n');
            }
        }
        let [a, b] = out;
        (a, b)
    }

    /// the expression by which node i mentions node j
    fn reference(
        &self,
        i: usize,
        j: usize,
        arg: &str,
        accept: bool,
        imports: &mut BTreeSet<String>,
        extra: &mut Vec<String>,
    ) -> String {
        let same = self.in_m(i) == self.in_m(j);
        let rel = if same {
            ""
        } else if self.in_m(i) {
            "super."
        } else {
            "m."
        };
        let abs = if self.in_m(j) { "pkg.m." } else { "pkg." };
        let name = self.node_name(j);
        let call = |pfx: &str, arg: &str| {
            if self.is_fn(j) { format!("{pfx}{name}({arg})") } else { self.unwrap(&format!("{pfx}{name}"), j, accept) }
        };
        // the text the string-valued forms compare with (static in families Dag and Ctx;
        // rejected programs are never evaluated, any text will do)
        let lit = if accept && !self.with_depth() { self.val(j, 0) } else { 0 };
        match self.form {
            0 => call(rel, arg),
            1 => call(abs, arg),
            2 => {
                if !same {
                    imports.insert(format!("import {abs}{name};"));
                }
                call("", arg)
            }
            3 => format!("{{ import {abs}{name}; {} }}", call("", arg)),
            4 => format!("{{ if true {{ {{ {} }} }} else {{ 0 }} }}", call(rel, arg)),
            5 => format!(
                "(if f\"{{{}}}\" == \"{lit}\" {{ {lit} }} else {{ {POISON} }})",
                call(rel, arg)
            ),
            6 => format!("echo_i32({})", call(rel, arg)),
            7 => {
                let h = format!("h{i}_{j}");
                if self.with_depth() && self.is_fn(j) {
                    extra.push(format!("fn {h}(d: i32) -> i32 {{ {} }}", call(rel, "d")));
                    format!("{h}({arg})")
                } else {
                    extra.push(format!("fn {h}() -> i32 {{ {} }}", call(rel, "")));
                    format!("{h}()")
                }
            }
            8 => format!(
                "(if {}.to_string() == \"{lit}\" {{ {lit} }} else {{ {POISON} }})",
                call(rel, arg)
            ),
            _ => unreachable!(),
        }
    }

    /// the i32 read back from an expression that denotes constant `j`
    fn unwrap(&self, expr: &str, j: usize, accept: bool) -> String {
        match self.ctype {
            0 => expr.to_string(),
            4 => {
                // String: compare with the text the model predicts (static in family Dag)
                let lit = if accept && !self.with_depth() { self.val(j, 0) } else { 0 };
                format!("(if {expr} == \"{lit}\" {{ {lit} }} else {{ {POISON} }})")
            }
            _ => format!("pkg.un({expr})"),
        }
    }

    pub fn edge_list(&self) -> Vec<(usize, usize)> {
        let mut v = vec![];
        for i in 0..self.n {
            for j in 0..self.n {
                if self.dep(i, j) {
                    v.push((i, j));
                }
            }
        }
        v
    }
}

/// sanity checks of the enumerator and the model (run in the parent before the pool)
pub fn self_test(max_n: usize) -> Result<(), String> {
    for n in 1..=max_n {
        let d = dags(n);
        if d.len() != DAG_COUNTS[n] {
            return Err(format!("{} labelled DAGs on {n} nodes, expected {}", d.len(), DAG_COUNTS[n]));
        }
        let set: BTreeSet<u32> = d.iter().copied().collect();
        if set.len() != d.len() {
            return Err("duplicate DAG".into());
        }
    }
    // diamond: 0 -> 1, 0 -> 2, 1 -> 3, 2 -> 3 ; 0,3 constants, 1,2 functions
    let n = 4;
    let e = |i: usize, j: usize| 1u32 << (i * n + j);
    let c = Case {
        family: Family::Dag,
        n,
        edges: e(0, 1) | e(0, 2) | e(1, 3) | e(2, 3),
        kinds: 0b0110,
        place: 0b1010,
        form: F_BARE,
        back: None,
        ctx: None,
        access: 0,
        ctype: 0,
    };
    if c.val(0, 0) != 1 + 10 + 100 + 2000 || c.const_deps(0) != vec![3] || c.expect() != Expect::Accept {
        return Err("model self-test (diamond) failed".into());
    }
    let mut cyc = c.clone();
    cyc.family = Family::Cycle;
    cyc.back = Some((3, 1)); // 3 is a constant on the cycle 1 -> 3 -> 1
    if !c.valid_back(3, 1) || c.valid_back(1, 2) || cyc.expect() != Expect::RejectCycle {
        return Err("model self-test (cycle) failed".into());
    }
    let mut rec = c.clone();
    rec.family = Family::Cycle;
    rec.back = Some((1, 1)); // recursion of a function
    // f1(2) = 10 + C3 + f1(1) = 10 + 1000 + (10 + 1000 + (10 + 1000))
    if rec.expect() != Expect::Accept || rec.val(1, 2) != 3030 || rec.val(0, 0) != 1 + 2020 + 1100 {
        return Err("model self-test (recursion) failed".into());
    }
    let mut cx = c.clone();
    cx.family = Family::Ctx;
    cx.ctx = Some((2, 2));
    if cx.expect() != Expect::RejectCtx {
        return Err("model self-test (ctx) failed".into());
    }
    cx.kinds = 0b0111; // node 0 a function too: nobody constant reaches 2
    if cx.expect() != Expect::Accept || cx.val(0, 0) != 1 + 10 + 100 + 2000 + CV {
        return Err("model self-test (ctx accept) failed".into());
    }
    Ok(())
}
