//! Family `copy`: a copy of a constant is a value of its own.
//!
//! "Afterwards every function and constant observes that one value": whatever
//! a script does with a COPY of a constant — bind it to a local and assign to
//! the local, write a field of the local, pass it to a function that assigns
//! to its parameter, store it in a record and overwrite that field, bind it in
//! a pattern and assign to the binding — the constant still reads as the value
//! it was given, in the same call, in later calls, from other functions and
//! from another package compiled from the same runtime. Every constant type
//! that is passed by reference (where "no copy needed" shortcuts are tempting)
//! plus scalars and strings for contrast, as a SCRIPT constant and (where the
//! host can make one) as a REGISTERED constant x every overwrite form.
//! Added after seeded change C05-5 (a local initialised from a plain-data
//! constant aliased the constant's storage).

use roto::{NoCtx, Package, Runtime, TypedFunc, Val, library};
use vcore::{Cx, Value, json};

pub struct CType {
    pub name: &'static str,
    pub decls: &'static str,
    pub ty: &'static str,
    pub init: &'static str,
    pub other: &'static str,
    /// body of `fn obs(v: T) -> u64`
    pub obs: &'static str,
    pub expect: u64,
    /// (field, value) for the field-write form
    pub field: Option<(&'static str, &'static str)>,
    /// name of the registered constant of this type, if the harness registers one
    pub registered: Option<&'static str>,
}

pub const TYPES: [CType; 16] = [
    CType { name: "u64", decls: "", ty: "u64", init: "7", other: "9", obs: "v", expect: 7, field: None, registered: Some("RU") },
    CType { name: "f64", decls: "", ty: "f64", init: "1.5", other: "2.5", obs: "if v == 1.5 { 1 } else { 0 }", expect: 1, field: None, registered: None },
    CType { name: "String", decls: "", ty: "String", init: "\"abc\"", other: "\"zzz\"", obs: "if v == \"abc\" { 1 } else { 0 }", expect: 1, field: None, registered: None },
    CType { name: "IpAddr-v4", decls: "", ty: "IpAddr", init: "10.0.0.1", other: "1.2.3.4", obs: "if v == 10.0.0.1 { 1 } else { 0 }", expect: 1, field: None, registered: Some("RIP") },
    CType { name: "IpAddr-v6", decls: "", ty: "IpAddr", init: "2001:db8::1", other: "::2", obs: "if v == 2001:db8::1 { 1 } else { 0 }", expect: 1, field: None, registered: None },
    CType { name: "Prefix", decls: "", ty: "Prefix", init: "10.0.0.0 / 8", other: "192.168.0.0 / 16", obs: "if v == 10.0.0.0 / 8 { 1 } else { 0 }", expect: 1, field: None, registered: Some("RPFX") },
    CType { name: "Option-some", decls: "", ty: "u64?", init: "Option.Some(7)", other: "Option.Some(8)", obs: "match v { Some(y) => y + 100, None => 0 }", expect: 107, field: None, registered: Some("ROPT") },
    CType { name: "Option-to-none", decls: "", ty: "u64?", init: "Option.Some(7)", other: "Option.None", obs: "match v { Some(y) => y + 100, None => 0 }", expect: 107, field: None, registered: Some("ROPT") },
    CType { name: "Option-u8", decls: "", ty: "u8?", init: "Option.Some(7)", other: "Option.Some(8)", obs: "match v { Some(y) => if y == 7 { 1 } else { 2 }, None => 0 }", expect: 1, field: None, registered: None },
    CType { name: "record", decls: "record R { a: u32, b: u64 }\n", ty: "R", init: "R { a: 1, b: 2 }", other: "R { a: 3, b: 4 }", obs: "if v.a == 1 { v.b } else { 0 }", expect: 2, field: Some(("b", "40")), registered: None },
    CType { name: "enum", decls: "enum E { A(u64), B }\n", ty: "E", init: "E.A(5)", other: "E.B", obs: "match v { A(y) => y, B => 0 }", expect: 5, field: None, registered: None },
    CType { name: "anonymous-record", decls: "", ty: "{ x: u8, y: u64 }", init: "{ x: 1, y: 2 }", other: "{ x: 3, y: 4 }", obs: "if v.x == 1 { v.y } else { 0 }", expect: 2, field: Some(("y", "40")), registered: None },
    CType { name: "nested-record", decls: "record R { a: u32, b: u64 }\nrecord N { r: R, o: u64? }\n", ty: "N", init: "N { r: R { a: 1, b: 2 }, o: Option.Some(3) }", other: "N { r: R { a: 9, b: 9 }, o: Option.None }", obs: "match v.o { Some(y) => v.r.b + y, None => 0 }", expect: 5, field: Some(("r", "R { a: 9, b: 9 }")), registered: None },
    CType { name: "Verdict", decls: "", ty: "Verdict[u64, u8]", init: "Verdict.Accept(7)", other: "Verdict.Reject(1)", obs: "match v { Accept(y) => y, Reject(z) => 0 }", expect: 7, field: None, registered: Some("RVER") },
    CType { name: "copy-host-type", decls: "", ty: "K", init: "mkk(5)", other: "mkk(6)", obs: "if kval(v) == 5 { 1 } else { 0 }", expect: 1, field: None, registered: Some("RK") },
    CType { name: "Result", decls: "", ty: "Result[u64, u8]", init: "Result.Ok(7)", other: "Result.Err(1)", obs: "match v { Ok(y) => y, Err(z) => 0 }", expect: 7, field: None, registered: None },
];

/// (name, statements; ◇ = the constant, ◆ = the other value, ▲ = the type)
pub const FORMS: [(&str, &str); 13] = [
    ("let-then-assign", "let x = ◇; x = ◆;"),
    ("let-then-assign-if-p", "let x = ◇; if p { x = ◆; }"),
    ("annotated-let-then-assign", "let x: ▲ = ◇; x = ◆;"),
    ("parameter-assigned-by-callee", "let k = ow(◇);"),
    ("block-value", "let x = { ◇ }; x = ◆;"),
    ("if-join", "let x = if p { ◇ } else { ◇ }; x = ◆;"),
    ("field-of-outer-record", "let r = { w: ◇, z: 1 }; r.w = ◆;"),
    ("copy-of-copy", "let x = ◇; let y = x; y = ◆; x = ◆;"),
    ("returned-by-identity", "let x = idt(◇); x = ◆;"),
    ("assigned-then-reassigned", "let x = ◆; x = ◇; x = ◆;"),
    ("in-loop", "let i = 0; while i < 2 { let x = ◇; x = ◆; i = i + 1; }"),
    ("payload-of-some", "let o = Option.Some(◇); o = Option.Some(◆);"),
    ("field-write", "let x = ◇; x.◈ = ◉;"),
];

pub fn runtime() -> Result<Runtime<NoCtx>, String> {
    let mut rt = host::runtime();
    rt.add(library! {
        const RU: u64 = 7;
        const RIP: std::net::IpAddr = std::net::IpAddr::from(std::net::Ipv4Addr::new(10, 0, 0, 1));
        const RPFX: inetnum::addr::Prefix = "10.0.0.0/8".parse::<inetnum::addr::Prefix>().unwrap();
        const ROPT: Option<u64> = Some(7);
        const RVER: roto::Verdict<u64, u8> = roto::Verdict::Accept(7);
        const RK: Val<host::K> = Val(host::K(5));
    })
    .map_err(|e| format!("{e}"))?;
    Ok(rt)
}

/// (type index, form index, registered?)
pub fn cases() -> Vec<(usize, usize, bool)> {
    let mut v = vec![];
    for (t, ty) in TYPES.iter().enumerate() {
        for (f, form) in FORMS.iter().enumerate() {
            if form.0 == "field-write" && ty.field.is_none() {
                continue;
            }
            v.push((t, f, false));
            if ty.registered.is_some() {
                v.push((t, f, true));
            }
        }
    }
    v
}

pub fn source(t: usize, f: usize, registered: bool) -> String {
    let ty = &TYPES[t];
    let cname = if registered { ty.registered.unwrap() } else { "KC" };
    let (fld, val) = ty.field.unwrap_or(("", ""));
    let stmts = FORMS[f].1.replace('◇', cname).replace('◆', ty.other).replace('▲', ty.ty).replace('◈', fld).replace('◉', val);
    let mut s = String::from(ty.decls);
    if !registered {
        s += &format!("const KC: {} = {};\n", ty.ty, ty.init);
    }
    s += &format!("fn obs(v: {}) -> u64 {{ {} }}\n", ty.ty, ty.obs);
    s += &format!("fn ow(x: {}) -> u64 {{ x = {}; obs(x) }}\n", ty.ty, ty.other);
    s += &format!("fn idt(x: {}) -> {} {{ x }}\n", ty.ty, ty.ty);
    s += &format!("fn f(p: bool) -> u64 {{ {stmts} obs({cname}) }}\n");
    s += &format!("fn g() -> u64 {{ obs({cname}) }}\n");
    s
}

pub fn second_package(t: usize, registered: bool) -> String {
    let ty = &TYPES[t];
    let cname = if registered { ty.registered.unwrap() } else { "KC" };
    let mut s = String::from(ty.decls);
    if !registered {
        s += &format!("const KC: {} = {};\n", ty.ty, ty.init);
    }
    s += &format!("fn obs(v: {}) -> u64 {{ {} }}\nfn g() -> u64 {{ obs({cname}) }}\n", ty.ty, ty.obs);
    s
}

pub fn describe(i: usize) -> Value {
    let Some(&(t, f, r)) = cases().get(i) else { return json!({"family": "copy", "phase": "setup"}) };
    json!({"family": "copy", "constant_type": TYPES[t].name, "form": FORMS[f].0,
           "constant": if r { "registered" } else { "script" }, "program": source(t, f, r)})
}

fn get_g(p: &mut Package<NoCtx>) -> Result<TypedFunc<NoCtx, fn() -> u64>, String> {
    p.get_function("g").map_err(|e| e.to_string())
}

pub fn run(cx: &mut Cx) {
    let rt = match runtime() {
        Ok(rt) => rt,
        Err(e) => {
            cx.violation("setup", vcore::SUB_SETUP, json!("registered constants"), json!("Ok"), json!(e));
            return;
        }
    };
    for (i, (t, f, r)) in cases().into_iter().enumerate() {
        if !cx.case(i as u64) {
            continue;
        }
        cx.states(1);
        cx.count("copy:programs", 1);
        let src = source(t, f, r);
        let want = TYPES[t].expect;
        let mut pkg = match host::compile(&rt, &src) {
            Ok(p) => p,
            Err(e) => {
                cx.violation("copy-rejected", i as u64, describe(i), json!("a well-typed program compiles"), json!(format!("{e:?}")));
                continue;
            }
        };
        let ff: TypedFunc<NoCtx, fn(bool) -> u64> = match pkg.get_function("f") {
            Ok(x) => x,
            Err(e) => {
                cx.violation("copy-get_function", i as u64, describe(i), json!("Ok"), json!(e.to_string()));
                continue;
            }
        };
        let g = match get_g(&mut pkg) {
            Ok(x) => x,
            Err(e) => {
                cx.violation("copy-get_function", i as u64, describe(i), json!("Ok"), json!(e));
                continue;
            }
        };
        // ordinary read, the overwrite forms on both inputs, reads in between and after,
        // and a read from a second package of the same runtime
        let mut got: Vec<(&str, u64)> = vec![("g()", g.call())];
        got.push(("f(false)", ff.call(false)));
        got.push(("g()", g.call()));
        got.push(("f(true)", ff.call(true)));
        got.push(("g()", g.call()));
        got.push(("f(true)", ff.call(true)));
        got.push(("f(false)", ff.call(false)));
        match host::compile(&rt, &second_package(t, r)) {
            Ok(mut p2) => match get_g(&mut p2) {
                Ok(g2) => got.push(("second package g()", g2.call())),
                Err(e) => {
                    cx.violation("copy-get_function", i as u64, describe(i), json!("Ok"), json!(e));
                    continue;
                }
            },
            Err(e) => {
                cx.violation("copy-rejected", i as u64, describe(i), json!("the second package compiles"), json!(format!("{e:?}")));
                continue;
            }
        }
        cx.transitions(got.len() as u64);
        cx.validated(1);
        cx.nontrivial(vcore::util::fnv_str(&src));
        cx.outcome(vcore::util::fnv_str(&format!("{got:?}")));
        if got.iter().any(|(_, v)| *v != want) {
            cx.violation(
                "constant-changed",
                i as u64,
                describe(i),
                json!({"every read of the constant": want}),
                json!(got.iter().map(|(n, v)| format!("{n} = {v}")).collect::<Vec<_>>()),
            );
        }
        if i % 40 == 0 {
            cx.sample(describe(i));
        }
    }
}
