//! Family `mut`: a container constant (`List[i32]` or `StringBuf`) with READ and
//! MUTATE edges into it from other constants and functions.
//!
//! Items: X_0 .. X_{n-1} (declaration order = index; dependencies among them
//! are a labelled DAG), each a `u64` constant or function, each with one kind
//! of access to the container constant `L`:
//!   N  none
//!   R  reads it:        `L.len()`                    / `L.as_string().bytes().len()`
//!   M  mutates it:      `L.push(4); .. L.len()`      / `L.push_string("ab"); ..`
//!      (or through a local alias: `let l = L; l.push(4); .. l.len()`)
//! `L` is declared at position `lpos` among them.
//!
//! Reference semantics (what the property states): `L` is evaluated once and
//! "afterwards every function and constant observes that one value" - a read
//! of the constant yields the initial value whatever ran before; a mutating
//! method acts on what the read produced (a temporary for `L.push(..)`, the
//! local for the alias form). Hence every value is independent of the
//! declaration order, of the names (= evaluation order of independent
//! constants), of earlier compilations, and stable over repeated calls.
//!
//! Names come from the name sets of `cycctx` (spellings in pairwise different
//! symbol shards, none in the last shard) and are dealt to the roles by every
//! permutation `sigma`; getters use spellings of the LAST shard so that they
//! sort after every item and never influence the order in which the type
//! checker walks the items.

use std::collections::HashMap;
use std::sync::Mutex;

use crate::cycctx::{N_SETS, factorial, name_sets, permutation, raw};
use crate::model::dags;

pub const ACC: [&str; 3] = ["none", "read", "mutate"];
pub const CONTAINERS: [&str; 2] = ["List[i32]", "StringBuf"];

/// a spelling `<base><j>` in the last symbol shard (sorts after every item name)
pub fn late_name(base: &str) -> String {
    static CACHE: Mutex<Option<HashMap<String, String>>> = Mutex::new(None);
    let mut g = CACHE.lock().unwrap_or_else(|e| e.into_inner());
    let m = g.get_or_insert_with(HashMap::new);
    if let Some(s) = m.get(base) {
        return s.clone();
    }
    let mut j = 0;
    loop {
        let s = format!("{base}{j}");
        if raw(&s) >> 28 == 15 {
            m.insert(base.to_string(), s.clone());
            return s;
        }
        j += 1;
    }
}

#[derive(Clone, Debug)]
pub struct MCase {
    pub n: usize,
    pub edges: u32,
    /// bit i set = X_i is a function
    pub kinds: u32,
    /// access[i] in 0..3 (ACC)
    pub access: Vec<usize>,
    /// position of L in the declaration order (0..=n)
    pub lpos: usize,
    /// sigma[r] = rank of role r's name (roles: X_0..X_{n-1}, L)
    pub sigma: Vec<usize>,
    pub set: usize,
    pub container: usize,
    /// mutate through `let l = L; l.push(..)` instead of `L.push(..)`
    pub alias: bool,
}

impl MCase {
    pub fn dep(&self, i: usize, j: usize) -> bool {
        self.edges >> (i * self.n + j) & 1 == 1
    }
    pub fn is_fn(&self, i: usize) -> bool {
        self.kinds >> i & 1 == 1
    }
    pub fn name(&self, role: usize) -> &'static str {
        name_sets()[self.set].as_ref().expect("checked in preflight")[self.sigma[role]]
    }
    pub fn l_name(&self) -> &'static str {
        self.name(self.n)
    }
    pub fn tag(i: usize) -> i64 {
        100i64.pow(i as u32 + 1)
    }
    pub fn mark(i: usize) -> i32 {
        i as i32 + 2
    }
    pub const L_MARK: i32 = 1;
    fn base_len(&self) -> i64 {
        [3, 0][self.container]
    }
    fn delta(&self) -> i64 {
        [1, 2][self.container]
    }
    pub fn has_mutating_edge(&self) -> bool {
        self.access.iter().any(|a| *a == 2)
    }

    /// does X_i touch the container, directly or through what it mentions
    pub fn touches(&self, i: usize) -> bool {
        self.access[i] != 0 || (0..self.n).any(|j| self.dep(i, j) && self.touches(j))
    }
    /// constants that must be evaluated before constant X_i (the container = n)
    pub fn before(&self, i: usize) -> Vec<usize> {
        let mut v = vec![];
        let mut seen = vec![false; self.n];
        let mut stack = vec![i];
        let mut touches = false;
        while let Some(x) = stack.pop() {
            if self.access[x] != 0 {
                touches = true;
            }
            for j in 0..self.n {
                if self.dep(x, j) && !seen[j] {
                    seen[j] = true;
                    if !self.is_fn(j) {
                        v.push(j);
                    }
                    stack.push(j);
                }
            }
        }
        if touches {
            v.push(self.n);
        }
        v
    }

    /// reference value of X_i
    pub fn val(&self, i: usize) -> i64 {
        let acc = match self.access[i] {
            0 => 0,
            1 => self.base_len(),
            // `L.push(4); L.len()`: the second read yields the constant again;
            // `let l = L; l.push(4); l.len()`: the local has grown
            _ => self.base_len() + if self.alias { self.delta() } else { 0 },
        };
        MCase::tag(i) + acc + (0..self.n).filter(|j| self.dep(i, *j)).map(|j| self.val(j)).sum::<i64>()
    }
    pub fn val_len(&self) -> i64 {
        self.base_len()
    }

    fn len_of(&self, what: &str) -> String {
        match self.container {
            0 => format!("{what}.len()"),
            _ => format!("{what}.as_string().bytes().len()"),
        }
    }
    fn push_on(&self, what: &str) -> String {
        match self.container {
            0 => format!("{what}.push(4);"),
            _ => format!("{what}.push_string(\"ab\");"),
        }
    }

    pub fn len_probe() -> String {
        late_name("zlen")
    }
    pub fn getter(i: usize) -> String {
        late_name(&format!("zget{i}x"))
    }
    /// (function to call, expected value, does it touch the container)
    pub fn probes(&self) -> Vec<(String, i64, bool)> {
        let mut v: Vec<(String, i64, bool)> = (0..self.n)
            .map(|i| {
                let f = if self.is_fn(i) { self.name(i).to_string() } else { MCase::getter(i) };
                (f, self.val(i), self.touches(i))
            })
            .collect();
        v.push((MCase::len_probe(), self.val_len(), true));
        v
    }

    pub fn source(&self) -> String {
        let l = self.l_name();
        let mut items: Vec<String> = vec![];
        for i in 0..self.n {
            let mut stmts = String::new();
            let mut terms = vec![format!("{}", MCase::tag(i))];
            match self.access[i] {
                0 => {}
                1 => terms.push(self.len_of(l)),
                _ => {
                    if self.alias {
                        stmts = format!("let loc = {l}; {} ", self.push_on("loc"));
                        terms.push(self.len_of("loc"));
                    } else {
                        stmts = format!("{} ", self.push_on(l));
                        terms.push(self.len_of(l));
                    }
                }
            }
            for j in 0..self.n {
                if self.dep(i, j) {
                    terms.push(if self.is_fn(j) { format!("{}()", self.name(j)) } else { self.name(j).to_string() });
                }
            }
            let body = terms.join(" + ");
            items.push(if self.is_fn(i) {
                format!("fn {}() -> u64 {{ {stmts}{body} }}", self.name(i))
            } else {
                format!("const {}: u64 = {{ e({}); {stmts}{body} }};", self.name(i), MCase::mark(i))
            });
        }
        let ldecl = match self.container {
            0 => format!("const {l}: List[i32] = [e({}), 2, 3];", MCase::L_MARK),
            _ => format!("const {l}: StringBuf = {{ e({}); StringBuf.new() }};", MCase::L_MARK),
        };
        items.insert(self.lpos, ldecl);
        for i in 0..self.n {
            if !self.is_fn(i) {
                items.push(format!("fn {}() -> u64 {{ {} }}", MCase::getter(i), self.name(i)));
            }
        }
        items.push(format!("fn {}() -> u64 {{ {} }}", MCase::len_probe(), self.len_of(l)));
        items.join("\n") + "\n"
    }
}

/// one work unit: a range of graph configurations (dag, kinds, access) of one n,
/// each with the inner dimensions (name order, container position and type)
#[derive(Clone, Debug)]
pub struct MUnit {
    pub n: usize,
    pub cfg_lo: u64,
    pub cfg_hi: u64,
    /// true: every name order sigma; false: one sigma and its reverse per graph, in rotation
    pub all_sigma: bool,
    /// true: every position of L, both containers; false: in rotation
    pub all_small: bool,
}

impl MUnit {
    fn k(&self) -> usize {
        self.n + 1
    }
    pub fn configs(n: usize) -> u64 {
        crate::model::DAG_COUNTS[n] as u64 * (1 << n) * 3u64.pow(n as u32)
    }
    fn inner(&self) -> [u64; 3] {
        [
            if self.all_sigma { factorial(self.k()) } else { 2 },
            if self.all_small { self.k() as u64 } else { 1 },
            if self.all_small { 2 } else { 1 },
        ]
    }
    pub fn subs(&self) -> u64 {
        (self.cfg_hi - self.cfg_lo) * vcore::util::product(&self.inner())
    }
    /// (graph configuration index, case)
    pub fn decode(&self, sub: u64) -> Option<(u64, MCase)> {
        if sub >= self.subs() {
            return None;
        }
        let inner = self.inner();
        let per = vcore::util::product(&inner);
        let cfg = self.cfg_lo + sub / per;
        let i = vcore::util::decode(sub % per, &inner);
        let n = self.n;
        let g = vcore::util::decode(cfg, &[crate::model::DAG_COUNTS[n] as u64, 1 << n, 3u64.pow(n as u32)]);
        let r = g[0] * 7 + g[1] * 3 + g[2];
        let nsig = factorial(self.k());
        let sigma_idx = if self.all_sigma {
            i[0]
        } else if i[0] == 0 {
            r % nsig
        } else {
            // the complement: every relative order reversed
            nsig - 1 - r % nsig
        };
        let (lpos, container) = if self.all_small {
            (i[1] as usize, i[2] as usize)
        } else {
            // fixed per graph configuration, so that the cases of one configuration
            // differ in the name order only
            ((r % self.k() as u64) as usize, ((r / 5) % 2) as usize)
        };
        let mut access = vec![];
        let mut a = g[2];
        for _ in 0..n {
            access.push((a % 3) as usize);
            a /= 3;
        }
        Some((
            cfg,
            MCase {
                n,
                edges: dags(n)[g[0] as usize],
                kinds: g[1] as u32,
                access,
                lpos,
                sigma: permutation(self.k(), sigma_idx),
                set: ((r + sigma_idx + lpos as u64) % N_SETS as u64) as usize,
                container,
                alias: (r / 2) % 2 == 1,
            },
        ))
    }
}

pub fn units(thorough: bool) -> Vec<MUnit> {
    let mut out = vec![];
    for n in 1..=3usize {
        let all_small = n <= 2;
        let all_sigma = n <= 2 || thorough;
        let probe = MUnit { n, cfg_lo: 0, cfg_hi: 1, all_sigma, all_small };
        // about two thirds of the cases carry a mutating edge (the known finding):
        // keep a unit below the 200 literal violations vcore keeps per unit
        let chunk = (250 / probe.subs()).max(1);
        let mut lo = 0;
        while lo < MUnit::configs(n) {
            let hi = (lo + chunk).min(MUnit::configs(n));
            out.push(MUnit { n, cfg_lo: lo, cfg_hi: hi, all_sigma, all_small });
            lo = hi;
        }
    }
    out
}

pub fn self_test() -> Result<(), String> {
    for base in ["zlen", "zget0x", "zget1x", "zget2x"] {
        let l = late_name(base);
        for s in name_sets() {
            let s = s.as_ref().map_err(|e| e.clone())?;
            if s.iter().any(|n| raw(n) >= raw(&l)) {
                return Err(format!("getter {l} does not sort after name set {s:?}"));
            }
        }
    }
    // L; K mutates through the alias and uses nothing; N reads
    let c = MCase {
        n: 2,
        edges: 0,
        kinds: 0,
        access: vec![2, 1],
        lpos: 0,
        sigma: vec![0, 1, 2],
        set: 0,
        container: 0,
        alias: true,
    };
    if c.val(0) != 100 + 4 || c.val(1) != 10000 + 3 || c.before(1) != vec![2] || !c.has_mutating_edge() {
        return Err("mut model self-test".into());
    }
    Ok(())
}
