//! Small helpers shared by the checks.

use std::cell::RefCell;
use std::panic::{AssertUnwindSafe, catch_unwind};

thread_local! {
    static LAST_PANIC: RefCell<Option<String>> = const { RefCell::new(None) };
}

/// Panics are recorded (message and location) instead of printed.
pub fn install_quiet_panic_hook() {
    std::panic::set_hook(Box::new(|info| {
        let msg = if let Some(s) = info.payload().downcast_ref::<&str>() {
            s.to_string()
        } else if let Some(s) = info.payload().downcast_ref::<String>() {
            s.clone()
        } else {
            "<non-string panic>".to_string()
        };
        let loc = info
            .location()
            .map(|l| format!("{}:{}", l.file(), l.line()))
            .unwrap_or_default();
        let first = msg.lines().next().unwrap_or("").to_string();
        LAST_PANIC.with(|p| *p.borrow_mut() = Some(format!("{first} @ {loc}")));
    }));
}

/// Run `f`, turning a panic into `Err(message @ location)`.
pub fn catch<T>(f: impl FnOnce() -> T) -> Result<T, String> {
    match catch_unwind(AssertUnwindSafe(f)) {
        Ok(v) => Ok(v),
        Err(_) => Err(LAST_PANIC
            .with(|p| p.borrow_mut().take())
            .unwrap_or_else(|| "<panic>".into())),
    }
}

/// FNV-1a, the hash used for all "distinct" sets (stable across runs)
pub fn fnv(bytes: &[u8]) -> u64 {
    let mut h: u64 = 0xcbf29ce484222325;
    for b in bytes {
        h ^= *b as u64;
        h = h.wrapping_mul(0x100000001b3);
    }
    h
}

pub fn fnv_str(s: &str) -> u64 {
    fnv(s.as_bytes())
}

pub fn mix(a: u64, b: u64) -> u64 {
    let mut h = a ^ b.wrapping_mul(0x9E3779B97F4A7C15);
    h ^= h >> 32;
    h = h.wrapping_mul(0xD6E8FEB86659FD93);
    h ^= h >> 32;
    h
}

/// Mixed-radix decoding: the `idx`-th tuple of the product of `radices`
/// (last position varies fastest).
pub fn decode(mut idx: u64, radices: &[u64]) -> Vec<u64> {
    let mut out = vec![0; radices.len()];
    for i in (0..radices.len()).rev() {
        out[i] = idx % radices[i];
        idx /= radices[i];
    }
    out
}

pub fn product(radices: &[u64]) -> u64 {
    radices.iter().product()
}
