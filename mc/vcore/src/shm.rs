//! Case marks in a shared-memory file: the worker stores (seq, unit, sub)
//! with plain stores before every case; when it dies the parent reads which
//! case was running. No system call per case.

use std::path::Path;
use std::sync::atomic::{AtomicU64, Ordering};

pub struct Marks {
    ptr: *mut AtomicU64,
    owner: bool,
}

unsafe impl Send for Marks {}

const LEN: usize = 4096;

impl Marks {
    fn map(path: &Path, create: bool) -> std::io::Result<Marks> {
        use std::os::unix::io::AsRawFd;
        let f = std::fs::OpenOptions::new()
            .read(true)
            .write(true)
            .create(create)
            .truncate(create)
            .open(path)?;
        if create {
            f.set_len(LEN as u64)?;
        }
        let p = unsafe {
            libc::mmap(
                std::ptr::null_mut(),
                LEN,
                libc::PROT_READ | libc::PROT_WRITE,
                libc::MAP_SHARED,
                f.as_raw_fd(),
                0,
            )
        };
        if p == libc::MAP_FAILED {
            return Err(std::io::Error::last_os_error());
        }
        Ok(Marks { ptr: p as *mut AtomicU64, owner: true })
    }
    pub fn create(path: &Path) -> std::io::Result<Marks> {
        let m = Self::map(path, true)?;
        m.slot(1).store(u64::MAX, Ordering::Relaxed);
        m.slot(2).store(u64::MAX, Ordering::Relaxed);
        Ok(m)
    }
    pub fn open(path: &Path) -> std::io::Result<Marks> {
        Self::map(path, false)
    }
    /// a second handle to the same mapping (never unmaps)
    pub fn dup(&self) -> Marks {
        Marks { ptr: self.ptr, owner: false }
    }
    #[inline]
    fn slot(&self, i: usize) -> &AtomicU64 {
        unsafe { &*self.ptr.add(i) }
    }
    #[inline]
    pub fn mark(&self, unit: u64, sub: u64) {
        self.slot(1).store(unit, Ordering::Relaxed);
        self.slot(2).store(sub, Ordering::Relaxed);
        self.slot(0).fetch_add(1, Ordering::Release);
    }
    /// (seq, unit, sub)
    pub fn read(&self) -> (u64, u64, u64) {
        let seq = self.slot(0).load(Ordering::Acquire);
        (seq, self.slot(1).load(Ordering::Relaxed), self.slot(2).load(Ordering::Relaxed))
    }
}

impl Drop for Marks {
    fn drop(&mut self) {
        if self.owner {
            unsafe { libc::munmap(self.ptr as *mut libc::c_void, LEN) };
        }
    }
}
