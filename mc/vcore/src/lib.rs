//! Common machinery of all checks: work-unit pool with crash-isolated worker
//! processes, case marks in shared memory, watchdog, violation classification
//! against the committed known-findings file, replay and evidence files.
//!
//! A check is a value implementing [`Check`]; its `main` is `vcore::main(&C)`.
//! The same executable is parent and worker (`--worker`).

use std::collections::{BTreeMap, HashMap, HashSet};
use std::io::{BufRead, BufReader, Write};
use std::path::{Path, PathBuf};
use std::process::{Child, ChildStdin, Command, Stdio};
use std::sync::mpsc;
use std::time::{Duration, Instant};

pub use serde_json::{self, Value, json};

pub mod shm;
pub mod util;

pub const VERIF_ROOT: &str = "/verif";

/// Where evidence and replay files go: /verif, unless VERIF_OUT redirects them
/// (used when a check is run against a scratch copy of the repository).
pub fn out_root() -> PathBuf {
    std::env::var("VERIF_OUT").map(PathBuf::from).unwrap_or_else(|_| PathBuf::from(VERIF_ROOT))
}

/// Reserved sub-case id: set-up work of a unit (building runtimes etc.)
pub const SUB_SETUP: u64 = u64::MAX - 1;
/// Reserved sub-case id: nothing was running
pub const SUB_NONE: u64 = u64::MAX;

#[derive(Clone, Copy, PartialEq, Eq, Debug)]
pub enum Tier {
    Quick,
    Thorough,
}

impl Tier {
    pub fn name(self) -> &'static str {
        match self {
            Tier::Quick => "quick",
            Tier::Thorough => "thorough",
        }
    }
    pub fn pick<T>(self, quick: T, thorough: T) -> T {
        match self {
            Tier::Quick => quick,
            Tier::Thorough => thorough,
        }
    }
}

#[derive(Clone, Debug)]
pub struct Cfg {
    pub tier: Tier,
    pub seed: u64,
}

#[derive(Clone, Debug)]
pub struct Violation {
    /// failure kind: "mismatch", "panic", "signal:SIGFPE", "hang", "leak", ...
    pub class: String,
    pub unit: usize,
    pub sub: u64,
    /// the failing case written out (program text, inputs, history, schedule)
    pub case: Value,
    pub expected: Value,
    pub observed: Value,
}

impl Violation {
    fn to_json(&self) -> Value {
        json!({"class": self.class, "unit": self.unit, "sub": self.sub.to_string(),
               "case": self.case, "expected": self.expected, "observed": self.observed})
    }
    fn from_json(v: &Value) -> Violation {
        Violation {
            class: v["class"].as_str().unwrap_or("").to_string(),
            unit: v["unit"].as_u64().unwrap_or(0) as usize,
            sub: v["sub"].as_str().and_then(|s| s.parse().ok()).unwrap_or(SUB_NONE),
            case: v["case"].clone(),
            expected: v["expected"].clone(),
            observed: v["observed"].clone(),
        }
    }
}

#[derive(Clone, Debug)]
pub struct Finding {
    pub id: String,
    pub property: String,
    pub matcher: String,
    pub params: Value,
    pub description: String,
}

#[derive(Default, Clone, Debug)]
pub struct Meta {
    /// how cases are enumerated and what makes one non-trivial
    pub rule: String,
    pub assumptions: Vec<String>,
    /// bounds of this tier etc.
    pub bounds: Value,
    /// what `states` / `transitions` count in this check
    pub states_are: String,
    pub transitions_are: String,
}

pub trait Check: Sync {
    fn id(&self) -> &'static str;
    /// Number of work units of this tier. Units are handed to workers in
    /// increasing order (simplest first).
    fn units(&self, cfg: &Cfg) -> usize;
    /// Run one unit inside a worker process.
    fn run_unit(&self, unit: usize, cx: &mut Cx);
    /// Write out the case `(unit, sub)`; used by the parent when a worker
    /// died or hung while running it.
    fn describe(&self, cfg: &Cfg, unit: usize, sub: u64) -> Value;
    /// Does the listed known finding cover exactly this violation?
    fn matches(&self, finding: &Finding, v: &Violation) -> bool;
    fn meta(&self, cfg: &Cfg) -> Meta;
    /// Seconds without a new case mark after which a worker is killed.
    fn case_timeout_s(&self, cfg: &Cfg) -> f64 {
        cfg.tier.pick(10.0, 30.0)
    }
    /// Hook run in the parent after all units (global checks on aggregates).
    fn finish(&self, _cfg: &Cfg, _agg: &mut Aggregate) {}
    /// Hook run in the parent before the pool starts (self-tests, lints).
    /// `Err` is a machinery error.
    fn preflight(&self, _cfg: &Cfg) -> Result<(), String> {
        Ok(())
    }
    /// After this many worker deaths in one unit the unit is abandoned (the
    /// deaths are reported as violations; the run is then not exhaustive).
    /// Checks whose known findings are process deaths keep the high default.
    fn max_deaths_per_unit(&self, _cfg: &Cfg) -> u32 {
        5000
    }
    /// Maximum number of workers (default: all cores)
    fn max_jobs(&self, _cfg: &Cfg) -> usize {
        usize::MAX
    }
}

/// What one unit produced (sent worker -> parent as one JSON line)
#[derive(Default, Debug)]
pub struct UnitResult {
    pub counters: BTreeMap<String, u64>,
    pub sets: BTreeMap<String, HashSet<u64>>,
    pub samples: Vec<Value>,
    pub violations: Vec<Violation>,
    pub notes: Vec<String>,
}

impl UnitResult {
    fn to_json(&self) -> Value {
        let sets: BTreeMap<&String, Vec<String>> = self
            .sets
            .iter()
            .map(|(k, s)| (k, s.iter().map(|h| format!("{h:x}")).collect()))
            .collect();
        json!({
            "counters": self.counters,
            "sets": sets,
            "samples": self.samples,
            "violations": self.violations.iter().map(|v| v.to_json()).collect::<Vec<_>>(),
            "notes": self.notes,
        })
    }
    fn from_json(v: &Value) -> UnitResult {
        let mut r = UnitResult::default();
        if let Some(m) = v["counters"].as_object() {
            for (k, n) in m {
                r.counters.insert(k.clone(), n.as_u64().unwrap_or(0));
            }
        }
        if let Some(m) = v["sets"].as_object() {
            for (k, a) in m {
                let s = a
                    .as_array()
                    .map(|a| {
                        a.iter()
                            .filter_map(|x| u64::from_str_radix(x.as_str()?, 16).ok())
                            .collect()
                    })
                    .unwrap_or_default();
                r.sets.insert(k.clone(), s);
            }
        }
        if let Some(a) = v["samples"].as_array() {
            r.samples = a.clone();
        }
        if let Some(a) = v["violations"].as_array() {
            r.violations = a.iter().map(Violation::from_json).collect();
        }
        if let Some(a) = v["notes"].as_array() {
            r.notes = a.iter().filter_map(|x| x.as_str().map(String::from)).collect();
        }
        r
    }
}

/// Worker-side context of one unit
pub struct Cx {
    pub cfg: Cfg,
    pub unit: usize,
    skip: HashSet<u64>,
    only: Option<u64>,
    marks: Option<shm::Marks>,
    pub res: UnitResult,
    max_samples: usize,
}

impl Cx {
    /// Announce that case `sub` of this unit is about to run. Returns `false`
    /// if it must be skipped (it killed a previous worker, or a replay asked
    /// for another case only).
    #[inline]
    pub fn case(&mut self, sub: u64) -> bool {
        if let Some(o) = self.only {
            if o != sub && sub != SUB_SETUP {
                return false;
            }
        }
        if !self.skip.is_empty() && self.skip.contains(&sub) {
            return false;
        }
        if let Some(m) = &self.marks {
            m.mark(self.unit as u64, sub);
        }
        true
    }
    /// true when a replay restricts this unit to one case
    pub fn only(&self) -> Option<u64> {
        self.only
    }
    /// cases of this unit that killed an earlier worker
    pub fn skipped_cases(&self) -> &HashSet<u64> {
        &self.skip
    }
    pub fn count(&mut self, key: &str, n: u64) {
        *self.res.counters.entry(key.to_string()).or_insert(0) += n;
    }
    /// executions of a case on the implementation (evidence: transitions)
    pub fn transitions(&mut self, n: u64) {
        self.count("transitions", n)
    }
    /// distinct cases / abstract states / schedules, distinct by construction
    pub fn states(&mut self, n: u64) {
        self.count("states", n)
    }
    /// case compared against the reference model / oracle
    pub fn validated(&mut self, n: u64) {
        self.count("validated", n)
    }
    /// cases the reference leaves unspecified (skipped for the oracle)
    pub fn unspecified(&mut self, n: u64) {
        self.count("skipped_unspecified", n)
    }
    pub fn set(&mut self, name: &str, h: u64) {
        self.res.sets.entry(name.to_string()).or_default().insert(h);
    }
    /// hash of a distinct case that is non-trivial by the check's rule
    pub fn nontrivial(&mut self, h: u64) {
        self.set("nontrivial", h)
    }
    /// hash of an observation (to detect vacuity)
    pub fn outcome(&mut self, h: u64) {
        self.set("outcomes", h)
    }
    pub fn sample(&mut self, v: Value) {
        if self.res.samples.len() < self.max_samples {
            self.res.samples.push(v);
        }
    }
    /// Ask the parent to run the next unit in a fresh worker process (for
    /// units that may leave parked threads or other process-wide residue).
    pub fn request_restart(&mut self) {
        self.res.counters.insert("__restart".into(), 1);
    }
    pub fn note(&mut self, s: impl Into<String>) {
        if self.res.notes.len() < 20 {
            self.res.notes.push(s.into());
        }
    }
    pub fn violation(
        &mut self,
        class: impl Into<String>,
        sub: u64,
        case: Value,
        expected: Value,
        observed: Value,
    ) {
        self.count("violations_raw", 1);
        // keep the message bounded: at most 200 literal violations per unit,
        // the rest only counted per class
        let class = class.into();
        self.count(&format!("viol:{class}"), 1);
        if self.res.violations.len() < 200 {
            self.res.violations.push(Violation {
                class,
                unit: self.unit,
                sub,
                case,
                expected,
                observed,
            });
        } else {
            self.count("violations_dropped", 1);
        }
    }
}

/// Parent-side aggregate over all units
#[derive(Default)]
pub struct Aggregate {
    pub counters: BTreeMap<String, u64>,
    pub sets: BTreeMap<String, HashSet<u64>>,
    pub samples: Vec<Value>,
    pub violations: Vec<Violation>,
    pub notes: Vec<String>,
    pub crashes: u64,
    pub machinery_errors: Vec<String>,
}

impl Aggregate {
    fn merge(&mut self, r: UnitResult) {
        for (k, n) in r.counters {
            *self.counters.entry(k).or_insert(0) += n;
        }
        for (k, s) in r.sets {
            self.sets.entry(k).or_default().extend(s);
        }
        for s in r.samples {
            if self.samples.len() < 5 {
                self.samples.push(s);
            }
        }
        self.violations.extend(r.violations);
        for n in r.notes {
            if self.notes.len() < 50 {
                self.notes.push(n);
            }
        }
    }
    pub fn counter(&self, k: &str) -> u64 {
        self.counters.get(k).copied().unwrap_or(0)
    }
    pub fn set_len(&self, k: &str) -> u64 {
        self.sets.get(k).map_or(0, |s| s.len() as u64)
    }
}

// ---------------------------------------------------------------- args

struct Args {
    tier: Tier,
    seed: u64,
    replay: Option<PathBuf>,
    worker: Option<String>,
    jobs: usize,
}

fn parse_args() -> Args {
    let mut tier = match std::env::var("VERIF_TIER").as_deref() {
        Ok("thorough") => Tier::Thorough,
        _ => Tier::Quick,
    };
    let seed = std::env::var("VERIF_SEED")
        .ok()
        .and_then(|s| s.parse().ok())
        .unwrap_or(0);
    let jobs = std::env::var("VERIF_JOBS")
        .ok()
        .and_then(|s| s.parse().ok())
        .unwrap_or_else(|| {
            std::thread::available_parallelism().map_or(8, |n| n.get())
        });
    let mut replay = None;
    let mut worker = None;
    let mut it = std::env::args().skip(1);
    while let Some(a) = it.next() {
        match a.as_str() {
            "quick" => tier = Tier::Quick,
            "thorough" => tier = Tier::Thorough,
            "--tier" => {
                tier = match it.next().as_deref() {
                    Some("thorough") => Tier::Thorough,
                    _ => Tier::Quick,
                }
            }
            "--replay" => replay = it.next().map(PathBuf::from),
            "--worker" => worker = it.next(),
            _ => {}
        }
    }
    Args { tier, seed, replay, worker, jobs }
}

// ---------------------------------------------------------------- worker

fn worker_main(check: &dyn Check, cfg: Cfg, shm_path: &str) -> ! {
    util::install_quiet_panic_hook();
    let marks = shm::Marks::open(Path::new(shm_path)).ok();
    let stdin = std::io::stdin();
    let stdout = std::io::stdout();
    let mut line = String::new();
    loop {
        line.clear();
        if stdin.lock().read_line(&mut line).unwrap_or(0) == 0 {
            std::process::exit(0);
        }
        let req: Value = match serde_json::from_str(line.trim()) {
            Ok(v) => v,
            Err(_) => std::process::exit(0),
        };
        if req["quit"].as_bool() == Some(true) {
            std::process::exit(0);
        }
        let unit = req["unit"].as_u64().unwrap() as usize;
        let skip: HashSet<u64> = req["skip"]
            .as_array()
            .map(|a| {
                a.iter()
                    .filter_map(|x| x.as_str().and_then(|s| s.parse().ok()))
                    .collect()
            })
            .unwrap_or_default();
        let only = req["only"].as_str().and_then(|s| s.parse().ok());
        if let Some(m) = &marks {
            m.mark(unit as u64, SUB_NONE);
        }
        let mut cx = Cx {
            cfg: cfg.clone(),
            unit,
            skip,
            only,
            marks: marks.as_ref().map(|m| m.dup()),
            res: UnitResult::default(),
            max_samples: 2,
        };
        check.run_unit(unit, &mut cx);
        if let Some(m) = &marks {
            m.mark(unit as u64, SUB_NONE);
        }
        let out = json!({"unit": unit, "result": cx.res.to_json()});
        let mut o = stdout.lock();
        let _ = writeln!(o, "{}", out);
        let _ = o.flush();
    }
}

// ---------------------------------------------------------------- parent

enum Msg {
    Done(usize, u64, usize, Box<UnitResult>), // slot, generation, unit, result
    Eof(usize, u64),
}

struct Slot {
    child: Child,
    stdin: Option<ChildStdin>,
    marks: shm::Marks,
    shm_path: PathBuf,
    current: Option<(usize, Vec<u64>, Option<u64>)>,
    last_seq: u64,
    last_change: Instant,
    /// CPU seconds the worker (and its reaped children) had used at `last_change`
    cpu_at_change: f64,
    /// (since when, CPU seconds then): the worker has used next to no CPU since that moment
    idle: (Instant, f64),
    killed_for_hang: bool,
    generation: u64,
}

struct Pool<'a> {
    check: &'a dyn Check,
    cfg: Cfg,
    exe: PathBuf,
    tx: mpsc::Sender<Msg>,
    rx: mpsc::Receiver<Msg>,
    slots: Vec<Option<Slot>>,
    next_shm: u64,
}

impl<'a> Pool<'a> {
    fn spawn(&mut self, idx: usize) -> Result<(), String> {
        let shm_path = PathBuf::from(format!(
            "/dev/shm/verif-{}-{}-{}",
            std::process::id(),
            idx,
            self.next_shm
        ));
        self.next_shm += 1;
        let marks = shm::Marks::create(&shm_path).map_err(|e| format!("shm: {e}"))?;
        let mut child = Command::new(&self.exe)
            .arg("--tier")
            .arg(self.cfg.tier.name())
            .arg("--worker")
            .arg(&shm_path)
            .env("VERIF_SEED", self.cfg.seed.to_string())
            .stdin(Stdio::piped())
            .stdout(Stdio::piped())
            .stderr(if std::env::var("VERIF_WORKER_STDERR").is_ok() { Stdio::inherit() } else { Stdio::null() })
            .spawn()
            .map_err(|e| format!("spawn worker: {e}"))?;
        let stdin = child.stdin.take();
        let stdout = child.stdout.take().unwrap();
        let tx = self.tx.clone();
        let generation = self.next_shm;
        std::thread::spawn(move || {
            let mut rd = BufReader::with_capacity(1 << 16, stdout);
            let mut raw: Vec<u8> = Vec::new();
            loop {
                // bytes, not `read_line`: a worker (or roto itself) may print
                // something that is not UTF-8; that must not look like EOF
                raw.clear();
                match rd.read_until(b'\n', &mut raw) {
                    Ok(0) | Err(_) => break,
                    Ok(_) => {
                        let line = String::from_utf8_lossy(&raw);
                        if let Ok(v) = serde_json::from_str::<Value>(line.trim()) {
                            let unit = v["unit"].as_u64().unwrap_or(0) as usize;
                            let r = UnitResult::from_json(&v["result"]);
                            let _ = tx.send(Msg::Done(idx, generation, unit, Box::new(r)));
                        }
                    }
                }
            }
            let _ = tx.send(Msg::Eof(idx, generation));
        });
        self.slots[idx] = Some(Slot {
            child,
            stdin,
            marks,
            shm_path,
            current: None,
            last_seq: 0,
            last_change: Instant::now(),
            cpu_at_change: 0.0,
            idle: (Instant::now(), 0.0),
            killed_for_hang: false,
            generation,
        });
        Ok(())
    }

    fn assign(&mut self, idx: usize, unit: usize, skip: Vec<u64>, only: Option<u64>) -> bool {
        let slot = self.slots[idx].as_mut().unwrap();
        let req = json!({
            "unit": unit,
            "skip": skip.iter().map(|s| s.to_string()).collect::<Vec<_>>(),
            "only": only.map(|o| o.to_string()),
        });
        slot.current = Some((unit, skip, only));
        slot.last_change = Instant::now();
        slot.cpu_at_change = proc_cpu_s(slot.child.id()).unwrap_or(0.0);
        slot.last_seq = slot.marks.read().0;
        if let Some(si) = slot.stdin.as_mut() {
            writeln!(si, "{}", req).and_then(|_| si.flush()).is_ok()
        } else {
            false
        }
    }

    fn retire(&mut self, idx: usize) {
        if let Some(mut s) = self.slots[idx].take() {
            drop(s.stdin.take());
            let _ = s.child.kill();
            let _ = s.child.wait();
            let _ = std::fs::remove_file(&s.shm_path);
        }
    }
}

fn signal_name(sig: i32) -> String {
    match sig {
        4 => "SIGILL".into(),
        6 => "SIGABRT".into(),
        7 => "SIGBUS".into(),
        8 => "SIGFPE".into(),
        9 => "SIGKILL".into(),
        11 => "SIGSEGV".into(),
        5 => "SIGTRAP".into(),
        n => format!("SIG{n}"),
    }
}

/// Run units `queue` (unit, only) on the pool and aggregate.
fn run_pool(
    check: &dyn Check,
    cfg: &Cfg,
    jobs: usize,
    mut queue: std::collections::VecDeque<(usize, Vec<u64>, Option<u64>)>,
    cap_s: f64,
) -> Aggregate {
    use std::os::unix::process::ExitStatusExt;
    let mut agg = Aggregate::default();
    let (tx, rx) = mpsc::channel();
    let exe = std::env::current_exe().expect("current_exe");
    let jobs = jobs.min(queue.len().max(1)).min(check.max_jobs(cfg)).max(1);
    let mut pool = Pool {
        check,
        cfg: cfg.clone(),
        exe,
        tx,
        rx,
        slots: (0..jobs).map(|_| None).collect(),
        next_shm: 0,
    };
    let _ = pool.check;
    let timeout = Duration::from_secs_f64(check.case_timeout_s(cfg));
    let death_cap = check.max_deaths_per_unit(cfg);
    let start = Instant::now();
    let mut crashes_per_unit: HashMap<usize, u32> = HashMap::new();
    let mut outstanding = 0usize;
    let mut capped = false;

    for i in 0..jobs {
        if let Err(e) = pool.spawn(i) {
            agg.machinery_errors.push(e);
            return agg;
        }
    }
    // initial assignment
    for i in 0..jobs {
        if let Some((u, skip, only)) = queue.pop_front() {
            if pool.assign(i, u, skip, only) {
                outstanding += 1;
            }
        }
    }

    while outstanding > 0 {
        let msg = pool.rx.recv_timeout(Duration::from_millis(100));
        match msg {
            Ok(Msg::Done(idx, generation, unit, r)) => {
                let ok = pool.slots[idx]
                    .as_ref()
                    .filter(|s| s.generation == generation)
                    .and_then(|s| s.current.as_ref())
                    .map_or(false, |c| c.0 == unit);
                if !ok {
                    continue;
                }
                let mut r = r;
                let restart = r.counters.remove("__restart").is_some();
                agg.merge(*r);
                *agg.counters.entry("units_done".into()).or_insert(0) += 1;
                outstanding -= 1;
                pool.slots[idx].as_mut().unwrap().current = None;
                if restart {
                    pool.retire(idx);
                    if let Err(e) = pool.spawn(idx) {
                        agg.machinery_errors.push(e);
                        continue;
                    }
                }
                if start.elapsed().as_secs_f64() > cap_s && !queue.is_empty() {
                    capped = true;
                    queue.clear();
                }
                if let Some((u, skip, only)) = queue.pop_front() {
                    if pool.assign(idx, u, skip, only) {
                        outstanding += 1;
                    }
                }
            }
            Ok(Msg::Eof(idx, generation)) => {
                let Some(slot) = pool.slots[idx].as_mut() else { continue };
                if slot.generation != generation {
                    continue; // a worker that was retired on purpose
                }
                let status = slot.child.wait().ok();
                let (_seq, m_unit, m_sub) = slot.marks.read();
                let hung = slot.killed_for_hang;
                let current = slot.current.take();
                pool.retire(idx);
                let Some((unit, mut skip, only)) = current else {
                    // idle worker died: respawn quietly
                    if let Err(e) = pool.spawn(idx) {
                        agg.machinery_errors.push(e);
                    }
                    continue;
                };
                outstanding -= 1;
                agg.crashes += 1;
                let sub = if m_unit == unit as u64 { m_sub } else { SUB_NONE };
                let class = if hung {
                    "hang".to_string()
                } else {
                    match status {
                        Some(st) => match st.signal() {
                            Some(sig) => format!("signal:{}", signal_name(sig)),
                            None => format!("exit:{}", st.code().unwrap_or(-1)),
                        },
                        None => "died".to_string(),
                    }
                };
                let n = crashes_per_unit.entry(unit).or_insert(0);
                *n += 1;
                if sub == SUB_NONE {
                    agg.machinery_errors.push(format!(
                        "worker died ({class}) in unit {unit} outside any marked case"
                    ));
                } else {
                    let case = check.describe(cfg, unit, sub);
                    agg.violations.push(Violation {
                        class,
                        unit,
                        sub,
                        case,
                        expected: json!("the worker process survives this case"),
                        observed: json!("worker process died / was killed by the watchdog"),
                    });
                    if sub != SUB_SETUP && !skip.contains(&sub) && *n < death_cap {
                        skip.push(sub);
                        if only.is_none() {
                            queue.push_front((unit, skip, only));
                        }
                    } else if *n >= death_cap {
                        agg.machinery_errors.push(format!(
                            "unit {unit}: abandoned after {death_cap} worker deaths (each is reported as a violation)"
                        ));
                    }
                }
                if let Err(e) = pool.spawn(idx) {
                    agg.machinery_errors.push(e);
                    continue;
                }
                if let Some((u, skip, only)) = queue.pop_front() {
                    if pool.assign(idx, u, skip, only) {
                        outstanding += 1;
                    }
                }
            }
            Err(mpsc::RecvTimeoutError::Timeout) => {}
            Err(mpsc::RecvTimeoutError::Disconnected) => break,
        }
        // watchdog
        let now = Instant::now();
        for slot in pool.slots.iter_mut().flatten() {
            if slot.current.is_none() || slot.killed_for_hang {
                continue;
            }
            // A case hangs when the worker has burnt `timeout` seconds of CPU on it
            // (independent of how loaded the machine is), when `timeout` of wall clock
            // has passed and it is blocked (all threads asleep, no CPU used), or when it
            // has made no progress for 8 x `timeout` of wall clock.
            let seq = slot.marks.read().0;
            let cpu_now = proc_cpu_s(slot.child.id());
            // the idle window restarts whenever the worker has burnt CPU
            if cpu_now.is_none_or(|c| c - slot.idle.1 > 0.2) {
                slot.idle = (now, cpu_now.unwrap_or(0.0));
            }
            if seq != slot.last_seq {
                slot.last_seq = seq;
                slot.last_change = now;
                slot.cpu_at_change = cpu_now.unwrap_or(0.0);
                slot.idle = (now, cpu_now.unwrap_or(0.0));
            } else if now.duration_since(slot.last_change) > timeout {
                let wall = now.duration_since(slot.last_change);
                let cpu = cpu_now.map(|c| c - slot.cpu_at_change);
                // blocked: every thread of the worker sleeps, it has used next to no CPU for
                // `timeout` of wall clock (a starved worker is runnable, not asleep; a case
                // may have worked for a while before it got stuck) and it is not waiting for
                // a child process of its own
                let blocked = cpu_now.is_some()
                    && now.duration_since(slot.idle.0) > timeout
                    && proc_all_threads_asleep(slot.child.id())
                    && !proc_has_children(slot.child.id());
                if cpu.is_none_or(|c| c > timeout.as_secs_f64()) || blocked || wall > timeout * 8 {
                    slot.killed_for_hang = true;
                    let _ = slot.child.kill();
                }
            }
        }
    }
    for i in 0..jobs {
        pool.retire(i);
    }
    if capped {
        agg.machinery_errors.push(format!(
            "wall-clock cap of {cap_s} s hit before all units were handed out"
        ));
    }
    agg
}

/// user + system CPU seconds of a process and of the children it has waited for
fn proc_cpu_s(pid: u32) -> Option<f64> {
    let stat = std::fs::read_to_string(format!("/proc/{pid}/stat")).ok()?;
    // fields after the parenthesised command name: state is field 3, utime 14 .. cstime 17
    let rest = &stat[stat.rfind(')')? + 1..];
    let f: Vec<&str> = rest.split_whitespace().collect();
    let ticks: u64 = (11..15).map(|i| f.get(i).and_then(|x| x.parse::<u64>().ok())).sum::<Option<u64>>()?;
    let hz = unsafe { libc::sysconf(libc::_SC_CLK_TCK) }.max(1) as f64;
    Some(ticks as f64 / hz)
}

/// Does the process have child processes (it may be waiting for one)?
fn proc_has_children(pid: u32) -> bool {
    let Ok(tasks) = std::fs::read_dir(format!("/proc/{pid}/task")) else { return false };
    for t in tasks.flatten() {
        match std::fs::read_to_string(t.path().join("children")) {
            Ok(c) if !c.trim().is_empty() => return true,
            Ok(_) => {}
            // no CONFIG_PROC_CHILDREN: be conservative
            Err(_) => return true,
        }
    }
    false
}

/// Are all threads of the process in an (interruptible or uninterruptible) sleep?
fn proc_all_threads_asleep(pid: u32) -> bool {
    let Ok(tasks) = std::fs::read_dir(format!("/proc/{pid}/task")) else { return false };
    let mut any = false;
    for t in tasks.flatten() {
        let Ok(stat) = std::fs::read_to_string(t.path().join("stat")) else { continue };
        let Some(i) = stat.rfind(')') else { continue };
        let state = stat[i + 1..].split_whitespace().next().unwrap_or("R");
        any = true;
        if !matches!(state, "S" | "D") {
            return false;
        }
    }
    any
}

fn load_findings(property: &str) -> Vec<Finding> {
    let mut all = load_findings_file(&Path::new(VERIF_ROOT).join("known_findings.json"), property);
    // per-property staging file used while a check is being developed
    all.extend(load_findings_file(
        &Path::new(VERIF_ROOT).join("known_findings.d").join(format!("{property}.json")),
        property,
    ));
    all
}

fn load_findings_file(p: &Path, property: &str) -> Vec<Finding> {
    let Ok(s) = std::fs::read_to_string(p) else { return vec![] };
    let Ok(v) = serde_json::from_str::<Value>(&s) else { return vec![] };
    v["findings"]
        .as_array()
        .map(|a| {
            a.iter()
                .filter(|f| f["property"].as_str() == Some(property))
                .map(|f| Finding {
                    id: f["id"].as_str().unwrap_or("").into(),
                    property: property.into(),
                    matcher: f["matcher"].as_str().unwrap_or("").into(),
                    params: f["params"].clone(),
                    description: f["description"].as_str().unwrap_or("").into(),
                })
                .collect()
        })
        .unwrap_or_default()
}

pub fn main(check: &dyn Check) -> ! {
    let args = parse_args();
    let cfg = Cfg { tier: args.tier, seed: args.seed };
    if let Some(shm) = &args.worker {
        worker_main(check, cfg, shm);
    }
    let id = check.id();
    let start = Instant::now();
    let findings = load_findings(id);

    if let Some(path) = &args.replay {
        std::process::exit(replay(check, &cfg, path, &findings));
    }

    if let Err(e) = check.preflight(&cfg) {
        eprintln!("MACHINERY-ERROR property={id} preflight: {e}");
        std::process::exit(2);
    }

    let n_units = check.units(&cfg);
    let queue = (0..n_units).map(|u| (u, vec![], None)).collect();
    let cap_s = std::env::var("VERIF_CAP_S")
        .ok()
        .and_then(|s| s.parse().ok())
        .unwrap_or(cfg.tier.pick(900.0, 6.0 * 3600.0));
    let mut agg = run_pool(check, &cfg, args.jobs, queue, cap_s);
    check.finish(&cfg, &mut agg);

    // triage aid: VERIF_DUMP=<file> writes every violation as one JSON line
    if let Ok(path) = std::env::var("VERIF_DUMP") {
        let mut out = String::new();
        for v in &agg.violations {
            out.push_str(&v.to_json().to_string());
            out.push('\n');
        }
        let _ = std::fs::write(path, out);
    }
    // classify
    let mut known_seen: BTreeMap<String, (u64, String)> = BTreeMap::new();
    let mut unlisted: Vec<&Violation> = vec![];
    for v in &agg.violations {
        match findings.iter().find(|f| check.matches(f, v)) {
            Some(f) => {
                let e = known_seen
                    .entry(f.id.clone())
                    .or_insert((0, f.description.clone()));
                e.0 += 1;
            }
            None => unlisted.push(v),
        }
    }
    // counted-only violations beyond the 200 literal ones per unit cannot be
    // classified; they only exist if a unit had > 200 violations
    let dropped = agg.counter("violations_dropped");

    let replay_dir = out_root().join("replays");
    let _ = std::fs::create_dir_all(&replay_dir);
    for (fid, (n, desc)) in &known_seen {
        println!("KNOWN-FINDING: property={id} {fid}: {desc} ({n} cases)");
    }
    let mut per_class: HashMap<String, u32> = HashMap::new();
    let mut written = 0;
    for v in unlisted.iter() {
        let c = per_class.entry(v.class.clone()).or_insert(0);
        *c += 1;
        if *c > 5 || written >= 25 {
            continue;
        }
        let path = replay_dir.join(format!("{id}-{}-{written}.json", cfg.tier.name()));
        let body = json!({
            "property": id, "tier": cfg.tier.name(), "seed": cfg.seed,
            "unit": v.unit, "sub": v.sub.to_string(), "class": v.class,
            "case": v.case, "expected": v.expected, "observed": v.observed,
        });
        let _ = std::fs::write(&path, serde_json::to_string_pretty(&body).unwrap());
        println!("VIOLATION property={id} replay={}", path.display());
        written += 1;
    }
    if !unlisted.is_empty() {
        let mut cl: Vec<_> = per_class.iter().collect();
        cl.sort();
        println!(
            "{id}: {} unlisted violations in classes {:?} ({} replay files written)",
            unlisted.len(),
            cl,
            written
        );
    }
    if dropped > 0 && unlisted.is_empty() {
        // more than 200 violations in one unit, all classified ones known
        println!("{id}: note: {dropped} further violations were only counted");
    }

    // evidence
    let meta = check.meta(&cfg);
    let exhaustive = agg.machinery_errors.is_empty();
    let states = agg.counter("states").max(agg.set_len("states"));
    let transitions = agg.counter("transitions");
    let mut counters = agg.counters.clone();
    for k in ["states", "transitions"] {
        counters.remove(k);
    }
    let samples = if agg.samples.is_empty() {
        vec![json!("(no sample recorded)")]
    } else {
        agg.samples.clone()
    };
    let ev = json!({
        "property_id": id,
        "tier": cfg.tier.name(),
        "seed": cfg.seed,
        "level": "model_checking",
        "coverage": {
            "states": states,
            "transitions": transitions,
            "traces_validated_against_impl": agg.counter("validated"),
            "samples": samples,
            "evaluations": transitions,
            "distinct_nontrivial": agg.set_len("nontrivial"),
            "distinct_outcomes": agg.set_len("outcomes"),
            "rule": meta.rule,
            "states_are": meta.states_are,
            "transitions_are": meta.transitions_are,
            "exhaustive": exhaustive,
            "bounds": meta.bounds,
            "units": n_units,
            "skipped_unspecified": agg.counter("skipped_unspecified"),
            "worker_deaths": agg.crashes,
            "counters": counters,
            "known_findings_seen": known_seen.iter().map(|(k, (n, _))| json!({"id": k, "cases": n})).collect::<Vec<_>>(),
            "unlisted_violations": unlisted.len() as u64 + dropped * (unlisted.len().min(1) as u64),
            "machinery_errors": agg.machinery_errors,
            "notes": agg.notes,
        },
        "assumptions": meta.assumptions,
        "wall_s": start.elapsed().as_secs_f64(),
        "violations": unlisted.len(),
    });
    let ev_dir = out_root().join("evidence");
    let _ = std::fs::create_dir_all(&ev_dir);
    let _ = std::fs::write(
        ev_dir.join(format!("{id}.json")),
        serde_json::to_string_pretty(&ev).unwrap() + "\n",
    );
    println!(
        "{id} {}: units={} states={} transitions={} nontrivial={} outcomes={} known={} unlisted={} deaths={} wall={:.1}s",
        cfg.tier.name(),
        n_units,
        states,
        transitions,
        agg.set_len("nontrivial"),
        agg.set_len("outcomes"),
        known_seen.values().map(|x| x.0).sum::<u64>(),
        unlisted.len(),
        agg.crashes,
        start.elapsed().as_secs_f64()
    );
    if !unlisted.is_empty() {
        std::process::exit(1);
    }
    if !agg.machinery_errors.is_empty() {
        for e in &agg.machinery_errors {
            eprintln!("MACHINERY-ERROR property={id} {e}");
        }
        std::process::exit(2);
    }
    if transitions == 0 {
        eprintln!("MACHINERY-ERROR property={id} nothing was explored");
        std::process::exit(2);
    }
    std::process::exit(0);
}

/// Re-run exactly one recorded case twice, outside the explorer's loop.
fn replay(check: &dyn Check, cfg0: &Cfg, path: &Path, findings: &[Finding]) -> i32 {
    let id = check.id();
    let Ok(s) = std::fs::read_to_string(path) else {
        eprintln!("cannot read {}", path.display());
        return 2;
    };
    let Ok(v) = serde_json::from_str::<Value>(&s) else {
        eprintln!("cannot parse {}", path.display());
        return 2;
    };
    let tier = if v["tier"].as_str() == Some("thorough") { Tier::Thorough } else { Tier::Quick };
    let seed = v["seed"].as_u64().unwrap_or(cfg0.seed);
    let cfg = Cfg { tier, seed };
    let unit = v["unit"].as_u64().unwrap_or(0) as usize;
    let sub: u64 = v["sub"].as_str().and_then(|s| s.parse().ok()).unwrap_or(SUB_NONE);
    let mut obs = vec![];
    for _ in 0..2 {
        let mut q = std::collections::VecDeque::new();
        q.push_back((unit, vec![], Some(sub)));
        let agg = run_pool(check, &cfg, 1, q, 3600.0);
        let mut o: Vec<String> = agg
            .violations
            .iter()
            .filter(|x| x.sub == sub || sub == SUB_SETUP)
            .map(|x| format!("{} | {}", x.class, x.observed))
            .collect();
        o.sort();
        obs.push((o, agg.violations));
    }
    if obs[0].0 != obs[1].0 {
        eprintln!(
            "MACHINERY-ERROR property={id} replay diverged: {:?} vs {:?}",
            obs[0].0, obs[1].0
        );
        return 2;
    }
    if obs[0].0.is_empty() {
        println!("{id}: replay of unit {unit} case {sub}: no violation reproduced");
        return 0;
    }
    for v in &obs[0].1 {
        let known = findings.iter().find(|f| check.matches(f, v));
        println!(
            "{id}: replayed twice, identical: class={} known={:?}\n  case: {}\n  expected: {}\n  observed: {}",
            v.class,
            known.map(|f| &f.id),
            v.case,
            v.expected,
            v.observed
        );
    }
    println!("VIOLATION property={id} replay={}", path.display());
    1
}
