//! The host side every harness registers into its `Runtime`: sinks that log
//! what scripts pass to the host (`emit_*`), effect markers (`e`, `eb`),
//! sources, and drop-tracked registered types with a global ledger.
//!
//! This crate is compiled at opt-level 3 on purpose (see DESIGN N3).

use std::cell::RefCell;
use std::collections::HashMap;
use std::sync::Mutex;

use roto::{Library, RotoString, Val, library};

pub mod alloc_count;

// ------------------------------------------------------------------ compile

use roto::{FileTree, NoCtx, Package, Runtime};

/// A runtime with all host items registered
pub fn runtime() -> Runtime<NoCtx> {
    Runtime::from_lib(lib()).expect("host library registers")
}

#[derive(Debug, Clone)]
pub enum CompileFail {
    /// an error report (rendered without colour)
    Report(String),
    /// the compiler panicked: message @ location
    Panic(String),
}

/// Compile a single-file script through the public pipeline.
pub fn compile(rt: &Runtime<NoCtx>, src: &str) -> Result<Package<NoCtx>, CompileFail> {
    match vcore::util::catch(|| FileTree::test_file("script.roto", src, 0).compile(rt)) {
        Ok(Ok(p)) => Ok(p),
        Ok(Err(report)) => {
            let mut s = String::new();
            match vcore::util::catch(|| report.write(&mut s, false)) {
                Ok(_) => Err(CompileFail::Report(s)),
                Err(p) => Err(CompileFail::Panic(format!("while rendering report: {p}"))),
            }
        }
        Err(p) => Err(CompileFail::Panic(p)),
    }
}

// ------------------------------------------------------------------ log

#[derive(Clone, Debug, PartialEq)]
pub enum Ev {
    /// `emit_<ty>(value)`, integers widened
    Int(&'static str, i128),
    /// float bits (NaNs canonicalised)
    F32(u32),
    F64(u64),
    Bool(bool),
    Char(u32),
    Str(String),
    /// `e(k)`
    Mark(i32),
    /// `eb(k, b)`
    MarkB(i32, bool),
    /// tracked value observed: payload
    Tr(u64),
    K(u32),
    Unit,
}

thread_local! {
    static LOG: RefCell<Vec<Ev>> = const { RefCell::new(Vec::new()) };
}

pub fn log(ev: Ev) {
    LOG.with(|l| l.borrow_mut().push(ev));
}

pub fn take_log() -> Vec<Ev> {
    LOG.with(|l| std::mem::take(&mut *l.borrow_mut()))
}

pub fn clear_log() {
    LOG.with(|l| l.borrow_mut().clear());
}

pub fn canon_f32(x: f32) -> u32 {
    if x.is_nan() { 0x7fc0_0000 } else { x.to_bits() }
}
pub fn canon_f64(x: f64) -> u64 {
    if x.is_nan() { 0x7ff8_0000_0000_0000 } else { x.to_bits() }
}

// ------------------------------------------------------------------ ledger

#[derive(Clone, Debug, PartialEq, Eq)]
pub enum Anomaly {
    /// drop of an id that is not live (double drop)
    DoubleDrop(u64),
    /// clone of an id that is not live (use after drop)
    CloneOfDead(u64),
    /// clone/drop/read of memory that never was a Tr (magic mismatch)
    Garbage { id: u64, op: &'static str },
    /// more zero-sized values dropped than created
    ZUnderflow,
    /// a value was READ (compared) after it had been dropped
    ReadOfDead(u64),
}

#[derive(Default)]
pub struct Ledger {
    next: u64,
    pub live: HashMap<u64, u64>, // id -> payload
    pub z_live: i64,
    pub anomalies: Vec<Anomaly>,
    pub created: u64,
    pub dropped: u64,
}

static LEDGER: Mutex<Option<Ledger>> = Mutex::new(None);

fn with_ledger<T>(f: impl FnOnce(&mut Ledger) -> T) -> T {
    let mut g = LEDGER.lock().unwrap_or_else(|e| e.into_inner());
    f(g.get_or_insert_with(Ledger::default))
}

/// Snapshot: (live tracked values, live zero-sized values, anomalies)
pub fn ledger_snapshot() -> (Vec<(u64, u64)>, i64, Vec<Anomaly>) {
    with_ledger(|l| {
        let mut v: Vec<_> = l.live.iter().map(|(a, b)| (*a, *b)).collect();
        v.sort();
        (v, l.z_live, l.anomalies.clone())
    })
}

pub fn ledger_reset() {
    with_ledger(|l| *l = Ledger::default());
}

pub fn ledger_counts() -> (u64, u64) {
    with_ledger(|l| (l.created, l.dropped))
}

const MAGIC: u64 = 0x5A17_C0DE_D00D_F00D;

/// 24-byte drop-tracked clone type
#[repr(C)]
pub struct Tr {
    id: u64,
    magic: u64,
    pub payload: u64,
}

impl Tr {
    pub fn new(payload: u64) -> Tr {
        let id = with_ledger(|l| {
            l.next += 1;
            l.created += 1;
            let id = l.next;
            l.live.insert(id, payload);
            id
        });
        Tr { id, magic: id ^ MAGIC, payload }
    }
    fn valid(&self) -> bool {
        self.magic == self.id ^ MAGIC
    }
    pub fn id(&self) -> u64 {
        self.id
    }
}

impl Clone for Tr {
    fn clone(&self) -> Tr {
        if !self.valid() {
            with_ledger(|l| l.anomalies.push(Anomaly::Garbage { id: self.id, op: "clone" }));
            return Tr::new(0xBAD);
        }
        let live = with_ledger(|l| l.live.contains_key(&self.id));
        if !live {
            with_ledger(|l| l.anomalies.push(Anomaly::CloneOfDead(self.id)));
        }
        Tr::new(self.payload)
    }
}

impl Drop for Tr {
    fn drop(&mut self) {
        if !self.valid() {
            with_ledger(|l| l.anomalies.push(Anomaly::Garbage { id: self.id, op: "drop" }));
            return;
        }
        with_ledger(|l| {
            l.dropped += 1;
            if l.live.remove(&self.id).is_none() {
                l.anomalies.push(Anomaly::DoubleDrop(self.id));
            }
        });
    }
}

impl PartialEq for Tr {
    fn eq(&self, o: &Tr) -> bool {
        if !self.valid() || !o.valid() {
            with_ledger(|l| l.anomalies.push(Anomaly::Garbage { id: self.id, op: "eq" }));
        } else {
            // "none is read after it was dropped": both operands must be live
            for x in [self, o] {
                if !with_ledger(|l| l.live.contains_key(&x.id)) {
                    with_ledger(|l| l.anomalies.push(Anomaly::ReadOfDead(x.id)));
                }
            }
        }
        self.payload == o.payload
    }
}

impl std::fmt::Debug for Tr {
    fn fmt(&self, f: &mut std::fmt::Formatter<'_>) -> std::fmt::Result {
        write!(f, "Tr({})", self.payload)
    }
}

/// zero-sized drop-tracked clone type
pub struct Z;

impl Z {
    pub fn new() -> Z {
        with_ledger(|l| l.z_live += 1);
        Z
    }
}
impl Default for Z {
    fn default() -> Self {
        Z::new()
    }
}
impl Clone for Z {
    fn clone(&self) -> Z {
        Z::new()
    }
}
impl Drop for Z {
    fn drop(&mut self) {
        with_ledger(|l| {
            l.z_live -= 1;
            if l.z_live < 0 {
                l.anomalies.push(Anomaly::ZUnderflow);
            }
        });
    }
}
impl PartialEq for Z {
    fn eq(&self, _: &Z) -> bool {
        true
    }
}
impl std::fmt::Debug for Z {
    fn fmt(&self, f: &mut std::fmt::Formatter<'_>) -> std::fmt::Result {
        write!(f, "Z")
    }
}

/// 4-byte copy type
#[derive(Clone, Copy, PartialEq, Eq, Debug)]
pub struct K(pub u32);

// ------------------------------------------------------------------ library

/// All host items. Roto names: `emit_<ty>`, `echo_<ty>`, `e`, `eb`, `Tr`, `Z`,
/// `K`, `mk`, `val`, `peek`, `mkz`, `mkk`, `kval`, `wide_<ty>`.
pub fn lib() -> Library {
    let env_a: u64 = std::hint::black_box(MAGIC);
    let env_b: u64 = std::hint::black_box(MAGIC);
    let env_c: u64 = std::hint::black_box(MAGIC);
    library! {
        fn emit_u8(x: u8) { log(Ev::Int("u8", x as i128)); }
        fn emit_u16(x: u16) { log(Ev::Int("u16", x as i128)); }
        fn emit_u32(x: u32) { log(Ev::Int("u32", x as i128)); }
        fn emit_u64(x: u64) { log(Ev::Int("u64", x as i128)); }
        fn emit_i8(x: i8) { log(Ev::Int("i8", x as i128)); }
        fn emit_i16(x: i16) { log(Ev::Int("i16", x as i128)); }
        fn emit_i32(x: i32) { log(Ev::Int("i32", x as i128)); }
        fn emit_i64(x: i64) { log(Ev::Int("i64", x as i128)); }
        fn emit_f32(x: f32) { log(Ev::F32(canon_f32(x))); }
        fn emit_f64(x: f64) { log(Ev::F64(canon_f64(x))); }
        fn emit_bool(x: bool) { log(Ev::Bool(x)); }
        fn emit_char(x: char) { log(Ev::Char(x as u32)); }
        fn emit_str(x: RotoString) { log(Ev::Str(x.to_string())); }
        fn emit_unit(x: ()) { let _ = x; log(Ev::Unit); }

        fn echo_u8(x: u8) -> u8 { x }
        fn echo_u16(x: u16) -> u16 { x }
        fn echo_u32(x: u32) -> u32 { x }
        fn echo_u64(x: u64) -> u64 { x }
        fn echo_i8(x: i8) -> i8 { x }
        fn echo_i16(x: i16) -> i16 { x }
        fn echo_i32(x: i32) -> i32 { x }
        fn echo_i64(x: i64) -> i64 { x }

        /// widen: what an optimised host function sees in the full register
        fn wide_u8(x: u8) -> u64 { x as u64 }
        fn wide_u16(x: u16) -> u64 { x as u64 }
        fn wide_u32(x: u32) -> u64 { x as u64 }
        fn wide_i8(x: i8) -> i64 { x as i64 }
        fn wide_i16(x: i16) -> i64 { x as i64 }
        fn wide_i32(x: i32) -> i64 { x as i64 }
        fn wide_bool(x: bool) -> u64 { x as u64 }

        /// effect marker returning its argument (a closure that reads its
        /// environment: a host function object that is not zero-sized, so that
        /// whoever calls it through a stale address logs and returns garbage)
        let e = move |k: i32| -> i32 { let k = k ^ (env_a ^ MAGIC) as i32; log(Ev::Mark(k)); k };
        /// effect marker returning the decimal string of `k`
        let es = move |k: i32| -> RotoString { let k = k ^ (env_b ^ MAGIC) as i32; log(Ev::Mark(k)); RotoString::from(k.to_string()) };
        /// effect marker returning `b`
        let eb = move |k: i32, b: bool| -> bool { let k = k ^ (env_c ^ MAGIC) as i32; log(Ev::MarkB(k, b)); b };

        #[clone] type Tr = Val<Tr>;
        #[clone] type Z = Val<Z>;
        #[copy] type K = Val<K>;

        fn mk(k: u64) -> Val<Tr> { Val(Tr::new(k)) }
        /// consume a tracked value, return its payload
        fn val(t: Val<Tr>) -> u64 { t.0.payload }
        fn emit_tr(t: Val<Tr>) { log(Ev::Tr(t.0.payload)); }
        fn mkz() -> Val<Z> { Val(Z::new()) }
        fn eatz(z: Val<Z>) { let _ = z; }
        fn mkk(k: u32) -> Val<K> { Val(K(k)) }
        fn kval(k: Val<K>) -> u32 { k.0.0 }
        fn emit_k(k: Val<K>) { log(Ev::K(k.0.0)); }

        impl Val<Tr> {
            fn payload(t: Val<Tr>) -> u64 { t.0.payload }
        }

        impl Val<K> {
            /// a host-registered `to_string` that is observable (f-string parts of this type)
            fn to_string(k: Val<K>) -> RotoString { log(Ev::K(k.0.0)); RotoString::from(format!("K{}", k.0.0)) }
        }
    }
}
