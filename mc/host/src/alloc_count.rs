//! A counting global allocator a harness binary can install with
//! `#[global_allocator] static A: host::alloc_count::Counting = host::alloc_count::Counting;`

use std::alloc::{GlobalAlloc, Layout, System};
use std::sync::atomic::{AtomicI64, AtomicU64, Ordering};

pub struct Counting;

static LIVE: AtomicI64 = AtomicI64::new(0);
static ALLOCS: AtomicU64 = AtomicU64::new(0);

unsafe impl GlobalAlloc for Counting {
    unsafe fn alloc(&self, l: Layout) -> *mut u8 {
        LIVE.fetch_add(1, Ordering::Relaxed);
        ALLOCS.fetch_add(1, Ordering::Relaxed);
        unsafe { System.alloc(l) }
    }
    unsafe fn dealloc(&self, p: *mut u8, l: Layout) {
        LIVE.fetch_sub(1, Ordering::Relaxed);
        unsafe { System.dealloc(p, l) }
    }
    unsafe fn realloc(&self, p: *mut u8, l: Layout, n: usize) -> *mut u8 {
        unsafe { System.realloc(p, l, n) }
    }
    unsafe fn alloc_zeroed(&self, l: Layout) -> *mut u8 {
        LIVE.fetch_add(1, Ordering::Relaxed);
        ALLOCS.fetch_add(1, Ordering::Relaxed);
        unsafe { System.alloc_zeroed(l) }
    }
}

/// number of live heap blocks
pub fn live_blocks() -> i64 {
    LIVE.load(Ordering::Relaxed)
}
pub fn total_allocs() -> u64 {
    ALLOCS.load(Ordering::Relaxed)
}
