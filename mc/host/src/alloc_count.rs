//! A counting global allocator a harness binary can install with
//! `#[global_allocator] static A: host::alloc_count::Counting = host::alloc_count::Counting;`

use std::alloc::{GlobalAlloc, Layout, System};
use std::sync::atomic::{AtomicI64, AtomicU64, Ordering};

pub struct Counting;

static LIVE: AtomicI64 = AtomicI64::new(0);
static ALLOCS: AtomicU64 = AtomicU64::new(0);
/// live blocks whose alignment is a page or more (cranelift-jit takes the pages
/// of a module's code, read-only data and data from `std::alloc` like this)
static LIVE_PAGE_BLOCKS: AtomicI64 = AtomicI64::new(0);
static LIVE_PAGE_BYTES: AtomicI64 = AtomicI64::new(0);

fn page(l: Layout, sign: i64) {
    if l.align() >= 4096 {
        LIVE_PAGE_BLOCKS.fetch_add(sign, Ordering::Relaxed);
        LIVE_PAGE_BYTES.fetch_add(sign * l.size() as i64, Ordering::Relaxed);
    }
}

unsafe impl GlobalAlloc for Counting {
    unsafe fn alloc(&self, l: Layout) -> *mut u8 {
        LIVE.fetch_add(1, Ordering::Relaxed);
        ALLOCS.fetch_add(1, Ordering::Relaxed);
        page(l, 1);
        unsafe { System.alloc(l) }
    }
    unsafe fn dealloc(&self, p: *mut u8, l: Layout) {
        LIVE.fetch_sub(1, Ordering::Relaxed);
        page(l, -1);
        unsafe { System.dealloc(p, l) }
    }
    unsafe fn realloc(&self, p: *mut u8, l: Layout, n: usize) -> *mut u8 {
        if l.align() >= 4096 {
            LIVE_PAGE_BYTES.fetch_add(n as i64 - l.size() as i64, Ordering::Relaxed);
        }
        unsafe { System.realloc(p, l, n) }
    }
    unsafe fn alloc_zeroed(&self, l: Layout) -> *mut u8 {
        LIVE.fetch_add(1, Ordering::Relaxed);
        ALLOCS.fetch_add(1, Ordering::Relaxed);
        page(l, 1);
        unsafe { System.alloc_zeroed(l) }
    }
}

/// number of live heap blocks
pub fn live_blocks() -> i64 {
    LIVE.load(Ordering::Relaxed)
}
pub fn total_allocs() -> u64 {
    ALLOCS.load(Ordering::Relaxed)
}

/// (blocks, bytes) of live page-aligned blocks
pub fn live_pages() -> (i64, i64) {
    (LIVE_PAGE_BLOCKS.load(Ordering::Relaxed), LIVE_PAGE_BYTES.load(Ordering::Relaxed))
}
