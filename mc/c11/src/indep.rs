//! Part B — "packages compiled independently never influence each other's
//! results", for the one channel two packages of *different* runtimes share:
//! the process (global identifier interner, allocator, JIT memory).
//!
//! Subject script S: two independent constants, named by an ordered pair of
//! distinct names out of a pool (`Qa .. Qx`; quick: the first 16), each
//! initialised by one call of a host closure `next()` that hands out 1, 2, 3, ..
//! (state of the runtime S is compiled with: a host that numbers things), and
//! `get(i)` that reads the i-th constant. (Pairs, because the interner is
//! sharded by a hash of the name: only names of one shard are ordered by their
//! first use, and which names share a shard is not knowable from outside.) A *history* is what happened in the process before
//! S's runtime was built: nothing, or an unrelated package P — its own fresh
//! runtime, no constant, no closure — that merely *mentions* the same
//! identifiers in some order and some role (function names, local variables,
//! record fields, or constants of its own), compiled and then dropped or kept.
//! All unordered pairs x both orders of mention x roles x {dropped, kept} are
//! enumerated.
//!
//! Oracle: the vector `get(0..N)` — read through a handle after S's package and
//! runtime were dropped — is the same after every history as after the empty
//! one. Which vector that is, the property does not say (C14 leaves the order
//! of independent constants open), so nothing else is demanded.
//!
//! Every history runs in a forked copy of the worker, because the interner is
//! process-wide and never forgets: the worker itself never parses the names
//! `Qa ..`, so every copy starts with the same interner contents.
//! (Found by an auditing sub-agent: evaluation order followed the index of
//! first interning.)

use std::sync::Arc;
use std::sync::atomic::{AtomicU64, Ordering::SeqCst};

use roto::{NoCtx, Runtime, TypedFunc, library};

pub const POOL: [&str; 24] = [
    "Qa", "Qb", "Qc", "Qd", "Qe", "Qf", "Qg", "Qh", "Qi", "Qj", "Qk", "Ql", "Qm", "Qn", "Qo", "Qp", "Qq", "Qr", "Qs", "Qt", "Qu", "Qv", "Qw", "Qx",
];

#[derive(Clone, Copy, Debug, PartialEq)]
pub enum Role {
    Functions,
    Locals,
    Fields,
    Constants,
}

pub const ROLES: [Role; 4] = [Role::Functions, Role::Locals, Role::Fields, Role::Constants];

#[derive(Clone, Debug)]
pub struct History {
    /// the subject's two constants, in declaration order
    pub names: [&'static str; 2],
    /// `None`: nothing compiled before; otherwise the order in which P mentions the names (indices into `names`)
    pub earlier: Option<(Vec<usize>, Role, bool)>,
}

/// histories of the pair (a, b), a < b; the first one is the empty history
pub fn histories(pool: usize, pair: usize) -> Vec<History> {
    let (a, b) = pairs(pool)[pair];
    let names = [POOL[a], POOL[b]];
    let mut v = vec![History { names, earlier: None }];
    for p in [vec![0, 1], vec![1, 0]] {
        for r in ROLES {
            for kept in [false, true] {
                v.push(History { names, earlier: Some((p.clone(), r, kept)) });
            }
        }
    }
    v
}

pub fn pairs(pool: usize) -> Vec<(usize, usize)> {
    (0..pool).flat_map(|a| (a + 1..pool).map(move |b| (a, b))).collect()
}

pub fn subject(names: &[&str]) -> String {
    let mut s = String::new();
    for n in names {
        s += &format!("const {n}: u64 = next();\n");
    }
    s += "fn get(i: u64) -> u64 {\n";
    for (i, n) in names.iter().enumerate() {
        s += &format!("    if i == {i} {{ return {n}; }}\n");
    }
    s += "    0\n}\n";
    s
}

pub fn unrelated(of: &[&str], order: &[usize], role: Role) -> String {
    let names: Vec<&str> = order.iter().map(|i| of[*i]).collect();
    match role {
        Role::Functions => names.iter().enumerate().map(|(k, n)| format!("fn {n}() -> u64 {{ {k} }}\n")).collect(),
        Role::Locals => {
            let lets: String = names.iter().enumerate().map(|(k, n)| format!("    let {n} = {k};\n")).collect();
            format!("fn p() -> u64 {{\n{lets}    {}\n}}\n", names.join(" + "))
        }
        Role::Fields => {
            let fs: Vec<String> = names.iter().map(|n| format!("{n}: u64")).collect();
            format!("record P {{ {} }}\nfn p() -> u64 {{ 1 }}\n", fs.join(", "))
        }
        Role::Constants => {
            let cs: String = names.iter().enumerate().map(|(k, n)| format!("const {n}: u64 = {k};\n")).collect();
            format!("{cs}fn p() -> u64 {{ {} }}\n", names.join(" + "))
        }
    }
}

/// Runs in the forked child: the text it reports
fn child(h: &History) -> String {
    let mut kept = None;
    if let Some((order, role, keep)) = &h.earlier {
        let rt0 = Runtime::new();
        let src = unrelated(&h.names, order, *role);
        match roto::FileTree::test_file("p.roto", &src, 0).compile(&rt0) {
            Ok(p) => {
                if *keep {
                    kept = Some((p, rt0));
                }
            }
            Err(_) => return "earlier-package-did-not-compile".into(),
        }
    }
    let c = Arc::new(AtomicU64::new(0));
    let c2 = c.clone();
    let rt = Runtime::from_lib(library! {
        let next = move || -> u64 { c2.fetch_add(1, SeqCst) + 1 };
    })
    .expect("indep lib");
    let mut pkg = match roto::FileTree::test_file("s.roto", &subject(&h.names), 0).compile(&rt) {
        Ok(p) => p,
        Err(_) => return "subject-did-not-compile".into(),
    };
    let f: TypedFunc<NoCtx, fn(u64) -> u64> = match pkg.get_function("get") {
        Ok(f) => f,
        Err(_) => return "no-get".into(),
    };
    let evaluated = c.load(SeqCst);
    drop(pkg);
    drop(rt);
    let vals: Vec<u64> = (0..h.names.len() as u64).map(|i| f.call(i)).collect();
    drop(kept);
    format!("initialisers_run={evaluated} values={vals:?}")
}

/// `Ok(report of the child)`, `Err(signal)` if it died
pub fn run(h: &History) -> Result<String, i32> {
    unsafe {
        let mut fds = [0 as libc::c_int; 2];
        if libc::pipe(fds.as_mut_ptr()) != 0 {
            return Ok("pipe failed (not judged)".into());
        }
        let pid = libc::fork();
        if pid < 0 {
            return Ok("fork failed (not judged)".into());
        }
        if pid == 0 {
            libc::close(fds[0]);
            let rl = libc::rlimit { rlim_cur: 0, rlim_max: 0 };
            libc::setrlimit(libc::RLIMIT_CORE, &rl);
            let s = std::panic::catch_unwind(|| child(h)).unwrap_or_else(|_| "panicked".into());
            libc::write(fds[1], s.as_ptr() as *const libc::c_void, s.len());
            libc::_exit(0);
        }
        libc::close(fds[1]);
        let mut out = Vec::new();
        let mut buf = [0u8; 4096];
        loop {
            let n = libc::read(fds[0], buf.as_mut_ptr() as *mut libc::c_void, buf.len());
            if n <= 0 {
                break;
            }
            out.extend_from_slice(&buf[..n as usize]);
        }
        libc::close(fds[0]);
        let mut status: libc::c_int = 0;
        libc::waitpid(pid, &mut status, 0);
        if libc::WIFSIGNALED(status) {
            return Err(libc::WTERMSIG(status));
        }
        Ok(String::from_utf8_lossy(&out).into_owned())
    }
}
