//! C11 — function handles keep alive exactly what they need (hot reload safe).
//!
//! E-HIST: explicit-state search over the histories of
//! {new runtime, compile version k, get handle, clone handle, call handle,
//!  drop handle (here or on another thread), drop package, drop runtime}
//! executed on REAL objects (replayed from scratch for every transition),
//! deduplicated by the reference model's state.
//!
//! Invariants after every step: every call returns what its version defines;
//! the ledger of live drop-tracked values (script constant, registered
//! constant, value captured by a registered closure) is exactly what the model
//! says must be alive; machine code has been freed for exactly the modules the
//! model says are dead (hook H3); nothing is dropped twice; after dropping
//! everything the ledger is empty.

use std::cell::RefCell;
use std::collections::{BTreeMap, HashMap, VecDeque};

use roto::{NoCtx, Package, Runtime, TypedFunc, Val, library};
use vcore::{Cfg, Check, Cx, Finding, Meta, SUB_SETUP, Tier, Value, Violation, json};

mod indep;

#[global_allocator]
static ALLOC: host::alloc_count::Counting = host::alloc_count::Counting;

const MAX_PKGS: usize = 2;
const MAX_HANDLES: usize = 3;
const CHUNK: usize = 40;

#[derive(Clone, Copy, Debug, PartialEq, Eq, Hash, PartialOrd, Ord)]
enum Op {
    NewRt,
    Compile(u8),      // version 1 or 2 -> next free package slot
    Get(usize),       // package slot -> next free handle slot
    CloneH(usize),    // handle slot -> next free handle slot
    Call(usize),      // handle slot
    DropH(usize),     // handle slot
    DropHThread(usize),
    DropHUnwind(usize), // the handle is dropped while a panic unwinds (inside catch_unwind)
    DropPUnwind(usize), // likewise the package
    IntoFunc(usize),  // handle slot: `into_func()`, the slot then holds the closure
    MakeList(usize),  // package slot: call its `mk_list()`, keep the List[String] the script made (one list slot)
    UseList,          // `contains` on that list and clone + drop of a clone (needs the element clone / drop / eq code)
    DropList,
    DropP(usize),
    DropRt,
    /// register one more constant (`LATER`, a tracked value) on the live runtime — possibly
    /// AFTER packages were compiled on it; packages compiled afterwards read it
    AddLater,
}

// ------------------------------------------------------------ model

#[derive(Clone, Debug, PartialEq, Eq, Hash, PartialOrd, Ord)]
struct MModule {
    version: u8,
    /// compiled after `LATER` was registered: reads it, and must keep it alive
    has_later: bool,
    rt_gen: u32,
    pkg_alive: bool,
    handles: u32,
}

#[derive(Clone, Debug, Default)]
struct Model {
    /// `LATER` has been registered on the live runtime
    later: bool,
    rt: Option<u32>, // generation of the live runtime
    next_gen: u32,
    modules: Vec<MModule>,          // all modules ever, dead ones stay (index = module id)
    pkgs: Vec<Option<usize>>,       // slot -> module
    handles: Vec<Option<usize>>,    // slot -> module
    /// the slot holds the closure made by `into_func` (callable, droppable, not clonable)
    closure: Vec<bool>,
    /// the module whose script made the list in the list slot
    list: Option<usize>,
    dead_modules: u64,
}

impl Model {
    fn new() -> Model {
        Model { pkgs: vec![None; MAX_PKGS], handles: vec![None; MAX_HANDLES], closure: vec![false; MAX_HANDLES], ..Default::default() }
    }
    fn module_alive(&self, m: usize) -> bool {
        self.modules[m].pkg_alive || self.modules[m].handles > 0
    }
    fn enabled(&self) -> Vec<Op> {
        let mut v = vec![];
        if self.rt.is_none() {
            v.push(Op::NewRt);
        } else {
            v.push(Op::DropRt);
            if !self.later {
                v.push(Op::AddLater);
            }
            if self.pkgs.iter().any(|p| p.is_none()) {
                v.push(Op::Compile(1));
                v.push(Op::Compile(2));
            }
        }
        let free_handle = self.handles.iter().any(|h| h.is_none());
        for (i, p) in self.pkgs.iter().enumerate() {
            if p.is_some() {
                if free_handle {
                    v.push(Op::Get(i));
                }
                v.push(Op::DropP(i));
                v.push(Op::DropPUnwind(i));
            }
        }
        match self.list {
            None => {
                for (i, p) in self.pkgs.iter().enumerate() {
                    if p.is_some() {
                        v.push(Op::MakeList(i));
                    }
                }
            }
            Some(_) => {
                v.push(Op::UseList);
                v.push(Op::DropList);
            }
        }
        for (i, h) in self.handles.iter().enumerate() {
            if h.is_some() {
                v.push(Op::Call(i));
                v.push(Op::DropH(i));
                if !self.closure[i] {
                    if free_handle {
                        v.push(Op::CloneH(i));
                    }
                    v.push(Op::DropHThread(i));
                    v.push(Op::DropHUnwind(i));
                    v.push(Op::IntoFunc(i));
                }
            }
        }
        v
    }
    fn release(&mut self, m: usize) {
        if !self.module_alive(m) {
            self.dead_modules += 1;
        }
    }
    fn apply(&mut self, op: Op) {
        match op {
            Op::NewRt => {
                self.rt = Some(self.next_gen);
                self.next_gen += 1;
                self.later = false;
            }
            Op::DropRt => {
                self.rt = None;
                self.later = false;
            }
            Op::AddLater => self.later = true,
            Op::Compile(v) => {
                let slot = self.pkgs.iter().position(|p| p.is_none()).unwrap();
                self.modules.push(MModule { version: v, has_later: self.later, rt_gen: self.rt.unwrap(), pkg_alive: true, handles: 0 });
                self.pkgs[slot] = Some(self.modules.len() - 1);
            }
            Op::Get(p) => {
                let m = self.pkgs[p].unwrap();
                let slot = self.handles.iter().position(|h| h.is_none()).unwrap();
                self.handles[slot] = Some(m);
                self.modules[m].handles += 1;
            }
            Op::CloneH(h) => {
                let m = self.handles[h].unwrap();
                let slot = self.handles.iter().position(|h| h.is_none()).unwrap();
                self.handles[slot] = Some(m);
                self.modules[m].handles += 1;
            }
            Op::Call(_) | Op::UseList => {}
            Op::MakeList(p) => self.list = Some(self.pkgs[p].unwrap()),
            Op::DropList => self.list = None,
            Op::IntoFunc(h) => self.closure[h] = true,
            Op::DropH(h) | Op::DropHThread(h) | Op::DropHUnwind(h) => {
                self.closure[h] = false;
                let m = self.handles[h].take().unwrap();
                self.modules[m].handles -= 1;
                self.release(m);
            }
            Op::DropP(p) | Op::DropPUnwind(p) => {
                let m = self.pkgs[p].take().unwrap();
                self.modules[m].pkg_alive = false;
                self.release(m);
            }
        }
    }
    /// number of runtime generations that are alive (the runtime itself or a module compiled on it)
    fn live_gens(&self) -> usize {
        let mut gens: Vec<u32> = vec![];
        if let Some(g) = self.rt {
            gens.push(g);
        }
        for (i, m) in self.modules.iter().enumerate() {
            if self.module_alive(i) && !gens.contains(&m.rt_gen) {
                gens.push(m.rt_gen);
            }
        }
        gens.len()
    }
    /// multiset of payloads of tracked values that must be alive
    fn live_payloads(&self) -> Vec<u64> {
        let mut v = vec![];
        let mut gens: Vec<u32> = vec![];
        if let Some(g) = self.rt {
            gens.push(g);
        }
        for (i, m) in self.modules.iter().enumerate() {
            if self.module_alive(i) {
                v.push(900 + m.version as u64);
                // constants of script-declared aggregate types holding a tracked value
                // (record, Option, enum payload, anonymous record): added after seeded change C11-7
                for base in [910, 920, 930, 940] {
                    v.push(base + m.version as u64);
                }
                if !gens.contains(&m.rt_gen) {
                    gens.push(m.rt_gen);
                }
            }
        }
        // `LATER` (710): held by the runtime it was registered on and by every module compiled after that
        let mut later_gens: Vec<u32> = vec![];
        if self.later {
            later_gens.extend(self.rt);
        }
        for (i, m) in self.modules.iter().enumerate() {
            if self.module_alive(i) && m.has_later && !later_gens.contains(&m.rt_gen) {
                later_gens.push(m.rt_gen);
            }
        }
        for _ in later_gens {
            v.push(710);
        }
        for _ in gens {
            v.push(700); // registered constant
            v.push(800); // captured by the first registered closure
            v.push(801); // captured by the second closure of the same Rust type
        }
        v.sort();
        v
    }
    fn expected_call(&self, h: usize, x: u64) -> u64 {
        let m = &self.modules[self.handles[h].unwrap()];
        let later = if m.has_later { 710 } else { 0 };
        later
            + match m.version {
                1 => x + 11 + 800 + 700 + 901,
                _ => x * 2 + 22 + 800 + 700 + 902,
            }
    }
    /// canonical key: property-relevant state only. Two histories with equal
    /// keys have the same future observations: those depend only on which
    /// modules / runtime generations are alive, what they contain and which
    /// slots refer to them.
    fn key(&self) -> String {
        // rename generations and modules in order of first appearance in slots
        let mut gen_names: HashMap<u32, usize> = HashMap::new();
        let mut mod_names: HashMap<usize, usize> = HashMap::new();
        let mut s = String::new();
        let mut gname = |g: u32, names: &mut HashMap<u32, usize>| {
            let n = names.len();
            *names.entry(g).or_insert(n)
        };
        if let Some(g) = self.rt {
            s += &format!("rt{}{};", gname(g, &mut gen_names), if self.later { "L" } else { "" });
        } else {
            s += "rt-;";
        }
        let mut describe = |m: usize, s: &mut String, mod_names: &mut HashMap<usize, usize>, gen_names: &mut HashMap<u32, usize>| {
            let n = mod_names.len();
            let first = !mod_names.contains_key(&m);
            let name = *mod_names.entry(m).or_insert(n);
            if first {
                let mm = &self.modules[m];
                let g = gname(mm.rt_gen, gen_names);
                let rt_of_gen_alive = self.rt == Some(mm.rt_gen);
                *s += &format!("m{name}(v{}{},g{g}{},p{},h{})", mm.version, if mm.has_later { "L" } else { "" }, if rt_of_gen_alive { "+" } else { "-" }, mm.pkg_alive as u8, mm.handles);
            } else {
                *s += &format!("m{name}");
            }
        };
        for p in &self.pkgs {
            match p {
                Some(m) => describe(*m, &mut s, &mut mod_names, &mut gen_names),
                None => s += "_",
            }
            s += ",";
        }
        s += "|";
        for (i, h) in self.handles.iter().enumerate() {
            match h {
                Some(m) => {
                    describe(*m, &mut s, &mut mod_names, &mut gen_names);
                    if self.closure[i] {
                        s += "c";
                    }
                }
                None => s += "_",
            }
            s += ",";
        }
        s += "|";
        match self.list {
            Some(m) => describe(m, &mut s, &mut mod_names, &mut gen_names),
            None => s += "_",
        }
        s
    }
}

/// All transitions (representative history of the source state, op) reachable
/// within `depth` operations, breadth first, one representative per key.
fn transitions(depth: usize) -> (Vec<(Vec<Op>, Op)>, usize) {
    let mut seen: HashMap<String, ()> = HashMap::new();
    let mut frontier: VecDeque<(Vec<Op>, Model)> = VecDeque::new();
    let m0 = Model::new();
    seen.insert(m0.key(), ());
    frontier.push_back((vec![], m0));
    let mut out = vec![];
    while let Some((hist, m)) = frontier.pop_front() {
        if hist.len() >= depth {
            continue;
        }
        for op in m.enabled() {
            out.push((hist.clone(), op));
            let mut m2 = m.clone();
            m2.apply(op);
            let k = m2.key();
            if !seen.contains_key(&k) {
                seen.insert(k, ());
                let mut h2 = hist.clone();
                h2.push(op);
                frontier.push_back((h2, m2));
            }
        }
    }
    (out, seen.len())
}

fn cached(tier: Tier) -> &'static (Vec<(Vec<Op>, Op)>, usize) {
    static C: std::sync::OnceLock<(Vec<(Vec<Op>, Op)>, usize)> = std::sync::OnceLock::new();
    C.get_or_init(|| transitions(tier.pick(8, 11)))
}

// ------------------------------------------------------------ real objects

const V1: &str = "\
record Rk { a: u64, t: Tr }
enum Ek { A(Tr), B }
const KZ: Z = mkz();
const KT: Tr = mk(901);
const KI: u64 = 11;
const KR: Rk = Rk { a: 1, t: mk(911) };
const KO: Tr? = Option.Some(mk(921));
const KE: Ek = Ek.A(mk(931));
const KA: { n: u64, t: Tr } = { n: 2, t: mk(941) };
fn g() -> u64 { KR.a + KA.n }
fn f(x: u64) -> u64 { x + KI + cap() + cap2() - 801 + capz() - 3 + RC.payload() + KT.payload() }
fn mk_list() -> List[String] { [\"a\", \"b\"] }
";
const V2: &str = "\
const KA: { n: u64, t: Tr } = { n: 2, t: mk(942) };
const KE: Ek = Ek.A(mk(932));
const KO: Tr? = Option.Some(mk(922));
const KR: Rk = Rk { a: 1, t: mk(912) };
const KT: Tr = mk(902);
const KZ: Z = mkz();
const KI: u64 = 22;
enum Ek { A(Tr), B }
record Rk { a: u64, t: Tr }
fn g() -> u64 { KR.a + KA.n }
fn helper(x: u64) -> u64 { x * 2 }
fn f(x: u64) -> u64 { helper(x) + KI + cap() + cap2() - 801 + capz() - 3 + RC.payload() + KT.payload() }
fn mk_list() -> List[String] { let l = [\"c\"]; l.push(\"b\"); l }
";

type H = TypedFunc<NoCtx, fn(u64) -> u64>;

/// a handle slot: the handle itself or the closure `into_func` made of it
enum Slot {
    H(H),
    F(Box<dyn Fn(u64) -> u64>),
}

impl Slot {
    fn call(&self, x: u64) -> u64 {
        match self {
            Slot::H(h) => h.call(x),
            Slot::F(f) => f(x),
        }
    }
}

struct Real {
    rt: Option<Runtime<NoCtx>>,
    pkgs: Vec<Option<Package<NoCtx>>>,
    handles: Vec<Option<Slot>>,
    list: Option<roto::List<roto::RotoString>>,
}

/// When a replay stops at a violation the objects are dropped in field order; a list
/// whose module goes first cannot be dropped any more (it calls into that module's
/// code), so whatever list is still there is leaked instead of turning one violation
/// into a crash as well.
impl Drop for Real {
    fn drop(&mut self) {
        if let Some(l) = self.list.take() {
            std::mem::forget(l);
        }
    }
}

thread_local! {
    static CODE_DEAD: RefCell<u64> = const { RefCell::new(0) };
    static BAD_CALLS: RefCell<Vec<String>> = const { RefCell::new(Vec::new()) };
    static LIVE_MODULES: RefCell<BTreeMap<usize, bool>> = const { RefCell::new(BTreeMap::new()) };
}

fn sink(ev: &roto::verif::Event) {
    use roto::verif::Event::*;
    match *ev {
        CodeLive { module, .. } => LIVE_MODULES.with(|m| {
            m.borrow_mut().insert(module, true);
        }),
        CodeDead { module } => {
            // may run on another thread (DropHThread): counted through a global
            DEAD_GLOBAL.fetch_add(1, std::sync::atomic::Ordering::SeqCst);
            let _ = module;
        }
        CodeCall { module, func } => LIVE_MODULES.with(|m| {
            if m.borrow().get(&module) != Some(&true) {
                BAD_CALLS.with(|b| b.borrow_mut().push(format!("call of {func:#x} in unknown module {module:#x}")));
            }
        }),
        _ => {}
    }
}

static DEAD_GLOBAL: std::sync::atomic::AtomicU64 = std::sync::atomic::AtomicU64::new(0);

/// Two closures of the SAME Rust type (one closure expression, two values)
fn capturing(t: host::Tr) -> impl Fn() -> u64 + Send + Sync + 'static {
    move || {
        // capture the whole tracked value, not just its (Copy) payload field
        let whole: &host::Tr = &t;
        whole.payload
    }
}

/// A closure whose only capture is ZERO-SIZED but has a destructor (seeded change C11-8:
/// "a function object without bytes has no data to keep alive")
fn capturing_z(z: host::Z) -> impl Fn() -> u64 + Send + Sync + 'static {
    move || {
        let keep: &host::Z = &z;
        let _ = keep;
        3
    }
}

fn new_runtime() -> Runtime<NoCtx> {
    let lib = library! {
        const RC: Val<host::Tr> = Val(host::Tr::new(700));
    };
    let mut rt = Runtime::from_lib(host::lib()).expect("host lib");
    rt.add(lib).expect("c11 lib");
    rt.add(roto::Function::new("cap", "", vec![], capturing(host::Tr::new(800)), roto::location!()).expect("cap"))
        .expect("add cap");
    rt.add(roto::Function::new("cap2", "", vec![], capturing(host::Tr::new(801)), roto::location!()).expect("cap2"))
        .expect("add cap2");
    rt.add(roto::Function::new("capz", "", vec![], capturing_z(host::Z::new()), roto::location!()).expect("capz"))
        .expect("add capz");
    rt
}

/// Execute `hist` then `last` on fresh real objects, checking every step.
/// Returns the first problem found.
fn replay(hist: &[Op], last: Op) -> Result<String, (String, Value)> {
    host::ledger_reset();
    DEAD_GLOBAL.store(0, std::sync::atomic::Ordering::SeqCst);
    BAD_CALLS.with(|b| b.borrow_mut().clear());
    LIVE_MODULES.with(|m| m.borrow_mut().clear());
    roto::verif::set_sink(Some(sink));
    let mut real = Real { rt: None, pkgs: (0..MAX_PKGS).map(|_| None).collect(), handles: (0..MAX_HANDLES).map(|_| None).collect(), list: None };
    let mut model = Model::new();
    let mut obs = String::new();
    let all: Vec<Op> = hist.iter().copied().chain(std::iter::once(last)).collect();
    let pages_base = host::alloc_count::live_pages();
    let mut module_pages: Vec<(i64, i64)> = vec![];
    for (step, op) in all.iter().enumerate() {
        let pages_before = host::alloc_count::live_pages();
        match *op {
            Op::NewRt => real.rt = Some(new_runtime()),
            Op::DropRt => drop(real.rt.take()),
            Op::Compile(v) => {
                let slot = real.pkgs.iter().position(|p| p.is_none()).unwrap();
                let src = if v == 1 { V1 } else { V2 };
                // a package compiled after LATER was registered reads it
                let src = if model.later { src.replace("+ RC.payload()", "+ RC.payload() + LATER.payload()") } else { src.to_string() };
                match host::compile(real.rt.as_ref().unwrap(), &src) {
                    Ok(p) => real.pkgs[slot] = Some(p),
                    Err(e) => return Err(("compile".into(), json!(format!("{e:?}")))),
                }
            }
            Op::AddLater => {
                let lib = library! {
                    const LATER: Val<host::Tr> = Val(host::Tr::new(710));
                };
                if let Err(e) = real.rt.as_mut().unwrap().add(lib) {
                    return Err(("add".into(), json!(e.to_string())));
                }
            }
            Op::Get(p) => {
                let slot = real.handles.iter().position(|h| h.is_none()).unwrap();
                match real.pkgs[p].as_mut().unwrap().get_function::<fn(u64) -> u64>("f") {
                    Ok(h) => real.handles[slot] = Some(Slot::H(h)),
                    Err(e) => return Err(("get_function".into(), json!(e.to_string()))),
                }
            }
            Op::CloneH(h) => {
                let slot = real.handles.iter().position(|h| h.is_none()).unwrap();
                real.handles[slot] = match real.handles[h].as_ref().unwrap() {
                    Slot::H(x) => Some(Slot::H(x.clone())),
                    Slot::F(_) => unreachable!("closures are not cloned"),
                };
            }
            Op::Call(h) => {
                for x in [0u64, 5] {
                    let got = real.handles[h].as_ref().unwrap().call(x);
                    let want = model.expected_call(h, x);
                    obs += &format!("{got};");
                    if got != want {
                        return Err((
                            "wrong-result".into(),
                            json!({"step": step, "x": x, "got": got, "want": want}),
                        ));
                    }
                }
            }
            Op::DropH(h) => drop(real.handles[h].take()),
            Op::MakeList(p) => {
                let f = real.pkgs[p].as_mut().unwrap().get_function::<fn() -> roto::List<roto::RotoString>>("mk_list");
                match f {
                    Ok(f) => {
                        let l = f.call();
                        // the literals of THIS version (same lengths in both versions, so that
                        // anything remembered per address or per length from an earlier,
                        // dropped package shows: seeded change C12-8 interned string literals
                        // by the address of their data)
                        let version = model.modules[model.pkgs[p].unwrap()].version;
                        let want: Vec<String> = if version == 1 { vec!["a".into(), "b".into()] } else { vec!["c".into(), "b".into()] };
                        let got: Vec<String> = l.to_vec().iter().map(|s| s.to_string()).collect();
                        if got != want {
                            return Err(("wrong-literals".into(), json!({"step": step, "list_made_by_version": version, "got": got, "expected": want})));
                        }
                        real.list = Some(l);
                    }
                    Err(e) => return Err(("get_function".into(), json!(e.to_string()))),
                }
            }
            Op::UseList | Op::DropList => {
                // A list made by a script carries pointers to the element clone / drop / eq
                // functions of its module. When the model says that module has been freed,
                // the operation is tried in a forked copy first: a crash there is the verdict.
                let m = model.list.unwrap();
                let use_it = |real: &mut Real, drop_it: bool| {
                    let l = real.list.as_ref().unwrap();
                    let hit = l.contains(&roto::RotoString::from("b"));
                    let c = l.clone();
                    let n = c.to_vec().len();
                    drop(c);
                    if drop_it {
                        real.list = None;
                    }
                    (hit, n)
                };
                if !model.module_alive(m) {
                    if let Some(sig) = fork_try(|| {
                        let _ = use_it(&mut real, *op == Op::DropList);
                    }) {
                        // the list is unusable from here on: leak it
                        std::mem::forget(real.list.take());
                        return Err((
                            "list-outlives-code".into(),
                            json!({"step": step, "signal": sig, "what": "a List made by a script was used / dropped after the last handle and package of its module were gone"}),
                        ));
                    }
                }
                let (hit, n) = use_it(&mut real, *op == Op::DropList);
                if !hit || n != 2 {
                    return Err(("wrong-result".into(), json!({"step": step, "contains_b": hit, "len": n})));
                }
            }
            Op::IntoFunc(h) => {
                let Some(Slot::H(x)) = real.handles[h].take() else { unreachable!("into_func of a closure") };
                real.handles[h] = Some(Slot::F(Box::new(x.into_func())));
            }
            Op::DropHThread(h) => {
                let Some(Slot::H(hd)) = real.handles[h].take() else { unreachable!("closures stay on their thread") };
                std::thread::spawn(move || drop(hd)).join().map_err(|_| ("panic-on-thread".to_string(), json!(null)))?;
            }
            Op::DropP(p) => drop(real.pkgs[p].take()),
            Op::DropHUnwind(h) => {
                let Some(Slot::H(hd)) = real.handles[h].take() else { unreachable!("closures are dropped normally") };
                let r = std::panic::catch_unwind(std::panic::AssertUnwindSafe(move || {
                    let _owner = hd;
                    std::panic::resume_unwind(Box::new("c11: unrelated panic while a handle is alive"));
                }));
                assert!(r.is_err());
            }
            Op::DropPUnwind(p) => {
                let pk = real.pkgs[p].take().unwrap();
                let r = std::panic::catch_unwind(std::panic::AssertUnwindSafe(move || {
                    let _owner = pk;
                    std::panic::resume_unwind(Box::new("c11: unrelated panic while a package is alive"));
                }));
                assert!(r.is_err());
            }
        }
        if let Op::Compile(_) = *op {
            // pages this module's machine code, read-only data and data occupy
            let now = host::alloc_count::live_pages();
            module_pages.push((now.0 - pages_before.0, now.1 - pages_before.1));
        }
        model.apply(*op);
        // machine code is really released (observed at the allocator, not through a hook):
        // the live page-aligned blocks are exactly those of the modules that must be alive
        {
            let now = host::alloc_count::live_pages();
            let mut want = pages_base;
            for (i, mp) in module_pages.iter().enumerate() {
                if model.module_alive(i) {
                    want.0 += mp.0;
                    want.1 += mp.1;
                }
            }
            if now != want {
                let class = if now.0 < want.0 { "code-pages-released-too-early" } else { "code-pages-not-released" };
                return Err((class.into(), json!({"step": step, "live_page_blocks_and_bytes": [now.0, now.1], "model": [want.0, want.1],
                                                 "pages_per_module": module_pages.iter().map(|m| json!([m.0, m.1])).collect::<Vec<_>>()})));
            }
        }
        // invariants
        let (live, z, anomalies) = host::ledger_snapshot();
        // every live module holds one zero-sized tracked constant (KZ); every live runtime
        // generation holds the zero-sized value captured by the registered closure `capz`
        let want_z = (0..model.modules.len()).filter(|m| model.module_alive(*m)).count() as i64 + model.live_gens() as i64;
        if z as i64 != want_z {
            let class = if (z as i64) < want_z { "released-too-early" } else { "not-released" };
            return Err((class.into(), json!({"step": step, "live_zero_sized_constants": z, "model": want_z})));
        }
        let mut got: Vec<u64> = live.iter().map(|x| x.1).collect();
        got.sort();
        let want = model.live_payloads();
        if !anomalies.is_empty() {
            return Err(("ledger-anomaly".into(), json!({"step": step, "anomalies": format!("{anomalies:?}")})));
        }
        if got != want {
            let class = if got.len() < want.len() { "released-too-early" } else { "not-released" };
            return Err((class.into(), json!({"step": step, "live_payloads": got, "model": want})));
        }
        let dead = DEAD_GLOBAL.load(std::sync::atomic::Ordering::SeqCst);
        if dead != model.dead_modules {
            return Err((
                "code-lifetime".into(),
                json!({"step": step, "modules_freed": dead, "model": model.dead_modules}),
            ));
        }
        let bad = BAD_CALLS.with(|b| b.borrow().clone());
        if !bad.is_empty() {
            return Err(("call-into-unknown-code".into(), json!(bad)));
        }
        obs += &format!("{}|", got.len());
    }
    // terminal: drop everything, in slot order
    // a list whose module is gone cannot be dropped (that is what UseList / DropList report)
    match model.list {
        Some(m) if !model.module_alive(m) => std::mem::forget(real.list.take()),
        _ => real.list = None,
    }
    real.handles.clear();
    real.pkgs.clear();
    drop(real.rt.take());
    let (live, z, anomalies) = host::ledger_snapshot();
    roto::verif::set_sink(None);
    if !live.is_empty() || z != 0 || !anomalies.is_empty() {
        return Err((
            "terminal-leak".into(),
            json!({"live_payloads": live.iter().map(|x| x.1).collect::<Vec<_>>(), "anomalies": format!("{anomalies:?}")}),
        ));
    }
    Ok(obs)
}

/// Run `f` in a forked copy of this (single-threaded) process; `Some(signal)` if the copy died.
fn fork_try(f: impl FnOnce()) -> Option<i32> {
    unsafe {
        let pid = libc::fork();
        if pid < 0 {
            return None;
        }
        if pid == 0 {
            let rl = libc::rlimit { rlim_cur: 0, rlim_max: 0 };
            libc::setrlimit(libc::RLIMIT_CORE, &rl);
            f();
            libc::_exit(0);
        }
        let mut status: libc::c_int = 0;
        libc::waitpid(pid, &mut status, 0);
        if libc::WIFSIGNALED(status) { Some(libc::WTERMSIG(status)) } else { None }
    }
}

const INDEP_CHUNK: usize = 8;

fn indep_pool(tier: Tier) -> usize {
    tier.pick(16, 24)
}

fn history_json(h: &indep::History) -> Value {
    match &h.earlier {
        None => json!({"part": "independence", "earlier": "nothing", "subject": indep::subject(&h.names)}),
        Some((order, role, kept)) => json!({"part": "independence", "earlier_package": indep::unrelated(&h.names, order, *role), "role": format!("{role:?}"),
            "earlier_package_kept_alive": kept, "subject": indep::subject(&h.names)}),
    }
}

/// Part B (see indep.rs): the subject's constants after every earlier history of the process
fn run_independence(chunk: usize, cx: &mut Cx) {
    let pool = indep_pool(cx.cfg.tier);
    let n_pairs = indep::pairs(pool).len();
    for pair in chunk * INDEP_CHUNK..((chunk + 1) * INDEP_CHUNK).min(n_pairs) {
        let hs = indep::histories(pool, pair);
        let mut baseline: Option<String> = None;
        let mut seen = std::collections::BTreeSet::new();
        for (i, h) in hs.iter().enumerate() {
            let sub = (((pair - chunk * INDEP_CHUNK) as u64) << 8) | i as u64;
            if !cx.case(sub) {
                continue;
            }
            // a replay runs one history only: it still needs the empty history to compare with
            if baseline.is_none() && h.earlier.is_some() {
                baseline = indep::run(&hs[0]).ok();
            }
            let r = indep::run(h);
            cx.transitions(1);
            cx.validated(1);
            cx.states(1);
            cx.count("independence_histories", 1);
            match r {
                Err(sig) => cx.violation("independence-died", sub, history_json(h), json!("the subject compiles and runs"), json!({"signal": sig})),
                Ok(obs) => {
                    cx.outcome(vcore::util::fnv_str(&format!("indep:{obs}")));
                    seen.insert(obs.clone());
                    if !obs.starts_with("initialisers_run=2 ") {
                        cx.violation("independence-broken-run", sub, history_json(h), json!("2 initialisers run, 2 values read"), json!(obs));
                        continue;
                    }
                    match &baseline {
                        None if h.earlier.is_none() => {
                            if pair % INDEP_CHUNK == 0 {
                                cx.sample(json!({"part": "independence", "subject": indep::subject(&h.names), "alone": obs, "histories": hs.len()}));
                            }
                            baseline = Some(obs);
                        }
                        None => {}
                        Some(b) => {
                            cx.nontrivial(vcore::util::fnv_str(&format!("{:?}{i}", h.names)));
                            if *b != obs {
                                cx.violation("constants-depend-on-earlier-package", sub, history_json(h), json!({"compiled_alone": b}), json!({"after_the_earlier_package": obs}));
                            }
                        }
                    }
                }
            }
        }
        if seen.len() > 1 {
            cx.count("independence_pairs_with_differing_values", 1);
        }
    }
}

struct C11;

impl Check for C11 {
    fn id(&self) -> &'static str {
        "C11"
    }
    fn units(&self, cfg: &Cfg) -> usize {
        cached(cfg.tier).0.len().div_ceil(CHUNK) + indep::pairs(indep_pool(cfg.tier)).len().div_ceil(INDEP_CHUNK)
    }
    fn case_timeout_s(&self, cfg: &Cfg) -> f64 {
        cfg.tier.pick(60.0, 300.0)
    }
    fn run_unit(&self, unit: usize, cx: &mut Cx) {
        cx.case(SUB_SETUP);
        let (all, n_states) = cached(cx.cfg.tier);
        if unit >= all.len().div_ceil(CHUNK) {
            return run_independence(unit - all.len().div_ceil(CHUNK), cx);
        }
        if unit == 0 {
            cx.count("model_states", *n_states as u64);
        }
        let lo = unit * CHUNK;
        let hi = (lo + CHUNK).min(all.len());
        for i in lo..hi {
            let sub = (i - lo) as u64;
            if !cx.case(sub) {
                continue;
            }
            let (hist, op) = &all[i];
            let r = vcore::util::catch(|| replay(hist, *op));
            cx.transitions(1);
            cx.validated(1);
            cx.count("operations_executed", hist.len() as u64 + 1);
            let mut m = Model::new();
            for o in hist.iter().chain(std::iter::once(op)) {
                m.apply(*o);
            }
            cx.set("states", vcore::util::fnv_str(&m.key()));
            let case = json!({"history": hist.iter().map(|o| format!("{o:?}")).collect::<Vec<_>>(), "op": format!("{op:?}")});
            match r {
                Ok(Ok(obs)) => {
                    cx.outcome(vcore::util::fnv_str(&obs));
                    // non-trivial: something is dropped while something else that
                    // shares a module or runtime generation stays alive
                    let drops = hist.iter().chain(std::iter::once(op)).filter(|o| matches!(o, Op::DropH(_) | Op::DropHThread(_) | Op::DropP(_) | Op::DropRt)).count();
                    if drops > 0 && !m.live_payloads().is_empty() {
                        cx.nontrivial(vcore::util::fnv_str(&format!("{hist:?}{op:?}")));
                    }
                    if i == lo {
                        cx.sample(json!({"history": case["history"], "op": case["op"], "live_after": m.live_payloads()}));
                    }
                }
                Ok(Err((class, detail))) => {
                    cx.violation(class, sub, case, json!("model: handles keep alive exactly what they need"), detail);
                }
                Err(p) => {
                    cx.violation("panic", sub, case, json!("no panic"), json!(p));
                }
            }
        }
    }
    fn describe(&self, cfg: &Cfg, unit: usize, sub: u64) -> Value {
        if sub == SUB_SETUP {
            return json!({"phase": "setup"});
        }
        let (all, _) = cached(cfg.tier);
        if unit >= all.len().div_ceil(CHUNK) {
            let pair = (unit - all.len().div_ceil(CHUNK)) * INDEP_CHUNK + (sub >> 8) as usize;
            if pair >= indep::pairs(indep_pool(cfg.tier)).len() {
                return json!(null);
            }
            return indep::histories(indep_pool(cfg.tier), pair).get((sub & 0xff) as usize).map(history_json).unwrap_or(json!(null));
        }
        match all.get(unit * CHUNK + sub as usize) {
            Some((hist, op)) => json!({"history": hist.iter().map(|o| format!("{o:?}")).collect::<Vec<_>>(), "op": format!("{op:?}")}),
            None => json!(null),
        }
    }
    fn matches(&self, f: &Finding, v: &Violation) -> bool {
        match f.matcher.as_str() {
            // exactly: UseList / DropList on a script-made list whose module's code has been
            // freed, dying with a signal in the forked trial
            "list_outlives_code" => {
                v.class == "list-outlives-code"
                    && matches!(v.case["op"].as_str(), Some("UseList") | Some("DropList"))
                    && v.observed["signal"].is_number()
            }
            _ => false,
        }
    }
    fn meta(&self, cfg: &Cfg) -> Meta {
        Meta {
            rule: "breadth-first search over all operation sequences (new runtime, compile v1|v2, get, clone, call, into_func, make / use / drop a List[String] built by a script, drop handle here / on another thread, drop package, drop runtime) up to the depth bound, at most 1 live runtime, 2 live packages, 3 live handles; states deduplicated by the model key (runtime generation alive?, per module: version, generation, package alive?, handle count, slot assignment, which slots hold an `into_func` closure); every transition is executed on fresh real objects by replaying the representative history; non-trivial = a drop happens while something sharing a module or runtime generation stays alive".into(),
            assumptions: vec![
                "equal model keys have equal futures: observations depend only on which modules / runtime generations are alive and what they contain".into(),
            ],
            bounds: json!({"depth": cfg.tier.pick(8, 11), "max_live_packages": MAX_PKGS, "max_live_handles": MAX_HANDLES, "script_versions": 2}),
            states_are: "distinct model states reached".into(),
            transitions_are: "operations applied to a state (each replayed on real objects from scratch)".into(),
        }
    }
}

fn main() {
    // triage aid: `c11 --indep-dump` prints what every Part B history observes
    if std::env::args().any(|a| a == "--indep-dump") {
        for pair in 0..indep::pairs(24).len() {
            for h in indep::histories(24, pair) {
                println!("{:?} {:?} -> {:?}", h.names, h.earlier, indep::run(&h));
            }
        }
        return;
    }
    vcore::main(&C11)
}
