//! E-SCHED: a controlled scheduler for real OS threads running the real roto
//! code. Exactly one thread runs at a time; threads stop at the schedule points
//! reported by the `verif-hooks` event sink (list lock acquisitions, element
//! pointer uses, explicit yields); the scheduler thread decides who continues.
//!
//! * blocking is modelled exactly without release hooks: a thread parked before
//!   `lock()` of list mutex M is enabled iff a `try_lock` probe of M succeeds
//!   while every thread is parked;
//! * "no thread enabled, not all finished" is a deadlock;
//! * exploration is depth-first over choice sequences with a preemption bound
//!   (switching away from a still-enabled thread costs 1);
//! * the sink also keeps a registry of list buffers (generation per
//!   allocation) and checks every element-pointer use: the buffer the pointer
//!   was made from must be the same live generation (else *stale*), and the
//!   mutex that was held when it was made must still be held (else
//!   *unguarded*).

use std::any::Any;
use std::cell::RefCell;
use std::collections::HashMap;
use std::panic::{AssertUnwindSafe, catch_unwind};
use std::sync::atomic::{AtomicU64, Ordering};
use std::sync::{Arc, Condvar, Mutex};

use roto::verif::Event;

#[derive(Clone, Debug, PartialEq, Eq)]
pub enum Point {
    Start,
    Lock { mutex: usize, site: &'static str },
    /// a `roto::verif::sync::Mutex` (probe: see `roto::verif::mutex_is_free`)
    MutexLock { mutex: usize, probe: usize, file: &'static str, line: u32 },
    Use { ptr: usize, site: &'static str },
    Yield(u32),
    RegistryLock,
}

#[derive(Clone, Debug, PartialEq, Eq)]
enum Status {
    NotStarted,
    Running,
    At(Point),
    Finished,
    Panicked(String),
}

#[derive(Clone, Copy, PartialEq, Eq, Debug)]
enum Turn {
    Sched,
    Thread(usize),
}

/// A finding of the online monitors
#[derive(Clone, Debug, PartialEq, Eq)]
pub enum Alarm {
    /// element pointer used after the buffer it came from was moved or freed
    StalePointer { tid: usize, site: &'static str, made_gen: u64, now: Option<u64> },
    /// element pointer used while nobody holds the mutex guarding its buffer
    Unguarded { tid: usize, site: &'static str },
    /// buffer event inconsistent with the registry (double free, move of dead buffer)
    BadBuffer { what: &'static str },
}

struct St {
    turn: Turn,
    status: Vec<Status>,
    abort: bool,
    unwind_ok: Vec<bool>,
    /// buffer start -> generation
    bufs: HashMap<usize, u64>,
    next_gen: u64,
    /// per thread: last mutex announced by a Lock point
    last_lock: Vec<Option<usize>>,
    /// per thread: (ptr, buf, generation, mutex) of the last pointer made
    made: Vec<Vec<(usize, usize, u64, Option<usize>)>>,
    alarms: Vec<Alarm>,
    events: u64,
    relocations: u64,
}

pub struct Shared {
    st: Mutex<St>,
    cv: Condvar,
}

thread_local! {
    static CTX: RefCell<Option<(Arc<Shared>, usize)>> = const { RefCell::new(None) };
}

static CLOCK: AtomicU64 = AtomicU64::new(0);

/// A strictly increasing timestamp; only one thread runs at a time, so the
/// order of `now()` values is the real-time order of the execution.
pub fn now() -> u64 {
    CLOCK.fetch_add(1, Ordering::SeqCst)
}

struct AbortToken;

const MAIN: usize = usize::MAX;

fn sink(ev: &Event) {
    let Some((sh, tid)) = CTX.with(|c| c.borrow().clone()) else { return };
    match *ev {
        Event::ListLock { mutex, site } => {
            if tid != MAIN {
                sh.st.lock().unwrap().last_lock[tid] = Some(mutex);
                point_in(&sh, tid, Point::Lock { mutex, site });
            }
        }
        Event::PtrUse { ptr, site } => {
            if tid != MAIN {
                // A whole-slice read ("slice:..." sites) is checked by the
                // monitors below but is not a schedule point of its own: while
                // the lock is held nothing can interleave with it, and if the
                // lock is NOT held the lockset monitor reports it right here.
                if !site.starts_with("slice:") {
                    point_in(&sh, tid, Point::Use { ptr, site });
                }
                // we have been granted: check the pointer now, just before the use
                let mut st = sh.st.lock().unwrap();
                let rec = st.made[tid].iter().rev().find(|r| r.0 == ptr).cloned();
                if let Some((_, buf, genr, mutex)) = rec {
                    let cur = st.bufs.get(&buf).copied();
                    if cur != Some(genr) {
                        st.alarms.push(Alarm::StalePointer { tid, site, made_gen: genr, now: cur });
                    } else if let Some(m) = mutex {
                        // SAFETY: the thread using the pointer holds a handle of the list
                        let free = unsafe { roto::verif::list_mutex_is_free(m) };
                        if free {
                            st.alarms.push(Alarm::Unguarded { tid, site });
                        }
                    }
                }
            }
        }
        Event::TypeRegistryLock => {
            if tid != MAIN {
                point_in(&sh, tid, Point::RegistryLock);
            }
        }
        Event::MutexLock { mutex, probe, file, line } => {
            if tid != MAIN {
                point_in(&sh, tid, Point::MutexLock { mutex, probe, file, line });
            }
        }
        Event::PtrMade { ptr, buf, elem_size } => {
            let mut st = sh.st.lock().unwrap();
            st.events += 1;
            if elem_size == 0 {
                return;
            }
            let genr = match st.bufs.get(&buf) {
                Some(g) => *g,
                None => {
                    // buffer allocated before the sink was installed
                    st.next_gen += 1;
                    let g = st.next_gen;
                    st.bufs.insert(buf, g);
                    g
                }
            };
            if tid != MAIN {
                let m = st.last_lock[tid];
                st.made[tid].push((ptr, buf, genr, m));
                if st.made[tid].len() > 64 {
                    st.made[tid].remove(0);
                }
            }
        }
        Event::BufAlloc { buf, .. } => {
            let mut st = sh.st.lock().unwrap();
            st.next_gen += 1;
            let g = st.next_gen;
            st.bufs.insert(buf, g);
        }
        Event::BufMoved { old, new, .. } => {
            let mut st = sh.st.lock().unwrap();
            st.relocations += 1;
            st.bufs.remove(&old);
            st.next_gen += 1;
            let g = st.next_gen;
            st.bufs.insert(new, g);
        }
        Event::BufFreed { buf } => {
            let mut st = sh.st.lock().unwrap();
            st.bufs.remove(&buf);
        }
        _ => {}
    }
}

fn point_in(sh: &Arc<Shared>, tid: usize, p: Point) {
    let mut st = sh.st.lock().unwrap();
    st.status[tid] = Status::At(p);
    st.turn = Turn::Sched;
    sh.cv.notify_all();
    loop {
        if st.turn == Turn::Thread(tid) {
            break;
        }
        if st.abort && st.unwind_ok[tid] {
            drop(st);
            std::panic::resume_unwind(Box::new(AbortToken));
        }
        st = sh.cv.wait(st).unwrap();
    }
    st.status[tid] = Status::Running;
}

/// Explicit schedule point for harness code
pub fn yield_point(tag: u32) {
    if let Some((sh, tid)) = CTX.with(|c| c.borrow().clone()) {
        if tid != MAIN {
            point_in(&sh, tid, Point::Yield(tag));
        }
    }
}

/// One scheduling decision
#[derive(Clone, Debug)]
pub struct Step {
    pub enabled: Vec<usize>,
    pub chosen: usize,
    /// thread that ran up to this decision (None at the very first one)
    pub running: Option<usize>,
    pub running_enabled: bool,
    pub point: Point,
}

#[derive(Debug)]
pub struct Exec {
    pub steps: Vec<Step>,
    pub choices: Vec<usize>,
    pub deadlock: Option<Vec<(usize, Point)>>,
    pub alarms: Vec<Alarm>,
    pub panics: Vec<(usize, String)>,
    pub diverged: bool,
    pub horizon_hit: bool,
    pub preemptions: usize,
    pub relocations: u64,
    /// threads left parked forever (deadlock with JIT frames on the stack)
    pub leaked_threads: usize,
}

pub type Body = Box<dyn FnOnce() + Send + 'static>;

pub struct ThreadSpec {
    pub body: Body,
    /// may the thread be unwound out of a deadlock? (false when compiled
    /// script code may be on its stack)
    pub unwind_ok: bool,
}

const HORIZON: usize = 2000;

/// Run one execution: the threads run `bodies` under the schedule `prefix`,
/// then the default policy (keep the running thread if enabled, else lowest id).
pub fn run(bodies: Vec<ThreadSpec>, prefix: &[usize]) -> Exec {
    let n = bodies.len();
    let sh = Arc::new(Shared {
        st: Mutex::new(St {
            turn: Turn::Sched,
            status: vec![Status::NotStarted; n],
            abort: false,
            unwind_ok: bodies.iter().map(|b| b.unwind_ok).collect(),
            bufs: HashMap::new(),
            next_gen: 0,
            last_lock: vec![None; n],
            made: vec![vec![]; n],
            alarms: vec![],
            events: 0,
            relocations: 0,
        }),
        cv: Condvar::new(),
    });
    roto::verif::set_sink(Some(sink));
    let prev_ctx = CTX.with(|c| c.borrow_mut().replace((sh.clone(), MAIN)));
    let mut handles = vec![];
    let unwind_ok: Vec<bool> = bodies.iter().map(|b| b.unwind_ok).collect();
    for (tid, spec) in bodies.into_iter().enumerate() {
        let sh2 = sh.clone();
        let body = spec.body;
        let h = std::thread::Builder::new()
            .stack_size(1 << 20)
            .spawn(move || {
                CTX.with(|c| *c.borrow_mut() = Some((sh2.clone(), tid)));
                let r = catch_unwind(AssertUnwindSafe(|| {
                    point_in(&sh2, tid, Point::Start);
                    body();
                }));
                let mut st = sh2.st.lock().unwrap();
                st.status[tid] = match r {
                    Ok(()) => Status::Finished,
                    Err(e) => {
                        if e.is::<AbortToken>() {
                            Status::Finished
                        } else {
                            Status::Panicked(panic_msg(&e))
                        }
                    }
                };
                st.turn = Turn::Sched;
                sh2.cv.notify_all();
                CTX.with(|c| *c.borrow_mut() = None);
            })
            .expect("spawn");
        handles.push(Some(h));
    }

    let mut steps: Vec<Step> = vec![];
    let mut choices = vec![];
    let mut deadlock = None;
    let mut diverged = false;
    let mut horizon_hit = false;
    let mut running: Option<usize> = None;
    let mut preemptions = 0;
    let mut leaked = 0;
    loop {
        let mut st = sh.st.lock().unwrap();
        // wait until every thread is parked or finished
        loop {
            let settled = st.turn == Turn::Sched
                && st.status.iter().all(|s| matches!(s, Status::At(_) | Status::Finished | Status::Panicked(_)));
            if settled {
                break;
            }
            st = sh.cv.wait(st).unwrap();
        }
        let live: Vec<usize> = (0..n).filter(|t| matches!(st.status[*t], Status::At(_))).collect();
        if live.is_empty() {
            break;
        }
        let enabled: Vec<usize> = live
            .iter()
            .copied()
            .filter(|t| match &st.status[*t] {
                // SAFETY: the parked thread holds a handle of the list it is about to lock
                Status::At(Point::Lock { mutex, .. }) => unsafe { roto::verif::list_mutex_is_free(*mutex) },
                // SAFETY: the parked thread holds a handle of the value that owns the mutex
                Status::At(Point::MutexLock { mutex, probe, .. }) => unsafe { roto::verif::mutex_is_free(*mutex, *probe) },
                _ => true,
            })
            .collect();
        if enabled.is_empty() || steps.len() >= HORIZON {
            if enabled.is_empty() {
                deadlock = Some(
                    live.iter()
                        .map(|t| match &st.status[*t] {
                            Status::At(p) => (*t, p.clone()),
                            _ => unreachable!(),
                        })
                        .collect(),
                );
            } else {
                horizon_hit = true;
            }
            // tear down: unwind the threads that may be unwound, leak the rest
            st.abort = true;
            sh.cv.notify_all();
            loop {
                let pending = (0..n).any(|t| unwind_ok[t] && matches!(st.status[t], Status::At(_) | Status::Running));
                if !pending {
                    break;
                }
                st = sh.cv.wait(st).unwrap();
            }
            for t in 0..n {
                if !unwind_ok[t] && matches!(st.status[t], Status::At(_)) {
                    leaked += 1;
                    if let Some(h) = handles[t].take() {
                        std::mem::forget(h);
                    }
                }
            }
            break;
        }
        // canonical order: the running thread first if still enabled, then ascending ids
        let running_enabled = running.is_some_and(|r| enabled.contains(&r));
        let mut order = vec![];
        if running_enabled {
            order.push(running.unwrap());
        }
        for t in &enabled {
            if Some(*t) != running || !running_enabled {
                if !order.contains(t) {
                    order.push(*t);
                }
            }
        }
        let k = steps.len();
        let chosen = if k < prefix.len() {
            if !order.contains(&prefix[k]) {
                diverged = true;
                order[0]
            } else {
                prefix[k]
            }
        } else {
            order[0]
        };
        if running_enabled && Some(chosen) != running {
            preemptions += 1;
        }
        let point = match &st.status[chosen] {
            Status::At(p) => p.clone(),
            _ => unreachable!(),
        };
        steps.push(Step { enabled: order, chosen, running, running_enabled, point });
        choices.push(chosen);
        running = Some(chosen);
        st.turn = Turn::Thread(chosen);
        sh.cv.notify_all();
        drop(st);
    }
    for h in handles.iter_mut() {
        if let Some(h) = h.take() {
            let _ = h.join();
        }
    }
    let st = sh.st.lock().unwrap();
    let panics = st
        .status
        .iter()
        .enumerate()
        .filter_map(|(t, s)| match s {
            Status::Panicked(m) => Some((t, m.clone())),
            _ => None,
        })
        .collect();
    let alarms = st.alarms.clone();
    let relocations = st.relocations;
    drop(st);
    CTX.with(|c| *c.borrow_mut() = prev_ctx);
    Exec {
        steps,
        choices,
        deadlock,
        alarms,
        panics,
        diverged,
        horizon_hit,
        preemptions,
        relocations,
        leaked_threads: leaked,
    }
}

fn panic_msg(e: &Box<dyn Any + Send>) -> String {
    if let Some(s) = e.downcast_ref::<&str>() {
        s.to_string()
    } else if let Some(s) = e.downcast_ref::<String>() {
        s.clone()
    } else {
        "<panic>".into()
    }
}

/// Keep the main thread's buffer registry alive between `run`s of the same
/// exploration? No: every execution starts from fresh objects, so the registry
/// is per execution. Buffers allocated before `run` are learned lazily.
///
/// Depth-first exploration of all schedules with at most `bound` preemptions.
/// `mk` builds the fresh thread bodies for one execution; `visit` sees every
/// complete execution (with whatever `mk` attached to it) and returns `false`
/// to stop the exploration early (never used for verdicts, only for caps).
pub fn explore<T>(
    bound: usize,
    mut mk: impl FnMut() -> (Vec<ThreadSpec>, T),
    mut visit: impl FnMut(&Exec, T) -> bool,
) -> ExploreStats {
    let mut stats = ExploreStats::default();
    let mut stack: Vec<Vec<usize>> = vec![vec![]];
    while let Some(prefix) = stack.pop() {
        let (bodies, extra) = mk();
        let x = run(bodies, &prefix);
        stats.schedules += 1;
        stats.points += x.steps.len() as u64;
        stats.max_preemptions = stats.max_preemptions.max(x.preemptions);
        if x.diverged {
            stats.diverged += 1;
        }
        if x.deadlock.is_some() {
            stats.deadlocks += 1;
        }
        stats.leaked_threads += x.leaked_threads;
        // children: alternatives at every point at or after the prefix
        let mut pre = 0usize; // preemptions before step i
        let mut children = vec![];
        for (i, s) in x.steps.iter().enumerate() {
            if i >= prefix.len() {
                for alt in s.enabled.iter().skip(1) {
                    // enabled[0] is the default choice here (steps past the
                    // prefix always took it)
                    let cost = pre + usize::from(s.running_enabled);
                    if cost <= bound {
                        let mut p = x.choices[..i].to_vec();
                        p.push(*alt);
                        children.push(p);
                    }
                }
            }
            if s.running_enabled && Some(s.chosen) != s.running {
                pre += 1;
            }
        }
        // push in reverse so that the simplest (earliest deviation last…) order is deterministic
        for c in children.into_iter().rev() {
            stack.push(c);
        }
        if !visit(&x, extra) {
            stats.stopped_early = true;
            break;
        }
    }
    stats
}

#[derive(Default, Debug, Clone)]
pub struct ExploreStats {
    pub schedules: u64,
    pub points: u64,
    pub deadlocks: u64,
    pub diverged: u64,
    pub max_preemptions: usize,
    pub leaked_threads: usize,
    pub stopped_early: bool,
}

/// Self-test of the scheduler: 2 threads x 3 yield points have exactly
/// C(6,3) = 20 interleavings unbounded, and the number of distinct outcomes of
/// a racy read-modify-write is what combinatorics says.
pub fn self_test() -> Result<(), String> {
    use std::sync::atomic::AtomicUsize;
    let mut outcomes = std::collections::BTreeSet::new();
    let stats = explore(
        usize::MAX,
        || {
            let log = Arc::new(Mutex::new(Vec::<u8>::new()));
            let counter = Arc::new(AtomicUsize::new(0));
            let mut v = vec![];
            for t in 0..2u8 {
                let log = log.clone();
                let counter = counter.clone();
                v.push(ThreadSpec {
                    unwind_ok: true,
                    body: Box::new(move || {
                        for k in 0..2 {
                            // racy increment: read, yield, write
                            let x = counter.load(Ordering::SeqCst);
                            yield_point(k);
                            counter.store(x + 1, Ordering::SeqCst);
                            log.lock().unwrap().push(t);
                        }
                    }),
                });
            }
            (v, (log, counter))
        },
        |_x, (log, counter)| {
            outcomes.insert((log.lock().unwrap().clone(), counter.load(Ordering::SeqCst)));
            true
        },
    );
    // each thread passes Start + 2 yields = 3 points -> C(6,3) = 20 schedules
    if stats.schedules != 20 {
        return Err(format!("scheduler self-test: expected 20 schedules, got {}", stats.schedules));
    }
    let finals: std::collections::BTreeSet<usize> = outcomes.iter().map(|o| o.1).collect();
    // lost updates: final counter can be 2, 3 or 4
    if finals != [2usize, 3, 4].into_iter().collect() {
        return Err(format!("scheduler self-test: final counter values {finals:?}, expected {{2,3,4}}"));
    }
    // bound 0: exactly 2 schedules?  (non-preemptive: at Start either thread
    // may go first, afterwards only switches at thread end) -> 2
    let mut n0 = 0;
    explore(
        0,
        || {
            let mut v = vec![];
            for _ in 0..2 {
                v.push(ThreadSpec {
                    unwind_ok: true,
                    body: Box::new(|| {
                        yield_point(0);
                        yield_point(1);
                    }),
                });
            }
            (v, ())
        },
        |_x, ()| {
            n0 += 1;
            true
        },
    );
    if n0 != 2 {
        return Err(format!("scheduler self-test: bound 0 expected 2 schedules, got {n0}"));
    }
    Ok(())
}
