//! Part B of C12: the type-level clause. "Safe Rust cannot use the API to make
//! two threads access non-thread-safe state without synchronisation."
//!
//! The API surface that accepts user state is finite. For each entry point x
//! capture class a tiny example program is generated and type-checked by
//! rustc (one `cargo check --examples --keep-going`). The expected verdict
//! comes from the rule "state that two threads can reach must be Sync", not
//! from what rustc currently says.

use std::cell::Cell;
use std::path::PathBuf;
use std::process::Command;
use std::sync::{Arc, Mutex};

use c00sched::{ThreadSpec, explore, yield_point};
use roto::{Function, NoCtx, Runtime, TypedFunc, location};
use vcore::{Cx, Finding, Value, Violation, json};

pub struct Probe {
    pub name: &'static str,
    /// the entry point exercised
    pub entry: &'static str,
    /// capture class: "sync", "send-not-sync", "not-send"
    pub class: &'static str,
    /// must rustc accept it?
    pub must_compile: bool,
    pub body: &'static str,
}

const HEAD: &str = "#![allow(unused)]\nuse roto::*;\nuse std::cell::Cell;\nuse std::rc::Rc;\nuse std::sync::Arc;\nuse std::sync::atomic::{AtomicU32, Ordering};\n";

pub const PROBES: [Probe; 18] = [
    // ---- Function::new with a capturing closure
    Probe { name: "fnnew_sync", entry: "Function::new(closure)", class: "sync", must_compile: true,
        body: "fn main() { let c = Arc::new(AtomicU32::new(0)); let f = Function::new(\"bump\", \"\", vec![], move || -> u32 { c.fetch_add(1, Ordering::SeqCst) }, location!()).unwrap(); let _rt = Runtime::from_lib(f).unwrap(); }" },
    Probe { name: "fnnew_cell", entry: "Function::new(closure)", class: "send-not-sync", must_compile: false,
        body: "fn main() { let c = Cell::new(0u32); let f = Function::new(\"bump\", \"\", vec![], move || -> u32 { let v = c.get(); c.set(v + 1); v }, location!()).unwrap(); let _rt = Runtime::from_lib(f).unwrap(); }" },
    Probe { name: "fnnew_rc", entry: "Function::new(closure)", class: "not-send", must_compile: false,
        body: "fn main() { let c = Rc::new(Cell::new(0u32)); let f = Function::new(\"bump\", \"\", vec![], move || -> u32 { let v = c.get(); c.set(v + 1); v }, location!()).unwrap(); let _rt = Runtime::from_lib(f).unwrap(); }" },
    // ---- library! closure form
    Probe { name: "lib_closure_sync", entry: "library! { let f = move || .. }", class: "sync", must_compile: true,
        body: "fn main() { let c = Arc::new(AtomicU32::new(0)); let lib = library! { let bump = move || -> u32 { c.fetch_add(1, Ordering::SeqCst) }; }; let _rt = Runtime::from_lib(lib).unwrap(); }" },
    Probe { name: "lib_closure_cell", entry: "library! { let f = move || .. }", class: "send-not-sync", must_compile: false,
        body: "fn main() { let c = Cell::new(0u32); let lib = library! { let bump = move || -> u32 { let v = c.get(); c.set(v + 1); v }; }; let _rt = Runtime::from_lib(lib).unwrap(); }" },
    Probe { name: "lib_closure_rc", entry: "library! { let f = move || .. }", class: "not-send", must_compile: false,
        body: "fn main() { let c = Rc::new(Cell::new(0u32)); let lib = library! { let bump = move || -> u32 { let v = c.get(); c.set(v + 1); v }; }; let _rt = Runtime::from_lib(lib).unwrap(); }" },
    // ---- registered constants
    Probe { name: "const_sync", entry: "Constant::new(value)", class: "sync", must_compile: true,
        body: "#[derive(Clone, PartialEq)] struct S(u32);\nfn main() { let lib = library! { #[clone] type S = Val<S>; const K: Val<S> = Val(S(1)); }; let _rt = Runtime::from_lib(lib).unwrap(); }" },
    Probe { name: "const_cell", entry: "Constant::new(value)", class: "send-not-sync", must_compile: false,
        body: "#[derive(Clone, PartialEq)] struct S(Cell<u32>);\nfn main() { let lib = library! { #[clone] type S = Val<S>; const K: Val<S> = Val(S(Cell::new(1))); }; let _rt = Runtime::from_lib(lib).unwrap(); }" },
    Probe { name: "const_rc", entry: "Constant::new(value)", class: "not-send", must_compile: false,
        body: "#[derive(Clone, PartialEq)] struct S(Rc<u32>);\nfn main() { let lib = library! { #[clone] type S = Val<S>; const K: Val<S> = Val(S(Rc::new(1))); }; let _rt = Runtime::from_lib(lib).unwrap(); }" },
    // ---- registered types used as arguments / return values
    Probe { name: "valarg_sync", entry: "Val<T> argument", class: "sync", must_compile: true,
        body: "#[derive(Clone, PartialEq)] struct S(u32);\nfn main() { let lib = library! { #[clone] type S = Val<S>; fn get(s: Val<S>) -> u32 { s.0.0 } }; let _rt = Runtime::from_lib(lib).unwrap(); }" },
    Probe { name: "valarg_cell", entry: "Val<T> argument", class: "send-not-sync", must_compile: false,
        body: "#[derive(Clone, PartialEq)] struct S(Cell<u32>);\nfn main() { let lib = library! { #[clone] type S = Val<S>; fn get(s: Val<S>) -> u32 { s.0.0.get() } }; let _rt = Runtime::from_lib(lib).unwrap(); }" },
    Probe { name: "valarg_rc", entry: "Val<T> argument", class: "not-send", must_compile: false,
        body: "#[derive(Clone, PartialEq)] struct S(Rc<u32>);\nfn main() { let lib = library! { #[clone] type S = Val<S>; fn get(s: Val<S>) -> u32 { *s.0.0 } }; let _rt = Runtime::from_lib(lib).unwrap(); }" },
    // ---- lists of registered values (shared between threads by design)
    Probe { name: "list_sync", entry: "List<Val<T>>", class: "sync", must_compile: true,
        body: "#[derive(Clone, PartialEq)] struct S(u32);\nfn main() { let l: List<Val<S>> = List::new(); l.push(Val(S(1))); let l2 = l.clone(); std::thread::spawn(move || { l2.get(0); }).join().unwrap(); }" },
    Probe { name: "list_cell", entry: "List<Val<T>>", class: "send-not-sync", must_compile: false,
        body: "#[derive(Clone, PartialEq)] struct S(Cell<u32>);\nfn main() { let l: List<Val<S>> = List::new(); l.push(Val(S(Cell::new(1)))); let l2 = l.clone(); std::thread::spawn(move || { l2.get(0); }).join().unwrap(); }" },
    Probe { name: "list_rc", entry: "List<Val<T>>", class: "not-send", must_compile: false,
        body: "#[derive(Clone, PartialEq)] struct S(Rc<u32>);\nfn main() { let l: List<Val<S>> = List::new(); l.push(Val(S(Rc::new(1)))); let l2 = l.clone(); std::thread::spawn(move || { l2.get(0); }).join().unwrap(); }" },
    // ---- handles and runtimes are shared between threads by design
    Probe { name: "handle_shared", entry: "TypedFunc shared by reference", class: "sync", must_compile: true,
        body: "fn main() { let rt = Runtime::new(); let mut p = FileTree::test_file(\"x\", \"fn f() -> u32 { 1 }\", 0).compile(&rt).unwrap(); let f = p.get_function::<fn() -> u32>(\"f\").unwrap(); std::thread::scope(|s| { s.spawn(|| f.call()); s.spawn(|| f.call()); }); }" },
    Probe { name: "runtime_shared", entry: "Runtime shared by reference", class: "sync", must_compile: true,
        body: "fn main() { let rt = Runtime::new(); std::thread::scope(|s| { s.spawn(|| { let _ = FileTree::test_file(\"x\", \"fn f() -> u32 { 1 }\", 0).compile(&rt); }); }); }" },
    Probe { name: "package_sent", entry: "Package moved to a thread", class: "sync", must_compile: true,
        body: "fn main() { let rt = Runtime::new(); let p = FileTree::test_file(\"x\", \"fn f() -> u32 { 1 }\", 0).compile(&rt).unwrap(); std::thread::spawn(move || drop(p)).join().unwrap(); }" },
];

fn repo() -> String {
    std::env::var("VERIF_REPO").unwrap_or_else(|_| "/repo".to_string())
}

/// Type-check all probes; returns name -> compiled?
fn check_probes() -> Result<std::collections::HashMap<String, bool>, String> {
    // self-test mode (VERIF_REPO): everything next to the scratch copy, nothing shared with
    // a run against /repo
    let dir = match std::env::var("VERIF_REPO") {
        Ok(r) => PathBuf::from(r).parent().unwrap().join("c12probes"),
        Err(_) => PathBuf::from("/verif/work/c12probes"),
    };
    let _ = std::fs::remove_dir_all(&dir);
    std::fs::create_dir_all(dir.join("examples")).map_err(|e| e.to_string())?;
    std::fs::create_dir_all(dir.join("src")).map_err(|e| e.to_string())?;
    std::fs::write(dir.join("src/lib.rs"), "").map_err(|e| e.to_string())?;
    std::fs::write(
        dir.join("Cargo.toml"),
        format!(
            "[package]\nname = \"c12probes\"\nversion = \"0.1.0\"\nedition = \"2024\"\n\n[dependencies]\nroto = {{ path = \"{}\", default-features = false }}\n\n[workspace]\n",
            repo()
        ),
    )
    .map_err(|e| e.to_string())?;
    // a git worktree of the repository has no Cargo.lock (it is not tracked): the harness
    // workspace's copy pins the same versions
    let lock = [format!("{}/Cargo.lock", repo()), "/repo/Cargo.lock".to_string(), "/verif/mc/Cargo.lock".to_string()]
        .into_iter()
        .find(|p| std::path::Path::new(p).exists())
        .ok_or("no Cargo.lock found")?;
    std::fs::copy(lock, dir.join("Cargo.lock")).map_err(|e| e.to_string())?;
    for p in &PROBES {
        std::fs::write(dir.join("examples").join(format!("{}.rs", p.name)), format!("{HEAD}{}\n", p.body))
            .map_err(|e| e.to_string())?;
    }
    let target = match std::env::var("VERIF_REPO") {
        Ok(r) => PathBuf::from(r).parent().unwrap().join("target-probes"),
        Err(_) => PathBuf::from("/verif/target-probes"),
    };
    let out = Command::new("cargo")
        .args(["check", "--offline", "--examples", "--keep-going", "--message-format=json", "-q"])
        .arg("--target-dir")
        .arg(&target)
        .current_dir(&dir)
        .env("CARGO_NET_OFFLINE", "true")
        .output()
        .map_err(|e| format!("cargo: {e}"))?;
    let text = String::from_utf8_lossy(&out.stdout);
    let mut res = std::collections::HashMap::new();
    let mut saw_any = false;
    for line in text.lines() {
        let Ok(v) = vcore::serde_json::from_str::<Value>(line) else { continue };
        let name = v["target"]["name"].as_str().unwrap_or("").to_string();
        let is_example = v["target"]["kind"].as_array().is_some_and(|k| k.iter().any(|x| x == "example"));
        if !is_example {
            continue;
        }
        match v["reason"].as_str() {
            Some("compiler-artifact") => {
                saw_any = true;
                res.entry(name).or_insert(true);
            }
            Some("compiler-message") => {
                if v["message"]["level"] == "error" {
                    saw_any = true;
                    res.insert(name, false);
                }
            }
            _ => {}
        }
    }
    if !saw_any {
        return Err(format!(
            "probe build produced no verdicts; stderr: {}",
            String::from_utf8_lossy(&out.stderr).lines().rev().take(5).collect::<Vec<_>>().join(" | ")
        ));
    }
    Ok(res)
}

/// A wrapper that is Send but not Sync, like `Cell`, whose read-modify-write
/// contains a schedule point: what a `Cell`-capturing closure does, made
/// observable for the scheduler.
struct Racy(Cell<u32>);

/// Exhibit the lost update: two threads call a script function that calls a
/// registered closure capturing a `Cell`. Returns (schedules, losing schedule).
fn exhibit_cell_race() -> Result<(u64, Option<Vec<usize>>), String> {
    let mut losing = None;
    let stats = explore(
        usize::MAX,
        || {
            let state = Racy(Cell::new(0));
            let func = Function::new(
                "bump",
                "",
                vec![],
                move || -> u32 {
                    let v = state.0.get();
                    yield_point(1);
                    state.0.set(v + 1);
                    v + 1
                },
                location!(),
            );
            let func = match func {
                Ok(f) => f,
                Err(_) => return (vec![], None),
            };
            let rt = Runtime::from_lib(func).expect("runtime");
            let mut pkg = roto::FileTree::test_file("race.roto", "fn g() -> u32 { bump() }\n", 0)
                .compile(&rt)
                .map_err(|_| ())
                .expect("compiles");
            let g: TypedFunc<NoCtx, fn() -> u32> = pkg.get_function("g").expect("g");
            let results = Arc::new(Mutex::new(vec![]));
            let mut specs = vec![];
            for _ in 0..2 {
                let g = g.clone();
                let results = results.clone();
                specs.push(ThreadSpec {
                    unwind_ok: false,
                    body: Box::new(move || {
                        let r = g.call();
                        results.lock().unwrap().push(r);
                    }),
                });
            }
            (specs, Some((results, rt, pkg)))
        },
        |x, extra| {
            if let Some((results, _rt, _pkg)) = extra {
                let mut r = results.lock().unwrap().clone();
                r.sort();
                // two increments: the calls must return 1 and 2
                if r != vec![1, 2] && losing.is_none() {
                    losing = Some(x.choices.clone());
                }
            }
            true
        },
    );
    Ok((stats.schedules, losing))
}

pub fn run(cx: &mut Cx) {
    if !cx.case(0) {
        return;
    }
    let verdicts = match check_probes() {
        Ok(v) => v,
        Err(e) => {
            cx.violation("machinery:probe-build", 0, json!({"part": "B"}), json!("probes are type-checked"), json!(e));
            return;
        }
    };
    for (i, p) in PROBES.iter().enumerate() {
        let compiled = verdicts.get(p.name).copied();
        cx.states(1);
        cx.transitions(1);
        cx.validated(1);
        cx.nontrivial(vcore::util::fnv_str(p.name));
        cx.outcome(vcore::util::fnv_str(&format!("{}{compiled:?}", p.name)));
        if i == 1 {
            cx.sample(json!({"part": "B", "probe": p.name, "entry": p.entry, "class": p.class, "source": p.body, "rustc_accepts": compiled}));
        }
        match compiled {
            None => cx.violation(
                "machinery:probe-missing",
                i as u64 + 1,
                json!({"part": "B", "probe": p.name}),
                json!("a verdict"),
                json!("cargo check reported nothing for this example"),
            ),
            Some(c) if c == p.must_compile => {}
            Some(true) => {
                // accepted although the state is not thread-safe: exhibit it
                let mut detail = json!({"rustc": "accepted"});
                if p.class == "send-not-sync" && (p.name == "fnnew_cell" || p.name == "lib_closure_cell") {
                    if let Ok((n, Some(s))) = exhibit_cell_race() {
                        detail = json!({"rustc": "accepted", "schedules_explored": n,
                                        "lost_update_schedule": s,
                                        "exhibit": "two threads call `fn g() -> u32 { bump() }`; the closure reads the Cell, yields, writes back: both calls return 1"});
                    }
                }
                cx.violation(
                    "unsync-state-accepted",
                    i as u64 + 1,
                    json!({"part": "B", "probe": p.name, "entry": p.entry, "class": p.class, "source": p.body}),
                    json!("rustc rejects: state reachable from two threads must be Sync"),
                    detail,
                );
            }
            Some(false) => cx.violation(
                "safe-use-rejected",
                i as u64 + 1,
                json!({"part": "B", "probe": p.name, "entry": p.entry, "class": p.class, "source": p.body}),
                json!("rustc accepts: thread-safe state / documented sharing"),
                json!({"rustc": "rejected"}),
            ),
        }
    }
}

pub fn describe(sub: u64) -> Value {
    if sub == 0 {
        return json!({"part": "B", "phase": "cargo check of the probe crate"});
    }
    match PROBES.get(sub as usize - 1) {
        Some(p) => json!({"part": "B", "probe": p.name, "entry": p.entry, "class": p.class}),
        None => json!(null),
    }
}

pub fn matches(f: &Finding, v: &Violation) -> bool {
    match f.matcher.as_str() {
        // closures registered as functions only need to be Send
        "registered_closure_not_sync" => {
            v.class == "unsync-state-accepted"
                && v.case["class"] == "send-not-sync"
                && ["fnnew_cell", "lib_closure_cell"].contains(&v.case["probe"].as_str().unwrap_or(""))
        }
        _ => false,
    }
}
