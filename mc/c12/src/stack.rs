//! Part C — stack discipline of compiled code on spawned threads.
//!
//! A compiled function whose frame is larger than the guard region of a thread
//! stack must touch the guard page (and die there: stack exhaustion is a
//! documented resource limit) instead of stepping over it onto whatever is
//! mapped below — on a spawned thread that is the stack of another thread.
//! Found by an auditing sub-agent: Cranelift's `enable_probestack` was off.
//!
//! Each scenario runs in a forked copy of the worker (single-threaded at that
//! point): a "caller" thread with a 2 MiB stack is spawned first (highest
//! address), four "victim" threads with canary-filled stacks after it. The
//! caller makes ONE call of a script function whose frame is `frame` bytes
//! (a large record that is only built on a path not taken); the script calls a
//! host function that records the address of one of its locals. Verdicts of the
//! child: exit 0 = the host function ran inside the caller's own stack mapping
//! and no canary changed; exit 3 = it ran outside (or canaries were
//! overwritten); killed by SIGSEGV / SIGBUS / SIGABRT = clean stack overflow
//! (accepted). Frames of 16 KiB .. 8 MiB are enumerated, so are both the
//! non-recursive and the recursive form.

use std::sync::atomic::{AtomicUsize, Ordering::SeqCst};
use std::sync::{Arc, Barrier};

use roto::{NoCtx, Runtime, TypedFunc, library};

pub static HOST_LOCAL: AtomicUsize = AtomicUsize::new(0);

/// registered as `whereami(n: u64) -> u64`
pub fn host_where(n: u64) -> u64 {
    let x = [n; 16];
    HOST_LOCAL.store(std::hint::black_box(&x) as *const _ as usize, SeqCst);
    n
}

fn runtime() -> Runtime<NoCtx> {
    Runtime::from_lib(library! {
        fn whereami(n: u64) -> u64 { host_where(n) }
    })
    .expect("stack lib")
}

/// levels of 8-fold nesting: L1 = 64 B, L2 = 512 B, L3 = 4 KiB, L4 = 32 KiB, L5 = 256 KiB, L6 = 2 MiB, L7 = 16 MiB
fn script(levels: usize, fields_top: usize) -> String {
    let names = ["a", "b", "c", "d", "e", "f", "g", "h"];
    let mut s = String::from("record L1 { a: u64, b: u64, c: u64, d: u64, e: u64, f: u64, g: u64, h: u64 }\n");
    for l in 2..=levels {
        let n = if l == levels { fields_top } else { 8 };
        let fs: Vec<String> = names[..n].iter().map(|f| format!("{f}: L{}", l - 1)).collect();
        s += &format!("record L{l} {{ {} }}\n", fs.join(", "));
    }
    s += "fn mk(k: u64) -> L";
    s += &format!("{levels} {{\n    let v1 = L1 {{ a: k, b: k, c: k, d: k, e: k, f: k, g: k, h: k }};\n");
    for l in 2..=levels {
        let n = if l == levels { fields_top } else { 8 };
        let fs: Vec<String> = names[..n].iter().map(|f| format!("{f}: v{}", l - 1)).collect();
        s += &format!("    let v{l} = L{l} {{ {} }};\n", fs.join(", "));
    }
    s += &format!("    v{levels}\n}}\n");
    let path = ".a".repeat(levels);
    // `n == 12345` never holds: the big value is never built, but its stack slot is part of the frame
    s += &format!("fn once(n: u64) -> u64 {{\n    if n == 12345 {{ let r = mk(1); return r{path}; }}\n    whereami(n) + 1\n}}\n");
    s += &format!("fn rec(n: u64) -> u64 {{\n    if n == 12345 {{ let r = mk(1); return r{path}; }}\n    whereami(n);\n    if n == 0 {{ return 0; }}\n    rec(n - 1) + 1\n}}\n");
    s
}

#[derive(Clone, Copy, Debug)]
pub struct Scenario {
    pub levels: usize,
    pub fields_top: usize,
    pub recursive: bool,
    pub depth: u64,
}

impl Scenario {
    pub fn frame_bytes(&self) -> usize {
        64 * 8usize.pow(self.levels as u32 - 2) * self.fields_top
    }
}

pub fn scenarios() -> Vec<Scenario> {
    let mut v = vec![];
    // one call: frames from 32 KiB to 16 MiB (caller stack: 2 MiB)
    for (levels, top) in [(4, 8), (5, 2), (5, 8), (6, 2), (6, 4), (6, 8), (7, 2), (7, 8)] {
        v.push(Scenario { levels, fields_top: top, recursive: false, depth: 1 });
    }
    // recursion with 4 KiB .. 256 KiB frames, deep enough to leave a 2 MiB stack several times over
    for (levels, top, depth) in [(3, 8, 4000), (4, 2, 2000), (4, 8, 600), (5, 2, 200), (5, 8, 64)] {
        v.push(Scenario { levels, fields_top: top, recursive: true, depth });
    }
    v
}

fn mapping_of(a: usize) -> Option<(usize, usize)> {
    let s = std::fs::read_to_string("/proc/self/maps").ok()?;
    for l in s.lines() {
        let mut it = l.split_whitespace();
        let (lo, hi) = it.next()?.split_once('-')?;
        let (lo, hi) = (usize::from_str_radix(lo, 16).ok()?, usize::from_str_radix(hi, 16).ok()?);
        if lo <= a && a < hi {
            return Some((lo, hi));
        }
    }
    None
}

const PATTERN: u64 = 0x0123_4567_89AB_CDEF;

/// Runs in the forked child; returns its exit code.
fn child(sc: Scenario) -> i32 {
    let rt = runtime();
    let src = script(sc.levels, sc.fields_top);
    let mut pkg = match roto::FileTree::test_file("stack.roto", &src, 0).compile(&rt) {
        Ok(p) => p,
        Err(_) => return 4,
    };
    let f: TypedFunc<NoCtx, fn(u64) -> u64> = match pkg.get_function(if sc.recursive { "rec" } else { "once" }) {
        Ok(f) => f,
        Err(_) => return 4,
    };
    const VICTIMS: usize = 4;
    let started = Arc::new(Barrier::new(VICTIMS + 2));
    let finished = Arc::new(Barrier::new(VICTIMS + 2));
    let caller = {
        let (started, finished) = (started.clone(), finished.clone());
        std::thread::Builder::new()
            .stack_size(2 << 20)
            .spawn(move || {
                started.wait();
                let here = 0u8;
                let mine = mapping_of(std::hint::black_box(&here) as *const u8 as usize);
                let arg = if sc.recursive { sc.depth } else { 5 };
                let r = f.call(arg);
                let host = HOST_LOCAL.load(SeqCst);
                finished.wait();
                let inside = mine.is_some_and(|m| m.0 <= host && host < m.1);
                let want = if sc.recursive { sc.depth } else { 6 };
                (inside, r == want)
            })
            .expect("spawn caller")
    };
    std::thread::sleep(std::time::Duration::from_millis(100));
    let mut victims = vec![];
    for _ in 0..VICTIMS {
        let (started, finished) = (started.clone(), finished.clone());
        victims.push(
            std::thread::Builder::new()
                .stack_size(2 << 20)
                .spawn(move || {
                    fn fill(level: usize, started: &Barrier, finished: &Barrier) -> usize {
                        let canary = [PATTERN; 24 * 1024];
                        std::hint::black_box(&canary);
                        let below = if level == 0 {
                            started.wait();
                            finished.wait();
                            0
                        } else {
                            fill(level - 1, started, finished)
                        };
                        below + std::hint::black_box(&canary).iter().filter(|w| **w != PATTERN).count()
                    }
                    fill(7, &started, &finished)
                })
                .expect("spawn victim"),
        );
    }
    started.wait();
    finished.wait();
    let (inside, value_ok) = caller.join().unwrap_or((false, false));
    let damaged: usize = victims.into_iter().map(|v| v.join().unwrap_or(1)).sum();
    if !inside || damaged > 0 {
        3
    } else if !value_ok {
        5
    } else {
        0
    }
}

/// `Ok(description)`: held (returned inside its own stack, or died cleanly); `Err(what)`: violation
pub fn run(sc: Scenario) -> Result<String, String> {
    unsafe {
        let pid = libc::fork();
        if pid < 0 {
            return Ok("fork failed (not judged)".into());
        }
        if pid == 0 {
            let rl = libc::rlimit { rlim_cur: 0, rlim_max: 0 };
            libc::setrlimit(libc::RLIMIT_CORE, &rl);
            let code = child(sc);
            libc::_exit(code);
        }
        let mut status: libc::c_int = 0;
        libc::waitpid(pid, &mut status, 0);
        if libc::WIFSIGNALED(status) {
            return Ok(format!("clean stack overflow (signal {})", libc::WTERMSIG(status)));
        }
        match libc::WEXITSTATUS(status) {
            0 => Ok("ran inside its own stack".into()),
            3 => Err("the call returned although compiled code (or the host function it called) ran below the caller's stack mapping, on memory of other threads".into()),
            4 => Err("the scenario's script did not compile".into()),
            5 => Err("wrong result".into()),
            n => Err(format!("child exit {n}")),
        }
    }
}
