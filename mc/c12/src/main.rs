//! C12 — compiled functions are safe and deterministic under concurrent use.
//!
//! Part A (E-SCHED): every program of 2 threads x up to 2 operations (thorough:
//! 3 threads / 3 operations) over the operation menu below, run on the real
//! code under EVERY schedule up to the preemption bound. Schedule points:
//! inside the scripts (the host function `ye(k)` is called between the reads
//! and writes of script locals, records, strings, tracked values and a shared
//! list), at the type-registry lock (hook H2, reached from `get_function`) and
//! at list locks (hook H1). Oracles: every call returns what the same call
//! returns single-threaded, the final shared list holds exactly what was
//! pushed, the ledger of tracked values balances, no panic, no deadlock.
//!
//! Part B (type-level clause): for every API entry point that accepts user
//! state x capture class {Sync, Send + !Sync, !Send} a probe is type-checked
//! by rustc (`cargo check` of a generated probe crate); state that two threads
//! can reach must be `Sync`. Accepted probes that should have been rejected
//! are then RUN under the scheduler to exhibit the lost update.

use std::sync::{Arc, Mutex};

use c00sched::{ThreadSpec, explore, yield_point};
use roto::{List, NoCtx, Package, RotoString, Runtime, TypedFunc, Val, library};
use vcore::{Cfg, Check, Cx, Finding, Meta, SUB_SETUP, Tier, Value, Violation, json};

mod probes;
mod registry;
mod stack;

const SCRIPT: &str = "\
const KT: Tr = mk(900);
fn f(x: i32) -> i32 { let a = x * 3; let b = ye(1); let r = { p: a, q: b }; let c = ye(2); a + b + c + r.p + r.q }
fn t(x: u64) -> u64 { let t1 = mk(x); ye(3); let t2 = t1; ye(4); val(t1) + val(t2) + KT.payload() }
fn s(x: i32) -> String { let s1 = f\"a{x}\"; ye(5); let s2 = s1 + \"b\"; ye(6); s2 + s1 }
fn l(lst: List[u64], v: u64) -> u64 { let n = lst.len(); ye(7); lst.push(v); ye(8); lst.len() - n }
fn fc(cs: List[char]) -> String { String.from_chars(cs) }
fn jn(ss: List[String]) -> String { ss.join(\"-\") }
fn cat(a: List[char], b: List[char]) -> String { String.from_chars(a + b) }
fn eqq(x: List[u64], y: List[u64]) -> bool { x == y }
fn cc(x: List[u64], y: List[u64]) -> u64 { (x + y).len() }
record B1 { a: u64, b: u64, c: u64, d: u64, e: u64, f: u64, g: u64, h: u64 }\nrecord B2 { a: B1, b: B1, c: B1, d: B1, e: B1, f: B1, g: B1, h: B1 }\nrecord B3 { a: B2, b: B2, c: B2, d: B2, e: B2, f: B2, g: B2, h: B2 }\nfn big(x: u64) -> u64 { let v1 = B1 { a: x, b: x, c: x, d: x, e: x, f: x, g: x, h: x }; let v2 = B2 { a: v1, b: v1, c: v1, d: v1, e: v1, f: v1, g: v1, h: v1 }; let v3 = B3 { a: v2, b: v2, c: v2, d: v2, e: v2, f: v2, g: v2, h: v2 }; let y = ye(9); v3.a.a.a + v3.h.h.h + v3.d.e.f }\nconst SA: StringBuf = StringBuf.new();
const SB: StringBuf = StringBuf.new();
fn sp() -> u64 { SA.push_char('x'); ye(20); SA.as_string().bytes().len() }
fn sr() -> u64 { SA.as_string().bytes().len() }
fn se1() -> bool { SA == SB }
fn se2() -> bool { SB == SA }
fn sp2() -> u64 { SB.push_char('x'); ye(20); SB.as_string().bytes().len() }
fn sr2() -> u64 { SB.as_string().bytes().len() }
";

#[derive(Clone, Copy, Debug, PartialEq, Eq, PartialOrd, Ord)]
enum Op {
    CallF,        // locals and a record live across two host calls
    CallT,        // tracked values and a tracked constant
    CallS,        // strings
    CallL,        // shared list: len, push, len
    CloneCall,    // clone the handle, call the clone, drop it
    GetCall,      // get_function on the thread's own package (registry lock points), call, drop
    CompileCall,  // compile on the SHARED runtime, get, call, drop package and handle (hot reload)
    DropPkg,      // drop the package the shared handles came from
    CallBig,      // a 4096-byte record (8 x 8 x 8 u64) live across a host call: a value that large may not live in anything shared between activations
    CompileConst, // compile a script whose CONSTANT INITIALISER calls a host function (a schedule point in the middle of a compilation), get, call
    FromChars,    // script: String.from_chars(shared List[char])
    SwapChars,    // Rust: swap(0, 2) on the shared List[char]
    Join,         // script: shared List[String].join("-")
    SwapStrs,     // Rust: swap(0, 2) on the shared List[String]
    CatChars,     // script: String.from_chars(cs + cs)
    EqAB,         // script: a == b on two shared lists (takes both list locks)
    EqBA,         // script: b == a (the same two lists, operands swapped)
    CatAB,        // script: (a + b).len()
    CatBA,        // script: (b + a).len()
    SbPush,       // script: SA.push_char('x'); SA.as_string() length  (SA: a StringBuf constant = state shared by all callers)
    SbRead,       // script: SA.as_string() length
    SbEqAB,       // script: SA == SB
    SbEqBA,       // script: SB == SA
}

const MENU_QUICK: [Op; 5] = [Op::CallT, Op::CallL, Op::GetCall, Op::CompileCall, Op::DropPkg];
/// a built-in that reads a whole shared list must see ONE state of it
const MENU_LISTS: [Op; 5] = [Op::FromChars, Op::SwapChars, Op::Join, Op::SwapStrs, Op::CatChars];
/// operations that hold the locks of two shared lists at once, in both operand orders
const MENU_PAIRS: [Op; 4] = [Op::EqAB, Op::EqBA, Op::CatAB, Op::CatBA];
/// a `StringBuf` held in a script constant is interior-mutable state shared by every
/// thread that calls into the package
const MENU_SB: [Op; 4] = [Op::SbPush, Op::SbRead, Op::SbEqAB, Op::SbEqBA];
const MENU_FULL: [Op; 10] = [
    Op::CallBig,
    Op::CompileConst,
    Op::CallF,
    Op::CallT,
    Op::CallS,
    Op::CallL,
    Op::CloneCall,
    Op::GetCall,
    Op::CompileCall,
    Op::DropPkg,
];

type Program = Vec<Vec<Op>>;

#[derive(Clone)]
struct Handles {
    f: TypedFunc<NoCtx, fn(i32) -> i32>,
    big: TypedFunc<NoCtx, fn(u64) -> u64>,
    t: TypedFunc<NoCtx, fn(u64) -> u64>,
    s: TypedFunc<NoCtx, fn(i32) -> RotoString>,
    l: TypedFunc<NoCtx, fn(List<u64>, u64) -> u64>,
    fc: TypedFunc<NoCtx, fn(List<char>) -> RotoString>,
    jn: TypedFunc<NoCtx, fn(List<RotoString>) -> RotoString>,
    cat: TypedFunc<NoCtx, fn(List<char>, List<char>) -> RotoString>,
    eqq: TypedFunc<NoCtx, fn(List<u64>, List<u64>) -> bool>,
    cc: TypedFunc<NoCtx, fn(List<u64>, List<u64>) -> u64>,
    sp: TypedFunc<NoCtx, fn() -> u64>,
    sr: TypedFunc<NoCtx, fn() -> u64>,
    se1: TypedFunc<NoCtx, fn() -> bool>,
    se2: TypedFunc<NoCtx, fn() -> bool>,
    sp2: TypedFunc<NoCtx, fn() -> u64>,
    sr2: TypedFunc<NoCtx, fn() -> u64>,
}

#[derive(Clone)]
struct Lists {
    nums: List<u64>,
    /// a second list of the same type that nobody changes: [5]
    nums2: List<u64>,
    chars: List<char>,
    strs: List<RotoString>,
    /// pushes onto the shared StringBuf constant that were started / have returned
    sb_started: Arc<std::sync::atomic::AtomicU64>,
    sb_done: Arc<std::sync::atomic::AtomicU64>,
}

/// Address of the shared allocation of a list (`List<T>` is `repr(transparent)`
/// over one `Arc`, so its first word is that pointer); see C16.
fn list_addr(l: &List<u64>) -> usize {
    // SAFETY: reads one word of a live value
    unsafe { *(l as *const List<u64> as *const usize) }
}

static CAPTURED: Mutex<Vec<usize>> = Mutex::new(Vec::new());

fn capture_sink(ev: &roto::verif::Event) {
    if let roto::verif::Event::MutexLock { mutex, .. } = ev {
        CAPTURED.lock().unwrap().push(*mutex);
    }
}

/// The two StringBuf constants of a fresh package are compared with their locks taken in
/// address order, and the addresses differ from compile to compile. To keep the lock
/// order the same in every execution, the buffer that gets the pushes ("A") is always
/// the one with the LOWER address: the addresses are read off the lock events of two
/// reads on the main thread, and the roles are swapped if needed.
fn normalise_stringbuf_roles(h: &mut Handles) {
    CAPTURED.lock().unwrap().clear();
    roto::verif::set_sink(Some(capture_sink));
    let _ = h.sr.call();
    let _ = h.sr2.call();
    roto::verif::set_sink(None);
    let seen = CAPTURED.lock().unwrap().clone();
    if let [a, b] = seen[..] {
        if a > b {
            std::mem::swap(&mut h.sp, &mut h.sp2);
            std::mem::swap(&mut h.sr, &mut h.sr2);
            std::mem::swap(&mut h.se1, &mut h.se2);
        }
    }
}

fn runtime() -> Runtime<NoCtx> {
    let lib = library! {
        /// schedule point inside a script
        fn ye(k: i32) -> i32 {
            yield_point(k as u32);
            k
        }
    };
    let mut rt = host::runtime();
    rt.add(lib).expect("c12 lib");
    rt
}

fn handles(pkg: &mut Package<NoCtx>) -> Result<Handles, String> {
    Ok(Handles {
        f: pkg.get_function("f").map_err(|e| e.to_string())?,
        big: pkg.get_function("big").map_err(|e| e.to_string())?,
        t: pkg.get_function("t").map_err(|e| e.to_string())?,
        s: pkg.get_function("s").map_err(|e| e.to_string())?,
        l: pkg.get_function("l").map_err(|e| e.to_string())?,
        fc: pkg.get_function("fc").map_err(|e| e.to_string())?,
        jn: pkg.get_function("jn").map_err(|e| e.to_string())?,
        cat: pkg.get_function("cat").map_err(|e| e.to_string())?,
        eqq: pkg.get_function("eqq").map_err(|e| e.to_string())?,
        cc: pkg.get_function("cc").map_err(|e| e.to_string())?,
        sp: pkg.get_function("sp").map_err(|e| e.to_string())?,
        sr: pkg.get_function("sr").map_err(|e| e.to_string())?,
        se1: pkg.get_function("se1").map_err(|e| e.to_string())?,
        se2: pkg.get_function("se2").map_err(|e| e.to_string())?,
        sp2: pkg.get_function("sp2").map_err(|e| e.to_string())?,
        sr2: pkg.get_function("sr2").map_err(|e| e.to_string())?,
    })
}

/// what an operation observed; compared with the single-threaded expectation
fn run_op(
    op: Op,
    tid: usize,
    k: usize,
    h: &Handles,
    rt: &Runtime<NoCtx>,
    own_pkg: &Mutex<Option<Package<NoCtx>>>,
    shared_pkg: &Mutex<Option<Package<NoCtx>>>,
    lists: &Lists,
) -> Result<(), String> {
    let list = &lists.nums;
    let x = (tid * 10 + k + 1) as i32;
    match op {
        Op::CallF => {
            let got = h.f.call(x);
            if got != 6 * x + 4 {
                return Err(format!("f({x}) = {got}, expected {}", 6 * x + 4));
            }
        }
        Op::CallBig => {
            let got = h.big.call(x as u64 + 1000);
            if got != 3 * (x as u64 + 1000) {
                return Err(format!("big({}) = {got}, expected {}", x as u64 + 1000, 3 * (x as u64 + 1000)));
            }
        }
        Op::CallT => {
            let got = h.t.call(x as u64);
            if got != 2 * x as u64 + 900 {
                return Err(format!("t({x}) = {got}, expected {}", 2 * x as u64 + 900));
            }
        }
        Op::CallS => {
            let got = h.s.call(x).to_string();
            let want = format!("a{x}ba{x}");
            if got != want {
                return Err(format!("s({x}) = {got:?}, expected {want:?}"));
            }
        }
        Op::CallL => {
            let got = h.l.call(list.clone(), x as u64);
            if got < 1 || got > 8 {
                return Err(format!("l(list, {x}) = {got}: own push not visible"));
            }
        }
        Op::CloneCall => {
            let c = h.f.clone();
            let got = c.call(x);
            drop(c);
            if got != 6 * x + 4 {
                return Err(format!("clone of f({x}) = {got}"));
            }
        }
        Op::GetCall => {
            // the thread's own package: no other thread touches it
            let mut g = own_pkg.try_lock().map_err(|_| "own package locked".to_string())?;
            let pkg = g.as_mut().ok_or("own package gone")?;
            let f2: TypedFunc<NoCtx, fn(i32) -> i32> = pkg.get_function("f").map_err(|e| e.to_string())?;
            drop(g);
            let got = f2.call(x);
            if got != 6 * x + 4 {
                return Err(format!("fresh handle f({x}) = {got}"));
            }
        }
        Op::CompileCall => {
            let src = format!("fn g(x: i32) -> i32 {{ let a = x + {k}; let b = ye(9); a * 2 + b }}\n");
            let mut pkg = host::compile(rt, &src).map_err(|e| format!("{e:?}"))?;
            let g: TypedFunc<NoCtx, fn(i32) -> i32> = pkg.get_function("g").map_err(|e| e.to_string())?;
            drop(pkg);
            let got = g.call(x);
            let want = (x + k as i32) * 2 + 9;
            if got != want {
                return Err(format!("reloaded g({x}) = {got}, expected {want}"));
            }
        }
        // host code runs while the compiler is at work: whatever the compiler holds at that
        // moment (seeded change C12-6: a process-wide lock around code generation) is held
        // across the schedule point
        Op::CompileConst => {
            let src = format!("const KC: i32 = ye(7);\nfn g(x: i32) -> i32 {{ let a = x + {k}; a * 2 + KC }}\n");
            let mut pkg = host::compile(rt, &src).map_err(|e| format!("{e:?}"))?;
            let g: TypedFunc<NoCtx, fn(i32) -> i32> = pkg.get_function("g").map_err(|e| e.to_string())?;
            drop(pkg);
            let got = g.call(x);
            let want = (x + k as i32) * 2 + 7;
            if got != want {
                return Err(format!("g({x}) with a constant initialised by a host call = {got}, expected {want}"));
            }
        }
        Op::DropPkg => {
            let p = shared_pkg.try_lock().map_err(|_| "shared package locked".to_string())?.take();
            drop(p);
        }
        // the shared lists only ever hold [x, a, y] or [y, a, x] (swaps of the
        // two ends): a reader must return one of the two states
        Op::FromChars => {
            let got = h.fc.call(lists.chars.clone()).to_string();
            if got != "xay" && got != "yax" {
                return Err(format!("from_chars(shared) = {got:?}: not a state the list was ever in"));
            }
        }
        Op::CatChars => {
            let got = h.cat.call(lists.chars.clone(), lists.chars.clone()).to_string();
            if got != "xayxay" && got != "yaxyax" {
                return Err(format!("from_chars(cs + cs) = {got:?}: not a state the list was ever in"));
            }
        }
        Op::SwapChars => lists.chars.swap(0, 2),
        Op::Join => {
            let got = h.jn.call(lists.strs.clone()).to_string();
            if got != "x-a-y" && got != "y-a-x" {
                return Err(format!("join(shared) = {got:?}: not a state the list was ever in"));
            }
        }
        Op::SwapStrs => lists.strs.swap(0, 2),
        // `nums` is [0] plus pushes, `nums2` is [5]: never equal, at least 2 elements together
        Op::EqAB | Op::EqBA => {
            let (a, b) = if op == Op::EqAB { (&lists.nums, &lists.nums2) } else { (&lists.nums2, &lists.nums) };
            if h.eqq.call(a.clone(), b.clone()) {
                return Err("two lists that were never equal compared equal".into());
            }
        }
        // the shared buffer holds one 'x' per completed push: a read sees at least the
        // pushes that had returned before it began and at most those that had begun
        Op::SbPush => {
            use std::sync::atomic::Ordering::SeqCst;
            let lo = lists.sb_done.load(SeqCst) + 1;
            lists.sb_started.fetch_add(1, SeqCst);
            let got = h.sp.call();
            let hi = lists.sb_started.load(SeqCst);
            lists.sb_done.fetch_add(1, SeqCst);
            if got < lo || got > hi {
                return Err(format!("push then as_string: length {got}, expected {lo}..={hi} (own push included)"));
            }
        }
        Op::SbRead => {
            use std::sync::atomic::Ordering::SeqCst;
            let lo = lists.sb_done.load(SeqCst);
            let got = h.sr.call();
            let hi = lists.sb_started.load(SeqCst);
            if got < lo || got > hi {
                return Err(format!("as_string: length {got}, expected {lo}..={hi}"));
            }
        }
        Op::SbEqAB | Op::SbEqBA => {
            use std::sync::atomic::Ordering::SeqCst;
            let done_before = lists.sb_done.load(SeqCst);
            let got = if op == Op::SbEqAB { h.se1.call() } else { h.se2.call() };
            let started_after = lists.sb_started.load(SeqCst);
            // SB stays empty: equal exactly as long as nothing was pushed onto SA
            if (done_before > 0 && got) || (started_after == 0 && !got) {
                return Err(format!("SA == SB gave {got} with {done_before} pushes done before and {started_after} started after"));
            }
        }
        Op::CatAB | Op::CatBA => {
            let (a, b) = if op == Op::CatAB { (&lists.nums, &lists.nums2) } else { (&lists.nums2, &lists.nums) };
            let got = h.cc.call(a.clone(), b.clone());
            if !(2..=10).contains(&got) {
                return Err(format!("(a + b).len() = {got}"));
            }
        }
    }
    Ok(())
}

fn shapes(tier: Tier) -> Vec<(usize, usize, &'static [Op], usize)> {
    // (threads, ops per thread, menu, preemption bound)
    match tier {
        Tier::Quick => vec![
            (2, 1, &MENU_FULL[..], usize::MAX),
            (2, 2, &MENU_QUICK[..], 2),
            (2, 1, &MENU_LISTS[..], usize::MAX),
            (2, 2, &MENU_LISTS[..], 2),
            (2, 1, &MENU_PAIRS[..], usize::MAX),
            (2, 2, &MENU_PAIRS[..], 2),
            (2, 1, &MENU_SB[..], usize::MAX),
            (2, 2, &MENU_SB[..], 2),
        ],
        Tier::Thorough => vec![
            (2, 1, &MENU_FULL[..], usize::MAX),
            (2, 2, &MENU_FULL[..], 2),
            (3, 1, &MENU_FULL[..], 2),
            (2, 3, &[Op::CallT, Op::CallL, Op::CompileCall][..], 2),
            (2, 2, &MENU_LISTS[..], usize::MAX),
            (3, 1, &MENU_LISTS[..], usize::MAX),
            (2, 2, &MENU_PAIRS[..], usize::MAX),
            (3, 1, &MENU_PAIRS[..], usize::MAX),
            (2, 2, &MENU_SB[..], usize::MAX),
            (3, 1, &MENU_SB[..], usize::MAX),
        ],
    }
}

fn programs(threads: usize, ops: usize, menu: &[Op]) -> Vec<Program> {
    let per = menu.len().pow(ops as u32);
    let decode = |mut k: usize| -> Vec<Op> {
        let mut v = vec![];
        for _ in 0..ops {
            v.push(menu[k % menu.len()]);
            k /= menu.len();
        }
        v.reverse();
        v
    };
    let mut out = vec![];
    let total = per.pow(threads as u32);
    for mut idx in 0..total {
        let mut ks = vec![];
        for _ in 0..threads {
            ks.push(idx % per);
            idx /= per;
        }
        // threads are symmetric: one representative per renaming
        if ks.windows(2).all(|w| w[0] <= w[1]) {
            out.push(ks.into_iter().map(decode).collect());
        }
    }
    out
}

fn all_programs(tier: Tier) -> &'static Vec<(usize, Program)> {
    static C: std::sync::OnceLock<Vec<(usize, Program)>> = std::sync::OnceLock::new();
    C.get_or_init(|| {
        let mut v = vec![];
        for (si, (t, o, menu, _)) in shapes(tier).iter().enumerate() {
            for p in programs(*t, *o, menu) {
                v.push((si, p));
            }
        }
        v
    })
}

const PER_UNIT: usize = 6;

struct Failure {
    class: String,
    detail: Value,
    schedule: Vec<usize>,
    preemptions: usize,
    count: u64,
}

fn run_program(p: &Program, bound: usize) -> (u64, u64, Vec<Failure>, usize) {
    let mut failures: Vec<Failure> = vec![];
    let mut outcomes = std::collections::HashSet::new();
    let mut add = |class: String, detail: Value, x: &c00sched::Exec| {
        if let Some(f) = failures.iter_mut().find(|f| f.class == class) {
            f.count += 1;
            if x.preemptions < f.preemptions {
                f.preemptions = x.preemptions;
                f.schedule = x.choices.clone();
                f.detail = detail;
            }
        } else {
            failures.push(Failure { class, detail, schedule: x.choices.clone(), preemptions: x.preemptions, count: 1 });
        }
    };
    // The runtime is immutable once built and holds no tracked value: one per
    // program. The package is stateless too, so it is compiled once per
    // program — except when the program drops it (DropPkg): then every
    // execution gets a fresh one.
    let rt0 = Arc::new(runtime());
    // script constants are state (and a deadlocked execution leaves their locks held): programs
    // that touch them get a fresh package per execution too
    let drops_pkg = p.iter().flatten().any(|o| matches!(o, Op::DropPkg | Op::SbPush | Op::SbRead | Op::SbEqAB | Op::SbEqBA));
    host::ledger_reset();
    let shared_handles: Option<Handles> = if drops_pkg {
        None
    } else {
        let mut pkg = host::compile(&rt0, SCRIPT).expect("script compiles");
        let h = handles(&mut pkg).expect("handles");
        drop(pkg);
        Some(h)
    };
    let stats = explore(
        bound,
        || {
            // handles, list (and package) for this execution, built on the
            // main thread (no schedule points there)
            let rt = rt0.clone();
            let baseline = host::ledger_snapshot().0.len();
            let (h, shared_pkg) = match &shared_handles {
                Some(h) => (h.clone(), Arc::new(Mutex::new(None))),
                None => {
                    let mut pkg = host::compile(&rt, SCRIPT).expect("script compiles");
                    let mut h = handles(&mut pkg).expect("handles");
                    normalise_stringbuf_roles(&mut h);
                    (h, Arc::new(Mutex::new(Some(pkg))))
                }
            };
            // the lock order of two lists is their address order: keep it the same in
            // every execution (`nums` is the lower one), or replays would diverge
            let (l1, l2): (List<u64>, List<u64>) = (List::new(), List::new());
            let (list, list2) = if list_addr(&l1) < list_addr(&l2) { (l1, l2) } else { (l2, l1) };
            list.push(0);
            list2.push(5);
            let lists = Lists {
                nums: list.clone(),
                nums2: list2,
                chars: List::from(vec!['x', 'a', 'y']),
                strs: List::from(vec![RotoString::from("x"), RotoString::from("a"), RotoString::from("y")]),
                sb_started: Default::default(),
                sb_done: Default::default(),
            };
            let errors = Arc::new(Mutex::new(Vec::<String>::new()));
            let pushes: Vec<u64> = p
                .iter()
                .enumerate()
                .flat_map(|(tid, ops)| {
                    ops.iter().enumerate().filter(|(_, o)| **o == Op::CallL).map(move |(k, _)| (tid * 10 + k + 1) as u64)
                })
                .collect();
            let mut specs = vec![];
            for (tid, ops) in p.iter().enumerate() {
                let ops = ops.clone();
                let h = h.clone();
                let rt = rt.clone();
                let shared_pkg = shared_pkg.clone();
                let lists = lists.clone();
                let errors = errors.clone();
                let own = if ops.contains(&Op::GetCall) {
                    Some(host::compile(&rt, SCRIPT).expect("script compiles"))
                } else {
                    None
                };
                let own = Mutex::new(own);
                specs.push(ThreadSpec {
                    unwind_ok: false,
                    body: Box::new(move || {
                        for (k, op) in ops.iter().enumerate() {
                            if let Err(e) = run_op(*op, tid, k, &h, &rt, &own, &shared_pkg, &lists) {
                                errors.lock().unwrap().push(format!("t{tid} {op:?}: {e}"));
                            }
                        }
                        drop(h);
                        drop(own);
                    }),
                });
            }
            drop(h);
            (specs, (rt, shared_pkg, list, errors, pushes, baseline))
        },
        |x, (rt, shared_pkg, list, errors, pushes, baseline)| {
            for (tid, msg) in &x.panics {
                add("panic".into(), json!({"tid": tid, "msg": msg}), x);
            }
            if x.diverged {
                add("machinery:diverged".into(), json!(null), x);
            }
            if x.horizon_hit {
                add("machinery:horizon".into(), json!(null), x);
            }
            if let Some(d) = &x.deadlock {
                add("deadlock".into(), json!(format!("{d:?}")), x);
                std::mem::forget((rt, shared_pkg, list));
                return true;
            }
            for al in &x.alarms {
                add(format!("list-alarm:{al:?}").chars().take(40).collect(), json!(format!("{al:?}")), x);
            }
            let errs = errors.lock().unwrap().clone();
            for e in &errs {
                add("wrong-result".into(), json!(e), x);
            }
            // the shared list holds the initial element and exactly the pushes
            let mut got = list.to_vec();
            got.sort();
            let mut want = pushes.clone();
            want.push(0);
            want.sort();
            if got != want {
                add("list-contents".into(), json!({"got": got, "want": want}), x);
            }
            drop(list);
            drop(shared_pkg);
            drop(rt);
            let (live, z, anomalies) = host::ledger_snapshot();
            if live.len() != baseline || z != 0 || !anomalies.is_empty() {
                add(
                    "ledger".into(),
                    json!({"live_before": baseline, "live_payloads": live.iter().map(|l| l.1).collect::<Vec<_>>(), "anomalies": format!("{anomalies:?}")}),
                    x,
                );
            }
            outcomes.insert(vcore::util::fnv_str(&format!("{:?}{errs:?}", x.choices.len())));
            true
        },
    );
    (stats.schedules, stats.points, failures, outcomes.len())
}

const REG_PER_UNIT: usize = 64;

struct C12;

impl Check for C12 {
    fn id(&self) -> &'static str {
        "C12"
    }
    fn units(&self, cfg: &Cfg) -> usize {
        all_programs(cfg.tier).len().div_ceil(PER_UNIT) + 2 + registry::histories(cfg.tier).len().div_ceil(REG_PER_UNIT)
    }
    fn case_timeout_s(&self, cfg: &Cfg) -> f64 {
        cfg.tier.pick(120.0, 600.0)
    }
    fn preflight(&self, _cfg: &Cfg) -> Result<(), String> {
        c00sched::self_test()
    }
    fn run_unit(&self, unit: usize, cx: &mut Cx) {
        let progs = all_programs(cx.cfg.tier);
        let n_a = progs.len().div_ceil(PER_UNIT);
        if unit == n_a {
            probes::run(cx);
            return;
        }
        if unit > n_a + 1 {
            // Part D: registry histories over two threads (registry.rs)
            if !cx.case(SUB_SETUP) {
                return;
            }
            let hs = registry::histories(cx.cfg.tier);
            let lo = (unit - n_a - 2) * REG_PER_UNIT;
            let hi = (lo + REG_PER_UNIT).min(hs.len());
            for i in lo..hi {
                if !cx.case((i - lo) as u64) {
                    continue;
                }
                let h = &hs[i];
                cx.states(1);
                cx.transitions(h.len() as u64);
                cx.validated(1);
                cx.count("part_d:histories", 1);
                if h.iter().any(|(_, t)| *t == 1) {
                    cx.nontrivial(vcore::util::fnv_str(&format!("{h:?}")));
                }
                match registry::run(h) {
                    Ok(()) => cx.outcome(vcore::util::fnv_str(&format!("{:?}", registry::expected_of(h)))),
                    Err((at, got)) => cx.violation(
                        "thread-history-dependent",
                        (i - lo) as u64,
                        json!({"part": "D", "history (thread: operation)": registry::describe(h), "first_wrong_operation": if at == usize::MAX { json!(null) } else { json!(at) }}),
                        json!({"answers": registry::expected_of(h)}),
                        json!({"answer_of_first_wrong_operation": got}),
                    ),
                }
            }
            return;
        }
        if unit == n_a + 1 {
            // Part C: stack discipline on spawned threads (stack.rs)
            if !cx.case(SUB_SETUP) {
                return;
            }
            for (i, sc) in stack::scenarios().into_iter().enumerate() {
                if !cx.case(i as u64) {
                    continue;
                }
                cx.states(1);
                cx.transitions(1);
                match stack::run(sc) {
                    Ok(what) => {
                        cx.count(&format!("part_c:{}", what.split(" (").next().unwrap_or(&what)), 1);
                        cx.outcome(vcore::util::fnv_str(&what));
                    }
                    Err(e) => cx.violation(
                        "stack-discipline",
                        i as u64,
                        json!({"part": "C", "scenario": format!("{sc:?}"), "frame_bytes": sc.frame_bytes(), "caller_stack_bytes": 2 << 20}),
                        json!("the call stays inside the caller's stack or dies on its guard page"),
                        json!(e),
                    ),
                }
            }
            return;
        }
        if !cx.case(SUB_SETUP) {
            return;
        }
        let sh = shapes(cx.cfg.tier);
        let lo = unit * PER_UNIT;
        let hi = (lo + PER_UNIT).min(progs.len());
        for i in lo..hi {
            let sub = (i - lo) as u64;
            if !cx.case(sub) {
                continue;
            }
            let (si, p) = &progs[i];
            let bound = sh[*si].3;
            let (schedules, points, failures, n_out) = run_program(p, bound);
            cx.states(schedules);
            cx.transitions(points);
            cx.validated(schedules);
            cx.count("programs", 1);
            if schedules > 1 {
                cx.nontrivial(vcore::util::fnv_str(&format!("{p:?}")));
            }
            cx.outcome(vcore::util::mix(vcore::util::fnv_str(&format!("{p:?}")), n_out as u64));
            if i == lo {
                cx.sample(json!({"program": format!("{p:?}"), "schedules": schedules,
                                  "preemption_bound": if bound == usize::MAX { json!("unbounded") } else { json!(bound) }}));
            }
            for f in failures {
                cx.violation(
                    f.class.clone(),
                    sub,
                    json!({"part": "A", "program": format!("{p:?}"), "schedule": f.schedule, "preemptions": f.preemptions,
                           "failing_executions": f.count, "of_schedules": schedules, "detail": f.detail}),
                    json!("same results as single-threaded, ledger balanced, no deadlock"),
                    json!(f.class),
                );
            }
        }
        cx.request_restart();
    }
    fn describe(&self, cfg: &Cfg, unit: usize, sub: u64) -> Value {
        let progs = all_programs(cfg.tier);
        let n_a = progs.len().div_ceil(PER_UNIT);
        if unit == n_a {
            return probes::describe(sub);
        }
        if unit > n_a + 1 {
            let hs = registry::histories(cfg.tier);
            let i = (unit - n_a - 2) * REG_PER_UNIT + sub as usize;
            return json!({"part": "D", "history (thread: operation)": hs.get(i).map(registry::describe)});
        }
        if unit == n_a + 1 {
            let sc = stack::scenarios();
            return json!({"part": "C", "scenario": sc.get(sub as usize).map(|s| format!("{s:?}")),
                          "frame_bytes": sc.get(sub as usize).map(|s| s.frame_bytes())});
        }
        if sub == SUB_SETUP {
            return json!({"phase": "setup"});
        }
        json!({"part": "A", "program": progs.get(unit * PER_UNIT + sub as usize).map(|p| format!("{:?}", p.1))})
    }
    fn matches(&self, f: &Finding, v: &Violation) -> bool {
        probes::matches(f, v)
    }
    fn meta(&self, cfg: &Cfg) -> Meta {
        Meta {
            rule: "Part A: all programs of the stated shapes over the operation menu (threads symmetric), each under all schedules up to the preemption bound; schedule points inside scripts (host call between reads and writes of locals / records / strings / tracked values / a shared list), at the type-registry lock and at list locks; non-trivial = more than one schedule. Part B: every (entry point that accepts user state) x (capture class) probe type-checked by rustc; wrongly accepted probes are run under the scheduler to exhibit the race. Part C: stack discipline on spawned threads: one call / a recursion of a script function with a 32 KiB .. 16 MiB frame on a 2 MiB thread next to four canary-filled thread stacks, in a forked copy of the worker: the call stays inside the caller's stack mapping or dies on the guard page. Part D: all histories up to the length bound of {context type refused, get_function refused, register a host type, context type accepted, compile + get_function + call} x the one of two long-lived threads that executes each operation, each history in a forked copy of the worker in which the host type has never been mentioned: every operation answers as in the sequential model, whichever thread asked what before".into(),
            assumptions: vec![
                "interleavings INSIDE compiled code between two schedule points are not explored: generated code only touches its own stack frame and read-only constants (argument from the code)".into(),
                "sequentially consistent interleavings only (no weak-memory effects)".into(),
            ],
            bounds: json!({"shapes": shapes(cfg.tier).iter().map(|(t, o, m, b)| json!({"threads": t, "ops": o, "menu": m.iter().map(|x| format!("{x:?}")).collect::<Vec<_>>(), "preemption_bound": if *b == usize::MAX { json!("unbounded") } else { json!(b) }})).collect::<Vec<_>>(),
                           "probes": probes::PROBES.len(),
                           "part_d": {"max_history_length": registry::max_len(cfg.tier), "histories": registry::histories(cfg.tier).len(), "threads": 2}}),
            states_are: "complete schedules explored (Part A) + probes decided (Part B)".into(),
            transitions_are: "schedule points passed".into(),
        }
    }
}

fn main() {
    let _ = Val(0u8);
    vcore::main(&C12)
}
