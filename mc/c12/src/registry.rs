//! Part D — what a thread gets from the API must not depend on what THAT thread
//! (or another one) asked the process-wide type registry earlier.
//!
//! The registry of Rust types (`GLOBAL_TYPE_REGISTRY`) is the one piece of state
//! that every runtime and every thread of a process shares; it only ever grows.
//! Anything that remembers an answer of it per thread (or per anything) is only
//! right for "known" answers. Subject: a host type `Probe` that the worker
//! process never mentions before the fork, so that every forked child starts
//! with it unregistered. Two long-lived threads A and B execute a history of
//! operations one at a time (the history fixes the order: there is no
//! concurrency here, only thread identity):
//!
//!   Early     `Runtime::new().with_context_type::<ProbeCtx>()`: refused, `Probe` is not in that runtime
//!   GetEarly  `get_function::<fn(Val<Probe>) -> u32>` on a script function `fn(u32) -> u32`: refused
//!   Reg       build a runtime whose library registers `Probe` (kept for the following operations)
//!   Ctx       `with_context_type::<ProbeCtx>()` on a clone of that runtime: accepted
//!   Get       compile `fn main(p: Probe) -> Probe`, get it as `fn(Val<Probe>) -> Val<Probe>`, call it: 42
//!
//! All histories up to the length bound over the five operations x the thread
//! that executes each one. Oracle: every operation returns what it returns when
//! the whole history runs on one thread (the reference is the obvious sequential
//! model: refused / accepted / 42, `Ctx` and `Get` need a `Reg` before them).
//! Added after seeded change C12-5 (a thread-local cache in front of the
//! registry that also remembers misses).

use std::sync::mpsc;

use roto::{Context, FileTree, NoCtx, Runtime, Val, library};
use vcore::Tier;

#[derive(Clone, Debug, PartialEq)]
pub struct Probe(pub u32);

#[derive(Clone, Context)]
pub struct ProbeCtx {
    pub probe: Val<Probe>,
}

#[derive(Clone, Copy, Debug, PartialEq, Eq)]
pub enum Op {
    Early,
    GetEarly,
    Reg,
    Ctx,
    Get,
}

const OPS: [Op; 5] = [Op::Early, Op::GetEarly, Op::Reg, Op::Ctx, Op::Get];

pub type History = Vec<(Op, u8)>;

pub fn max_len(tier: Tier) -> usize {
    tier.pick(3, 4)
}

/// all histories of length 1..=max over (operation, thread), shortest first;
/// thread names are symmetric: the first operation always runs on thread 0
pub fn histories(tier: Tier) -> Vec<History> {
    let mut out = vec![];
    let mut level: Vec<History> = vec![vec![]];
    for _ in 0..max_len(tier) {
        let mut next = vec![];
        for h in &level {
            for op in OPS {
                for t in 0..2u8 {
                    if h.is_empty() && t == 1 {
                        continue;
                    }
                    // an operation that needs the registered runtime is only a case after `Reg`
                    if matches!(op, Op::Ctx | Op::Get) && !h.iter().any(|(o, _)| *o == Op::Reg) {
                        continue;
                    }
                    let mut h2 = h.clone();
                    h2.push((op, t));
                    next.push(h2);
                }
            }
        }
        out.extend(next.iter().cloned());
        level = next;
    }
    out
}

fn runtime_with_probe() -> Runtime<NoCtx> {
    Runtime::from_lib(library! {
        /// A probe
        #[clone] type Probe = Val<Probe>;

        impl Val<Probe> {
            fn bump(self) -> Val<Probe> {
                Val(Probe(self.0.0 + 1))
            }
        }
    })
    .expect("probe library")
}

/// what an operation is expected to answer
fn expected(op: Op) -> &'static str {
    match op {
        Op::Early | Op::GetEarly => "refused",
        Op::Reg | Op::Ctx => "accepted",
        Op::Get => "42",
    }
}

fn perform(op: Op, rt: Option<&Runtime<NoCtx>>) -> String {
    match op {
        Op::Early => match Runtime::new().with_context_type::<ProbeCtx>() {
            Ok(_) => "accepted".into(),
            Err(_) => "refused".into(),
        },
        Op::GetEarly => {
            let rt = Runtime::new();
            let mut pkg = match FileTree::test_file("early.roto", "fn main(x: u32) -> u32 { x }", 0).compile(&rt) {
                Ok(p) => p,
                Err(_) => return "compile error".into(),
            };
            match pkg.get_function::<fn(Val<Probe>) -> u32>("main") {
                Ok(_) => "accepted".into(),
                Err(_) => "refused".into(),
            }
        }
        Op::Reg => "accepted".into(), // done by the dispatcher (the runtime is kept)
        Op::Ctx => match rt.expect("Reg before Ctx").clone().with_context_type::<ProbeCtx>() {
            Ok(_) => "accepted".into(),
            Err(e) => format!("refused: {e}"),
        },
        Op::Get => {
            let rt = rt.expect("Reg before Get");
            let mut pkg = match FileTree::test_file("probe.roto", "fn main(p: Probe) -> Probe { p.bump().bump() }", 0).compile(rt) {
                Ok(p) => p,
                Err(_) => return "compile error".into(),
            };
            match pkg.get_function::<fn(Val<Probe>) -> Val<Probe>>("main") {
                Ok(f) => format!("{}", f.call(Val(Probe(40))).0.0),
                Err(e) => format!("refused: {e}"),
            }
        }
    }
}

enum Cmd {
    Do(Op, Option<Runtime<NoCtx>>),
    MakeRuntime,
}

enum Ans {
    Text(String),
    Runtime(Runtime<NoCtx>),
}

fn worker(rx: mpsc::Receiver<Cmd>, tx: mpsc::Sender<Ans>) {
    for cmd in rx {
        match cmd {
            Cmd::Do(op, rt) => {
                let _ = tx.send(Ans::Text(perform(op, rt.as_ref())));
            }
            Cmd::MakeRuntime => {
                let _ = tx.send(Ans::Runtime(runtime_with_probe()));
            }
        }
    }
}

/// runs in the forked child: 0 = every answer as expected, 100 + i = operation i answered differently
fn child(h: &History, report: i32) -> i32 {
    let mut txs = vec![];
    let mut rxs = vec![];
    let mut joins = vec![];
    for _ in 0..2 {
        let (ctx, crx) = mpsc::channel();
        let (atx, arx) = mpsc::channel();
        joins.push(std::thread::spawn(move || worker(crx, atx)));
        txs.push(ctx);
        rxs.push(arx);
    }
    let mut rt: Option<Runtime<NoCtx>> = None;
    let mut code = 0;
    for (i, (op, t)) in h.iter().enumerate() {
        let t = *t as usize;
        let got = if *op == Op::Reg {
            if txs[t].send(Cmd::MakeRuntime).is_err() {
                return 90;
            }
            match rxs[t].recv() {
                Ok(Ans::Runtime(r)) => {
                    rt = Some(r);
                    "accepted".to_string()
                }
                _ => return 91,
            }
        } else {
            if txs[t].send(Cmd::Do(*op, rt.clone())).is_err() {
                return 92;
            }
            match rxs[t].recv() {
                Ok(Ans::Text(s)) => s,
                _ => return 93,
            }
        };
        if got != expected(*op) && code == 0 {
            code = 100 + i as i32;
            let msg = format!("{got}\n");
            // SAFETY: plain write(2) to the pipe handed over by the parent
            unsafe { libc::write(report, msg.as_ptr() as *const libc::c_void, msg.len()) };
        }
    }
    drop(txs);
    for j in joins {
        let _ = j.join();
    }
    code
}

/// `Ok(())`: every operation answered as in the sequential model. `Err((index, answer))` otherwise.
pub fn run(h: &History) -> Result<(), (usize, String)> {
    unsafe {
        let mut fds = [0i32; 2];
        if libc::pipe(fds.as_mut_ptr()) != 0 {
            return Err((usize::MAX, "pipe failed".into()));
        }
        let pid = libc::fork();
        if pid < 0 {
            return Err((usize::MAX, "fork failed".into()));
        }
        if pid == 0 {
            libc::close(fds[0]);
            let rl = libc::rlimit { rlim_cur: 0, rlim_max: 0 };
            libc::setrlimit(libc::RLIMIT_CORE, &rl);
            let code = child(h, fds[1]);
            libc::_exit(code);
        }
        libc::close(fds[1]);
        let mut status: libc::c_int = 0;
        libc::waitpid(pid, &mut status, 0);
        let mut buf = [0u8; 512];
        let n = libc::read(fds[0], buf.as_mut_ptr() as *mut libc::c_void, buf.len());
        libc::close(fds[0]);
        let text = String::from_utf8_lossy(&buf[..n.max(0) as usize]).trim().to_string();
        if libc::WIFSIGNALED(status) {
            return Err((usize::MAX, format!("child killed by signal {}", libc::WTERMSIG(status))));
        }
        match libc::WEXITSTATUS(status) {
            0 => Ok(()),
            c if c >= 100 => Err(((c - 100) as usize, text)),
            c => Err((usize::MAX, format!("child exit {c}"))),
        }
    }
}

pub fn describe(h: &History) -> Vec<String> {
    h.iter().map(|(op, t)| format!("{}: {op:?}", if *t == 0 { "A" } else { "B" })).collect()
}

pub fn expected_of(h: &History) -> Vec<&'static str> {
    h.iter().map(|(op, _)| expected(*op)).collect()
}
