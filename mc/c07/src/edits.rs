//! The closed list of type-breaking edit operators. Every operator produces
//! text splices on the literal seed; every operator kind carries a one-line
//! justification naming the rule of the property statement that makes the
//! result ill-typed by construction.

use std::collections::HashSet;

use crate::analyze::*;
use crate::parse::*;
use crate::ty::*;

#[derive(Clone, Debug)]
pub struct Splice {
    pub file: usize,
    pub s: usize,
    pub e: usize,
    pub text: String,
}

#[derive(Clone, Debug)]
pub struct Edit {
    pub kind: &'static str,
    pub detail: String,
    pub splices: Vec<Splice>,
}

/// kinds starting with `u` are executed and tallied but not judged: the
/// documentation does not say whether they are redeclarations "in the same scope"
pub fn judged(kind: &str) -> bool {
    !kind.starts_with('u')
}

pub fn justification(kind: &str) -> &'static str {
    match kind {
        "e1-replace" => "rule 'an operand, argument, field, condition, element, return or assigned value whose type cannot equal the expected one': the context (annotations, signatures, sibling operands) fixes a class of types for this position that does not contain the type of the new, concretely typed expression",
        "e1-foreign-receiver" => "rule 'an ... argument ... whose type cannot equal the expected one': `x.f(..)` passes `x` as the first argument of `f`, and `f` is a function filed under x's type whose first parameter has another type (`String.from_chars` takes a List[char], `List.join` a List[String], `Prefix.new` an IpAddr)",
        "e1-intlit" => "same rule; an integer literal has one of the 8 integer types (language reference, Integers) and none of them is admitted at this position",
        "e1-floatlit" => "same rule; a floating point literal is f32 or f64 (language reference, Floating Point Numbers) and neither is admitted at this position",
        "e2-drop-arg" | "e2-dup-arg" | "e2-add-arg" => "rule 'wrong argument count': the callee's declared parameter list has a different length",
        "e3-undeclared" => "rule 'unknown ... name': the new identifier is declared nowhere in the script or runtime",
        "e3-type-path-suffix" => "rule 'unknown ... name': a type (a type parameter, a primitive, a record or enum) has no members that could be named in a type path; the appended segments are declared nowhere",
        k if k.starts_with("n1-never") => "rule 'an ... argument, field, ... return or assigned value whose type cannot equal the expected one': the never type `!` is uninhabited (language reference, Never Type: it cannot be constructed), so a position whose type is `!`, or has `!` as a type argument or field type, accepts no value; the unchanged expression there produces a value (of a type that is not `!`)",
        "e3-out-of-scope" => "rule 'unknown or out-of-scope name': the name is declared by a `let`, a `for`, a pattern binder, a parameter or a block-level import whose scope (language reference, Local Variables: from the declaration to the end of the block that contains it; Imports: the block that contains it) does not include the point of the inserted use, and no other declaration of that name is visible there",
        "e4-drop-field" => "rule 'missing ... record field': the record type of the literal requires the dropped field",
        "e4-dup-field" | "e4-dup-field-decl" => "rule 'duplicate ... record field'",
"e4-misspell-field" | "e4-extra-field" | "e4-missing-field-access" => "rule 'unknown record field': the record type has no field of that name",
        "e5-nonexhaustive" => "rule 'non-exhaustive ... match': no unguarded arm covers the removed variant and there is no `_` arm",
        "e5-other-variant" | "e5-dup-and-delete" | "e5-dup-guarded-and-delete" => "rule 'non-exhaustive ... match': exhaustiveness is judged by the SET of variants that have an unguarded arm; after the edit one variant has none and there is no unguarded `_` arm (a repeated or a guarded arm of another variant does not stand in for it)",
        "u5-dup-arm" => "UNSPECIFIED: a second unguarded arm of a variant that is already covered can never be taken, but the match stays exhaustive and the implementation documents this case as a warning, not an error; tallied, not judged",
        "e5-unreachable" => "rule 'unreachable match arm': the arm follows an unguarded `_` arm",
        "e5-misspell-variant" => "rule 'unknown name' / variant does not exist in the matched enum",
        "e5-add-binding" | "e5-drop-binding" => "rule 'wrong argument count' applied to patterns: the pattern binds a different number of fields than the variant declares",
        "e6-neg-unsigned" => "rule 'negating an unsigned value' (language reference: unary `-` requires a signed integer or float)",
        "e6-arith-nonnumber" | "e6-order-nonnumber" => "rule 'arithmetic or ordering on non-numbers': the operands are bool / char / unit / record / enum values",
        "e6-mod-float" => "language reference, Arithmetic Operators: `%` is 'remainder (integers only)'; the operands are floats",
        "e6-not-nonbool" => "rule 'operand whose type cannot equal the expected one': `!` is logical negation of a bool (language reference, Logical Operators); the operand cannot be bool",
        "e7-const-return" | "e7-const-accept" | "e7-const-reject" | "e7-const-try" => "rule '? or accept/reject or return where the enclosing item forbids it': a const initialiser is not a function body",
        "e7-try-nonoption" => "rule '? ... where the enclosing item forbids it': `?` returns Option.None from the enclosing function, which does not return an Option",
        "e7-accept-nonverdict" | "e7-reject-nonverdict" => "rule 'accept/reject ... where the enclosing item forbids it': the enclosing function does not return a Verdict",
        "e8-const-assign" | "e8-const-compound" => "rule 'assigning to something that is not a local variable': the target is a constant",
        "e8-ctx-assign" | "e8-ctx-compound" => "rule 'assigning to something that is not a local variable': the target is a context variable",
        "e8-rtconst-assign" => "rule 'assigning to something that is not a local variable': the target is a constant registered by the runtime",
        "e8-fn-assign" | "e8-fn-compound" => "rule 'assigning to something that is not a local variable': the target is a function name",
        "e8-ctor-assign" | "e8-ctor-compound" => "rule 'assigning to something that is not a local variable': the target is an enum constructor",
        "e8-type-assign" => "rule 'assigning to something that is not a local variable': the target is a type name",
        "e9-dup-fn" | "e9-dup-record" | "e9-dup-enum" | "e9-dup-const" | "e9-dup-test" => "rule 'redeclaring a name in the same scope': two items of one module have the same name",
        "e9-dup-param" => "rule 'redeclaring a name in the same scope': two parameters of one function have the same name",
        "e9-dup-tparam" => "rule 'redeclaring a name in the same scope': two type parameters of one declaration have the same name",
        "e9-dup-variant" => "rule 'redeclaring a name in the same scope': two variants of one enum have the same name",
        "e9-dup-binding" => "rule 'redeclaring a name in the same scope': one pattern binds the same name twice",
        "e10-type-direct" | "e10-type-option" | "e10-type-list" | "e10-type-generic" | "e10-type-anon" | "e10-type-mutual" => "rule 'recursive types': the declaration now contains itself (directly, through Option/List/a generic argument/an anonymous record, or through a second declaration)",
        "e10-const-self" | "e10-const-mutual" | "e10-const-via-fn" => "rule 'recursive ... constants' (language reference, Constants: a cycle in the dependencies between constants is a compile-time error)",
        "u9-let-same-block" | "u9-let-param" | "u9-dup-import" => "UNSPECIFIED: the documentation does not say whether a second `let` of a name in one block (or an import of an imported name) redeclares or shadows; tallied, not judged",
        _ => "?",
    }
}

pub fn apply(files: &[SrcFile], e: &Edit) -> Vec<SrcFile> {
    let mut out: Vec<SrcFile> = files.to_vec();
    let mut sp: Vec<&Splice> = e.splices.iter().collect();
    sp.sort_by(|a, b| (b.file, b.s, b.e).cmp(&(a.file, a.s, a.e)));
    for s in sp {
        out[s.file].text.replace_range(s.s..s.e, &s.text);
    }
    out
}

/// concretely typed replacement expressions (e1)
fn candidates() -> Vec<(&'static str, T)> {
    vec![
        ("1u8", T::P("u8")),
        ("1u16", T::P("u16")),
        ("1u32", T::P("u32")),
        ("1u64", T::P("u64")),
        ("1i8", T::P("i8")),
        ("1i16", T::P("i16")),
        ("1i32", T::P("i32")),
        ("1i64", T::P("i64")),
        ("1.5f32", T::P("f32")),
        ("1.5f64", T::P("f64")),
        ("true", T::P("bool")),
        ("'c'", T::P("char")),
        ("\"s\"", T::P("String")),
        ("()", T::Unit),
    ]
}

#[derive(Clone, Copy, PartialEq)]
enum Wrap {
    Paren,
    /// the position must stay a block (`else if`)
    Brace,
}

#[derive(Clone, Copy)]
struct Role {
    name: &'static str,
    wrap: Wrap,
    /// the statement has no `;` of its own: a replacement needs one
    semi: bool,
}

fn role(name: &'static str) -> Role {
    Role { name, wrap: Wrap::Paren, semi: false }
}

/// a declaration of a name inside a function and the text region where it is visible
struct Decl {
    name: String,
    region: (usize, usize),
    /// type as source text ("fn" for an imported function)
    ty: Option<String>,
    /// for an imported function: a call with literal arguments
    call: Option<String>,
}

struct Gen<'a> {
    files: &'a [SrcFile],
    an: &'a Analysis,
    file: usize,
    out: Vec<Edit>,
    cands: Vec<(&'static str, T)>,
    /// names declared more than once in the current item (params, lets, loop variables, bindings)
    multi: HashSet<String>,
    global_names: HashSet<String>,
    fnk: FnK,
    /// type-path suffix edits (in a bulk family only in its first seed: the type names are the same in all)
    suffixes: bool,
}

pub struct Opts {
    /// restrict the edits to this function (helpers shared by many seeds are mutated once, in their own seed)
    pub only_fn: Option<String>,
    pub ctx_vars: Vec<(String, T)>,
    pub rt_consts: Vec<(String, T)>,
    /// assignments to function names, enum constructors and type names (the
    /// targets are the same in all seeds of a bulk family: done in its first seed)
    pub e8_names: bool,
}

fn lit_of(t: &T) -> Option<String> {
    Some(match t {
        T::P("bool") => "true".into(),
        T::P("char") => "'c'".into(),
        T::P("String") => "\"s\"".into(),
        T::P(p) if FLOATS.contains(p) => format!("1.5{p}"),
        T::P(p) => format!("1{p}"),
        T::Unit => "()".into(),
        _ => return None,
    })
}

pub fn edits(files: &[SrcFile], parsed: &Parsed, an: &Analysis, opts: &Opts) -> Vec<Edit> {
    let mut g = Gen { files, an, file: 0, out: vec![], cands: candidates(), multi: HashSet::new(), global_names: HashSet::new(), fnk: FnK::Test, suffixes: opts.e8_names };
    // names visible without qualification in each file: its own items, its
    // top-level imports, the module names, context variables and runtime constants
    let mut per_file: Vec<HashSet<String>> = vec![];
    for items in &parsed.files {
        let mut set = HashSet::new();
        for it in items {
            match it {
                Item::Fn(f) => {
                    set.insert(f.name.name.clone());
                }
                Item::Const(c) => {
                    set.insert(c.name.name.clone());
                }
                Item::Rec(r) => {
                    set.insert(r.name.name.clone());
                }
                Item::Enum(e) => {
                    set.insert(e.name.name.clone());
                }
                Item::Import(p, _) => {
                    set.insert(p.last().unwrap().name.clone());
                }
                Item::Test(..) => {}
            }
        }
        for f in files {
            set.insert(f.module.clone());
        }
        for (n, _) in opts.ctx_vars.iter().chain(opts.rt_consts.iter()) {
            set.insert(n.clone());
        }
        per_file.push(set);
    }
    for (fi, items) in parsed.files.iter().enumerate() {
        g.file = fi;
        g.global_names = per_file[fi].clone();
        for it in items {
            if let Some(only) = &opts.only_fn {
                match it {
                    Item::Fn(f) if f.name.name == *only => {}
                    _ => continue,
                }
            }
            g.item(it, items, parsed, opts);
        }
    }
    if opts.only_fn.is_none() {
        g.never_edits(parsed);
    }
    // the same text can arise from two operators (e.g. the last argument
    // duplicated = an argument added): keep the first
    let mut seen = HashSet::new();
    let mut out = vec![];
    for e in g.out {
        let texts: Vec<String> = apply(files, &e).into_iter().map(|f| f.text).collect();
        if seen.insert(texts) {
            out.push(e);
        }
    }
    out
}

fn collect_decl_names_block(b: &Blk, out: &mut Vec<String>) {
    for s in &b.stmts {
        match s {
            St::Let(n, _, x, _) => {
                out.push(n.name.clone());
                collect_decl_names(x, out);
            }
            St::Expr(x, _) => collect_decl_names(x, out),
        }
    }
    if let Some(t) = &b.tail {
        collect_decl_names(t, out);
    }
}

fn collect_decl_names(e: &Ex, out: &mut Vec<String>) {
    let (es, bs) = kids(e);
    for c in es {
        collect_decl_names(c, out);
    }
    for b in bs {
        collect_decl_names_block(b, out);
    }
    match &e.k {
        EK::For(v, _, _) => out.push(v.name.clone()),
        EK::Match(_, arms, _) => {
            for a in arms {
                if let Some((b, _)) = &a.binds {
                    out.extend(b.iter().map(|s| s.name.clone()));
                }
            }
        }
        _ => {}
    }
}

/// direct sub-expressions and sub-blocks of a node
fn kids(e: &Ex) -> (Vec<&Ex>, Vec<&Blk>) {
    let mut es: Vec<&Ex> = vec![];
    let mut bs: Vec<&Blk> = vec![];
    match &e.k {
        EK::Int(_) | EK::Float(_) | EK::Bool | EK::Char | EK::Str | EK::Unit | EK::Path(_) => {}
        EK::FStr(xs) | EK::List(xs) => es.extend(xs.iter()),
        EK::Call(c, args, _) => {
            if let Callee::Method(r, _) = c {
                es.push(r);
            }
            es.extend(args.iter());
        }
        EK::Field(x, _) | EK::Neg(x) | EK::Not(x) | EK::Try(x) | EK::Assign(_, x) | EK::Compound(_, _, x) => es.push(x),
        EK::Bin(_, l, r) => {
            es.push(l);
            es.push(r);
        }
        EK::If(c, t, f) => {
            es.push(c);
            bs.push(t);
            if let Some(f) = f {
                bs.push(f);
            }
        }
        EK::Match(x, arms, _) => {
            es.push(x);
            for a in arms {
                if let Some(g) = &a.guard {
                    es.push(g);
                }
                bs.push(&a.body);
            }
        }
        EK::While(c, b) => {
            es.push(c);
            bs.push(b);
        }
        EK::For(_, l, b) => {
            es.push(l);
            bs.push(b);
        }
        EK::Ret(_, x) => {
            if let Some(x) = x {
                es.push(x);
            }
        }
        EK::Rec(_, fs, _) => es.extend(fs.iter().map(|(_, x)| x)),
        EK::Block(b) => bs.push(b),
    }
    (es, bs)
}

fn mentions(e: &Ex, name: &str) -> bool {
    let mut found = false;
    fn go(e: &Ex, name: &str, found: &mut bool) {
        match &e.k {
            EK::Path(p) if p.iter().any(|s| s.name == name) => *found = true,
            EK::Call(Callee::Path(p), _, _) if p.iter().any(|s| s.name == name) => *found = true,
            _ => {}
        }
        let (es, bs) = kids(e);
        for c in es {
            go(c, name, found);
        }
        for b in bs {
            go_b(b, name, found);
        }
    }
    fn go_b(b: &Blk, name: &str, found: &mut bool) {
        for s in &b.stmts {
            match s {
                St::Let(_, _, x, _) | St::Expr(x, _) => go(x, name, found),
            }
        }
        if let Some(t) = &b.tail {
            go(t, name, found);
        }
    }
    go(e, name, &mut found);
    found
}

fn mentions_block(b: &Blk, name: &str) -> bool {
    b.stmts.iter().any(|s| match s {
        St::Let(_, _, x, _) | St::Expr(x, _) => mentions(x, name),
    }) || b.tail.as_ref().is_some_and(|t| mentions(t, name))
}

impl<'a> Gen<'a> {
    fn text(&self, sp: Sp) -> &'a str {
        &self.files[self.file].text[sp.s..sp.e]
    }
    fn push(&mut self, kind: &'static str, detail: String, splices: Vec<(usize, usize, String)>) {
        let file = self.file;
        let detail = if self.fnk == FnK::Fn(T::Never) && !kind.starts_with("n1-never") { format!("{detail} [inside a function declared `-> !`]") } else { detail };
        self.out.push(Edit { kind, detail, splices: splices.into_iter().map(|(s, e, text)| Splice { file, s, e, text }).collect() });
    }
    fn put(&self, r: Role, inner: &str) -> String {
        let core = match r.wrap {
            Wrap::Paren => format!("({inner})"),
            Wrap::Brace => format!("{{ ({inner}) }}"),
        };
        if r.semi { format!("{core};") } else { core }
    }

    // ------------------------------------------------------------ items

    fn item(&mut self, it: &Item, items: &[Item], parsed: &Parsed, opts: &Opts) {
        let decl_edits = opts.only_fn.is_none();
        match it {
            Item::Fn(f) => {
                let k = format!("{}::{}", self.files[self.file].module, f.name.name);
                self.fnk = match self.an.world.fns.get(&k).and_then(|fi| fi.ret.clone()) {
                    Some(r) => FnK::Fn(r),
                    None => FnK::Filtermap,
                };
                let mut names: Vec<String> = f.params.iter().map(|(n, _)| n.name.clone()).collect();
                collect_decl_names_block(&f.body, &mut names);
                self.multi = names.iter().filter(|n| names.iter().filter(|m| m == n).count() > 1).cloned().collect();
                // e3: parameter and return types
                for (_, t) in &f.params {
                    self.ty_names(t);
                }
                if let Some(t) = &f.ret {
                    self.ty_names(t);
                }
                if decl_edits {
                    self.push("e9-dup-fn", format!("second declaration of `{}`", f.name.name), vec![(f.sp.e, f.sp.e, format!("\n{}", self.text(f.sp)))]);
                    if let Some((n, t)) = f.params.first() {
                        let ins = format!(", {}: {}", n.name, self.text(t.sp()));
                        self.push("e9-dup-param", format!("second parameter `{}`", n.name), vec![(f.params_sp.e - 1, f.params_sp.e - 1, ins)]);
                        // unspecified: a let of a parameter's name in the body block
                        let ins = format!(" let {}: {} = {};", n.name, self.text(t.sp()), n.name);
                        self.push("u9-let-param", format!("`let {}` in the body of a function with parameter `{}`", n.name, n.name), vec![(f.body.sp.s + 1, f.body.sp.s + 1, ins)]);
                    }
                }
                self.block(&f.body, true);
                self.scope_edits(f, items, parsed, opts);
                self.e8_targets(&f.body, parsed, opts);
            }
            Item::Test(name, body, sp) => {
                self.fnk = FnK::Test;
                self.multi.clear();
                if decl_edits {
                    self.push("e9-dup-test", format!("second test `{}`", name.name), vec![(sp.e, sp.e, format!("\n{}", self.text(*sp)))]);
                }
                self.block(body, true);
            }
            Item::Const(c) => {
                self.fnk = FnK::Const;
                self.multi.clear();
                self.ty_names(&c.ty);
                self.expr(&c.init, role("const initialiser"));
                let init = self.text(c.init.sp).to_string();
                let sp = c.init.sp;
                self.push("e7-const-return", "return in a const initialiser".into(), vec![(sp.s, sp.e, format!("return ({init})"))]);
                self.push("e7-const-accept", "accept in a const initialiser".into(), vec![(sp.s, sp.e, format!("accept ({init})"))]);
                self.push("e7-const-reject", "reject in a const initialiser".into(), vec![(sp.s, sp.e, format!("reject ({init})"))]);
                self.push("e7-const-try", "`?` in a const initialiser".into(), vec![(sp.s, sp.e, format!("Option.Some({init})?"))]);
                if decl_edits {
                    self.push("e9-dup-const", format!("second declaration of `{}`", c.name.name), vec![(c.sp.e, c.sp.e, format!("\n{}", self.text(c.sp)))]);
                    self.push("e10-const-self", format!("`{}` initialised with itself", c.name.name), vec![(sp.s, sp.e, c.name.name.clone())]);
                    let my_ty = self.text(c.ty.sp());
                    for other in items {
                        match other {
                            Item::Const(o) if o.name.name != c.name.name && self.text(o.ty.sp()) == my_ty && mentions(&o.init, &c.name.name) => {
                                self.push(
                                    "e10-const-mutual",
                                    format!("`{}` initialised with `{}`, which is defined in terms of `{}`", c.name.name, o.name.name, c.name.name),
                                    vec![(sp.s, sp.e, o.name.name.clone())],
                                );
                            }
                            Item::Fn(g) if g.params.is_empty() && !g.filtermap && g.ret.as_ref().is_some_and(|r| self.text(r.sp()) == my_ty) && mentions_block(&g.body, &c.name.name) => {
                                self.push(
                                    "e10-const-via-fn",
                                    format!("`{}` initialised with a call of `{}`, which reads `{}`", c.name.name, g.name.name, c.name.name),
                                    vec![(sp.s, sp.e, format!("{}()", g.name.name))],
                                );
                            }
                            _ => {}
                        }
                    }
                }
            }
            Item::Rec(r) => {
                for (_, t) in &r.fields {
                    self.ty_names(t);
                }
                if !decl_edits {
                    return;
                }
                self.push("e9-dup-record", format!("second declaration of `{}`", r.name.name), vec![(r.sp.e, r.sp.e, format!("\n{}", self.text(r.sp)))]);
                if let Some(tp) = r.tparams.first() {
                    self.push("e9-dup-tparam", format!("second type parameter `{}`", tp.name), vec![(tp.sp.e, tp.sp.e, format!(", {}", tp.name))]);
                }
                if let Some((n, t)) = r.fields.first() {
                    let ins = format!(", {}: {}", n.name, self.text(t.sp()));
                    let at = r.fields.last().unwrap().1.sp().e;
                    self.push("e4-dup-field-decl", format!("field `{}` declared twice", n.name), vec![(at, at, ins)]);
                }
                let me = self_ref(&r.name.name, r.tparams.len());
                let at = match r.fields.last() {
                    Some((_, t)) => (t.sp().e, ", "),
                    None => (r.braces.s + 1, " "),
                };
                self.recursive_type(&r.name.name, &me, r.sp.e, &|x| (at.0, format!("{}zzr: {x}", at.1)));
            }
            Item::Enum(e) => {
                for (_, ts, _) in &e.variants {
                    for t in ts {
                        self.ty_names(t);
                    }
                }
                if !decl_edits {
                    return;
                }
                self.push("e9-dup-enum", format!("second declaration of `{}`", e.name.name), vec![(e.sp.e, e.sp.e, format!("\n{}", self.text(e.sp)))]);
                if let Some(tp) = e.tparams.first() {
                    self.push("e9-dup-tparam", format!("second type parameter `{}`", tp.name), vec![(tp.sp.e, tp.sp.e, format!(", {}", tp.name))]);
                }
                if let (Some((v0, _, sp0)), Some((_, _, spn))) = (e.variants.first(), e.variants.last()) {
                    self.push("e9-dup-variant", format!("variant `{}` declared twice", v0.name), vec![(spn.e, spn.e, format!(", {}", self.text(*sp0)))]);
                }
                let me = self_ref(&e.name.name, e.tparams.len());
                let at = match e.variants.last() {
                    Some((_, _, sp)) => (sp.e, ", "),
                    None => (e.braces.s + 1, " "),
                };
                self.recursive_type(&e.name.name, &me, e.sp.e, &|x| (at.0, format!("{}Zzv({x})", at.1)));
            }
            Item::Import(_, sp) => {
                if decl_edits {
                    self.push("u9-dup-import", "the same import twice".into(), vec![(sp.e, sp.e, format!("\n{}", self.text(*sp)))]);
                }
            }
        }
    }

    /// e10: `member(X)` gives the splice that adds a field / variant payload of type X
    fn recursive_type(&mut self, name: &str, me: &str, after_decl: usize, member: &dyn Fn(&str) -> (usize, String)) {
        let mut one = |g: &mut Gen, kind: &'static str, x: String, extra: Option<String>| {
            let (at, text) = member(&x);
            let mut sp = vec![(at, at, text)];
            if let Some(extra) = extra {
                sp.push((after_decl, after_decl, extra));
            }
            g.push(kind, format!("`{name}` contains `{x}`"), sp);
        };
        one(self, "e10-type-direct", me.to_string(), None);
        one(self, "e10-type-option", format!("{me}?"), None);
        one(self, "e10-type-option", format!("Option[{me}]"), None);
        one(self, "e10-type-list", format!("List[{me}]"), None);
        one(self, "e10-type-anon", format!("{{ inner: {me} }}"), None);
        one(self, "e10-type-generic", format!("Zzg[{me}]"), Some("\nrecord Zzg[T] { g: T }".to_string()));
        one(self, "e10-type-mutual", "Zzm".to_string(), Some(format!("\nrecord Zzm {{ m: {me} }}")));
        one(self, "e10-type-mutual", "Zzn".to_string(), Some(format!("\nenum Zzn {{ N({me}), O }}")));
    }

    /// e3: every type name used in an annotation
    fn ty_names(&mut self, t: &TyEx) {
        match t {
            TyEx::Path(segs, args, _) => {
                let last = segs.last().unwrap();
                self.push("e3-undeclared", format!("type name `{}` -> `Zzt`", last.name), vec![(last.sp.s, last.sp.e, "Zzt".into())]);
                for suffix in if self.suffixes { &[".x", ".x.y"][..] } else { &[][..] } {
                    self.push("e3-type-path-suffix", format!("type path `{}` -> `{}{suffix}`", last.name, last.name), vec![(last.sp.e, last.sp.e, suffix.to_string())]);
                }
                for a in args {
                    self.ty_names(a);
                }
            }
            TyEx::Opt(inner, _) => self.ty_names(inner),
            TyEx::Anon(fs, _) => {
                for (_, t) in fs {
                    self.ty_names(t);
                }
            }
            _ => {}
        }
    }

    // ------------------------------------------------------------ e8

    fn e8_targets(&mut self, body: &Blk, parsed: &Parsed, opts: &Opts) {
        // every block start of the function
        let mut starts = vec![];
        fn blocks(b: &Blk, out: &mut Vec<usize>) {
            if !b.synthetic {
                out.push(b.sp.s + 1);
            }
            for s in &b.stmts {
                match s {
                    St::Let(_, _, x, _) | St::Expr(x, _) => ex(x, out),
                }
            }
            if let Some(t) = &b.tail {
                ex(t, out);
            }
        }
        fn ex(e: &Ex, out: &mut Vec<usize>) {
            let (es, bs) = kids(e);
            for c in es {
                ex(c, out);
            }
            for b in bs {
                blocks(b, out);
            }
        }
        blocks(body, &mut starts);
        // values that are not local variables: (path text, type, kind prefix)
        let mut targets: Vec<(String, T, &'static str, &'static str)> = vec![];
        let my_mod = self.files[self.file].module.clone();
        for (fi, items) in parsed.files.iter().enumerate() {
            for it in items {
                if let Item::Const(c) = it {
                    let m = &self.files[fi].module;
                    let Some(t) = self.an.world.consts.get(&format!("{m}::{}", c.name.name)) else { continue };
                    let path = if *m == my_mod {
                        c.name.name.clone()
                    } else if my_mod == "pkg" {
                        format!("{m}.{}", c.name.name)
                    } else if m == "pkg" {
                        format!("pkg.{}", c.name.name)
                    } else {
                        format!("pkg.{m}.{}", c.name.name)
                    };
                    targets.push((path, t.clone(), "e8-const-assign", "e8-const-compound"));
                }
            }
        }
        for (n, t) in &opts.ctx_vars {
            targets.push((n.clone(), t.clone(), "e8-ctx-assign", "e8-ctx-compound"));
        }
        for (n, t) in &opts.rt_consts {
            targets.push((n.clone(), t.clone(), "e8-rtconst-assign", "e8-rtconst-assign"));
        }
        for at in &starts {
            for (path, t, k_assign, k_comp) in &targets {
                if self.multi.contains(path) {
                    continue;
                }
                self.push(k_assign, format!("`{path} = {path}`"), vec![(*at, *at, format!(" {path} = {path};"))]);
                if let Some(l) = lit_of(t) {
                    self.push(k_assign, format!("`{path} = {l}`"), vec![(*at, *at, format!(" {path} = {l};"))]);
                }
                if t.is_int() {
                    self.push(k_assign, format!("`{path} = 6`"), vec![(*at, *at, format!(" {path} = 6;"))]);
                }
                if t.is_num() && *k_comp != "e8-rtconst-assign" {
                    let l = lit_of(t).unwrap();
                    for op in ["+=", "-=", "*="] {
                        self.push(k_comp, format!("`{path} {op} {l}`"), vec![(*at, *at, format!(" {path} {op} {l};"))]);
                    }
                }
            }
        }
        // function names, enum constructors, type names: once per function
        if !opts.e8_names {
            return;
        }
        let at = body.sp.s + 1;
        let mut fn_names = vec![];
        let mut ctors = vec![("Option.None".to_string(), "Option.None".to_string()), ("Option.Some".to_string(), "1".to_string())];
        let mut types = vec!["Option".to_string(), "u8".to_string(), "String".to_string()];
        for it in &parsed.files[self.file] {
            match it {
                Item::Fn(f) => fn_names.push(f.name.name.clone()),
                Item::Enum(e) => {
                    types.push(e.name.name.clone());
                    for (v, tys, _) in &e.variants {
                        let p = format!("{}.{}", e.name.name, v.name);
                        let rhs = if tys.is_empty() { p.clone() } else { "1".to_string() };
                        ctors.push((p, rhs));
                    }
                }
                Item::Rec(r) => types.push(r.name.name.clone()),
                _ => {}
            }
        }
        fn_names.push("emit_u8".into());
        for f in fn_names {
            self.push("e8-fn-assign", format!("`{f} = 1`"), vec![(at, at, format!(" {f} = 1;"))]);
            self.push("e8-fn-compound", format!("`{f} += 1`"), vec![(at, at, format!(" {f} += 1;"))]);
        }
        for (c, rhs) in ctors {
            self.push("e8-ctor-assign", format!("`{c} = {rhs}`"), vec![(at, at, format!(" {c} = {rhs};"))]);
            self.push("e8-ctor-compound", format!("`{c} += 1`"), vec![(at, at, format!(" {c} += 1;"))]);
        }
        for t in types {
            self.push("e8-type-assign", format!("`{t} = 1`"), vec![(at, at, format!(" {t} = 1;"))]);
        }
    }

    // ------------------------------------------------------------ n1: the never type

    /// Every written type of the seed (let / const annotation, parameter,
    /// return type, record field, enum payload) replaced by `!`, and every type
    /// nested in it (type argument, `T?`, anonymous record field) replaced by
    /// `!`. The mutant is generated only where a value certainly flows into the
    /// changed position: `top` = the expression there does not diverge,
    /// `nested` = its own type is known and therefore is not an instance with `!`.
    fn never_edits(&mut self, parsed: &Parsed) {
        // all calls and record literals of the seed
        let mut nodes: Vec<(usize, &Ex)> = vec![];
        fn all<'x>(e: &'x Ex, f: usize, out: &mut Vec<(usize, &'x Ex)>) {
            out.push((f, e));
            let (es, bs) = kids(e);
            for c in es {
                all(c, f, out);
            }
            for b in bs {
                all_b(b, f, out);
            }
        }
        fn all_b<'x>(b: &'x Blk, f: usize, out: &mut Vec<(usize, &'x Ex)>) {
            for s in &b.stmts {
                match s {
                    St::Let(_, _, x, _) | St::Expr(x, _) => all(x, f, out),
                }
            }
            if let Some(t) = &b.tail {
                all(t, f, out);
            }
        }
        for (fi, items) in parsed.files.iter().enumerate() {
            for it in items {
                match it {
                    Item::Fn(f) => all_b(&f.body, fi, &mut nodes),
                    Item::Test(_, b, _) => all_b(b, fi, &mut nodes),
                    Item::Const(c) => all(&c.init, fi, &mut nodes),
                    _ => {}
                }
            }
        }
        fn informative(c: &Cl) -> bool {
            match c {
                Cl::Exact(t) => *t != T::Never,
                Cl::OptOf(c) | Cl::ListOf(c) => informative(c),
                _ => false,
            }
        }
        let an = self.an;
        let flows = |xs: &[&Ex]| -> (bool, bool) {
            let top = xs.iter().any(|x| !diverges_expr(x));
            let nested = xs.iter().any(|x| !diverges_expr(x) && an.info.get(&x.id).is_some_and(|i| informative(&i.selfty)));
            (top, nested)
        };
        let saved_fnk = std::mem::replace(&mut self.fnk, FnK::Test);
        for (fi, items) in parsed.files.iter().enumerate() {
            self.file = fi;
            for it in items {
                match it {
                    Item::Fn(f) => {
                        for (i, (pn, t)) in f.params.iter().enumerate() {
                            let args: Vec<&Ex> = nodes
                                .iter()
                                .filter_map(|(_, e)| match &e.k {
                                    EK::Call(Callee::Path(segs), args, _) if segs.last().unwrap().name == f.name.name && args.len() == f.params.len() => args.get(i),
                                    _ => None,
                                })
                                .collect();
                            let (top, nested) = flows(&args);
                            self.never_site("n1-never-param", &format!("parameter `{}` of `{}`", pn.name, f.name.name), t, top, nested);
                        }
                        if let Some(t) = &f.ret {
                            // every value the function can return
                            let mut vals: Vec<&Ex> = vec![];
                            let mut own: Vec<(usize, &Ex)> = vec![];
                            all_b(&f.body, fi, &mut own);
                            for (_, e) in &own {
                                if let EK::Ret(RetKind::Return, Some(x)) = &e.k {
                                    vals.push(x);
                                }
                            }
                            if let Some(tail) = &f.body.tail {
                                vals.push(tail);
                            }
                            let (mut top, nested) = flows(&vals);
                            // falling through the end of the body returns `()`
                            top |= f.body.tail.is_none() && !diverges_block(&f.body);
                            if matches!(t, TyEx::Never(_)) {
                                // a seed function that is declared `-> !` and diverges
                                let b = f.body.sp;
                                self.push("n1-never-fallthrough", format!("the body of `{}` (declared `-> !`) falls through", f.name.name), vec![(b.s, b.e, "{ }".into())]);
                                for v in ["1i32", "true", "return 1i32;"] {
                                    self.push("n1-never-returns-value", format!("the body of `{}` (declared `-> !`) returns `{v}`", f.name.name), vec![(b.s, b.e, format!("{{ {v} }}"))]);
                                }
                            } else {
                                self.never_site("n1-never-return", &format!("return type of `{}`", f.name.name), t, top, nested);
                            }
                        }
                        let mut lets: Vec<(usize, &Ex)> = vec![];
                        all_b(&f.body, fi, &mut lets);
                        self.never_lets(&f.body, &flows);
                    }
                    Item::Test(_, b, _) => self.never_lets(b, &flows),
                    Item::Const(c) => {
                        let (top, nested) = flows(&[&c.init]);
                        self.never_site("n1-never-const", &format!("type of the constant `{}`", c.name.name), &c.ty, top, nested);
                    }
                    Item::Rec(r) => {
                        let key = format!("{}::{}", self.files[fi].module, r.name.name);
                        for (fname, t) in &r.fields {
                            let vals: Vec<&Ex> = nodes
                                .iter()
                                .filter_map(|(_, e)| match &e.k {
                                    EK::Rec(Some(p), fs, _) if p.last().unwrap().name == r.name.name => fs.iter().find(|(n, _)| n.name == fname.name).map(|(_, x)| x),
                                    EK::Rec(None, fs, _) if matches!(an.info.get(&e.id).and_then(|i| i.req.exact()), Some(T::App(k, _)) if *k == key) => {
                                        fs.iter().find(|(n, _)| n.name == fname.name).map(|(_, x)| x)
                                    }
                                    _ => None,
                                })
                                .collect();
                            let (top, nested) = flows(&vals);
                            self.never_site("n1-never-field", &format!("field `{}` of `{}`", fname.name, r.name.name), t, top, nested);
                        }
                    }
                    Item::Enum(en) => {
                        for (v, tys, _) in &en.variants {
                            for (k, t) in tys.iter().enumerate() {
                                let vals: Vec<&Ex> = nodes
                                    .iter()
                                    .filter_map(|(_, e)| match &e.k {
                                        EK::Call(Callee::Path(segs), args, _)
                                            if segs.len() >= 2 && segs.last().unwrap().name == v.name && segs[segs.len() - 2].name == en.name.name && args.len() == tys.len() =>
                                        {
                                            args.get(k)
                                        }
                                        _ => None,
                                    })
                                    .collect();
                                let (top, nested) = flows(&vals);
                                self.never_site("n1-never-payload", &format!("payload {k} of `{}.{}`", en.name.name, v.name), t, top, nested);
                            }
                        }
                    }
                    Item::Import(..) => {}
                }
            }
        }
        self.fnk = saved_fnk;
    }

    fn never_lets(&mut self, b: &Blk, flows: &dyn Fn(&[&Ex]) -> (bool, bool)) {
        let mut todo: Vec<&Blk> = vec![b];
        while let Some(b) = todo.pop() {
            let mut exprs: Vec<&Ex> = vec![];
            for s in &b.stmts {
                match s {
                    St::Let(n, t, x, _) => {
                        if let Some(t) = t {
                            let (top, nested) = flows(&[x]);
                            self.never_site("n1-never-let", &format!("annotation of `let {}`", n.name), t, top, nested);
                        }
                        exprs.push(x);
                    }
                    St::Expr(x, _) => exprs.push(x),
                }
            }
            if let Some(t) = &b.tail {
                exprs.push(t);
            }
            while let Some(e) = exprs.pop() {
                let (es, bs) = kids(e);
                exprs.extend(es);
                todo.extend(bs);
            }
        }
    }

    /// the written type `t` replaced by `!` (if `top`), every type nested in it replaced by `!` (if `nested`)
    fn never_site(&mut self, kind: &'static str, what: &str, t: &TyEx, top: bool, nested: bool) {
        if matches!(t, TyEx::Never(_)) {
            return;
        }
        if top {
            let sp = t.sp();
            self.push(kind, format!("{what}: `{}` -> `!`", self.text(sp)), vec![(sp.s, sp.e, "!".into())]);
        }
        if nested {
            let mut inner: Vec<&TyEx> = vec![];
            fn subs<'x>(t: &'x TyEx, out: &mut Vec<&'x TyEx>) {
                match t {
                    TyEx::Path(_, args, _) => {
                        for a in args {
                            out.push(a);
                            subs(a, out);
                        }
                    }
                    TyEx::Opt(i, _) => {
                        out.push(i);
                        subs(i, out);
                    }
                    TyEx::Anon(fs, _) => {
                        for (_, f) in fs {
                            out.push(f);
                            subs(f, out);
                        }
                    }
                    _ => {}
                }
            }
            subs(t, &mut inner);
            for i in inner {
                if matches!(i, TyEx::Never(_)) {
                    continue;
                }
                let sp = i.sp();
                let mut whole = self.text(t.sp()).to_string();
                whole.replace_range(sp.s - t.sp().s..sp.e - t.sp().s, "!");
                self.push(kind, format!("{what}: `{}` -> `{whole}`", self.text(t.sp())), vec![(sp.s, sp.e, "!".into())]);
            }
        }
    }

    // ------------------------------------------------------------ e3: uses outside the declaring scope

    /// Every declaration of the function (parameters, lets, loop variables,
    /// pattern binders, block-level imports) with the text region in which it
    /// is visible; every statement boundary of the function is a program
    /// point; a use of a name is inserted at every point that lies in the
    /// region of NO declaration of that name (so a shadowed outer variable
    /// stays usable and produces no mutant).
    fn scope_edits(&mut self, f: &FnDecl, items: &[Item], parsed: &Parsed, opts: &Opts) {
        let mut decls: Vec<Decl> = vec![];
        for (n, t) in &f.params {
            decls.push(Decl { name: n.name.clone(), region: (f.body.sp.s, f.body.sp.e), ty: Some(self.text(t.sp()).to_string()), call: None });
        }
        let mut points: Vec<usize> = vec![];
        self.scan_block(&f.body, parsed, &mut decls, &mut points);
        let mut names: Vec<String> = decls.iter().map(|d| d.name.clone()).collect();
        names.sort();
        names.dedup();
        names.retain(|n| !self.global_names.contains(n) && n != "_");
        for (pi, at) in points.iter().enumerate() {
            for n in &names {
                if decls.iter().any(|d| d.name == *n && d.region.0 <= *at && *at < d.region.1) {
                    continue;
                }
                let d = decls.iter().find(|d| d.name == *n).unwrap();
                self.use_at(*at, pi, d, "at a point outside the block that declares it");
            }
        }
        // a sibling function: the start of its body
        if opts.only_fn.is_some() {
            return;
        }
        for it in items {
            let Item::Fn(g) = it else { continue };
            if g.name.sp == f.name.sp {
                continue;
            }
            let mut gd: Vec<Decl> = g.params.iter().map(|(n, _)| Decl { name: n.name.clone(), region: (0, 0), ty: None, call: None }).collect();
            let mut gp = vec![];
            self.scan_block(&g.body, parsed, &mut gd, &mut gp);
            for (k, n) in names.iter().enumerate() {
                if gd.iter().any(|d| d.name == *n) {
                    continue;
                }
                let d = decls.iter().find(|d| d.name == *n).unwrap();
                self.use_at(g.body.sp.s + 1, k, d, &format!("in the sibling function `{}`", g.name.name));
            }
        }
    }

    fn use_at(&mut self, at: usize, rot: usize, d: &Decl, place: &str) {
        let n = &d.name;
        if let Some(call) = &d.call {
            // an imported function: a call of it
            self.push("e3-out-of-scope", format!("`{call}` (imported inside a block) {place}"), vec![(at, at, format!(" {call};"))]);
            return;
        }
        if d.ty.as_deref() != Some("fn") {
            self.push("e3-out-of-scope", format!("`{n};` {place}"), vec![(at, at, format!(" {n};"))]);
        }
        // one use that would be well-typed if the name were visible
        let Some(ty) = &d.ty else { return };
        if ty == "fn" {
            return;
        }
        let mut forms: Vec<String> = vec![format!("let zq_use: {ty} = {n};")];
        if let Some(T::P(p)) = prim(ty) {
            forms.push(format!("{n} == {n};"));
            if INTS.contains(&p) {
                forms.push(format!("{n} + 0;"));
                forms.push(format!("emit_{p}({n});"));
            } else if FLOATS.contains(&p) {
                forms.push(format!("{n} + 0.0;"));
                forms.push(format!("emit_{p}({n});"));
            } else if p == "String" {
                forms.push(format!("emit_str({n});"));
            } else {
                forms.push(format!("emit_{p}({n});"));
            }
        }
        let form = &forms[rot % forms.len()];
        self.push("e3-out-of-scope", format!("`{form}` {place}"), vec![(at, at, format!(" {form}"))]);
    }

    fn scan_block(&self, b: &Blk, parsed: &Parsed, decls: &mut Vec<Decl>, points: &mut Vec<usize>) {
        if !b.synthetic {
            points.push(b.sp.s + 1);
        }
        for (p, _) in &b.imports {
            let name = p.last().unwrap().name.clone();
            // callable with literals when the target is a function with primitive parameters
            let mut call = None;
            let mut is_fn = false;
            for items in &parsed.files {
                for it in items {
                    if let Item::Fn(g) = it {
                        if g.name.name == name {
                            is_fn = true;
                            let args: Option<Vec<String>> = g
                                .params
                                .iter()
                                .map(|(_, t)| {
                                    let fi = parsed.files.iter().position(|f| std::ptr::eq(f, items)).unwrap();
                                    prim(&self.files[fi].text[t.sp().s..t.sp().e]).and_then(|t| lit_of(&t))
                                })
                                .collect();
                            call = args.map(|a| format!("{name}({})", a.join(", ")));
                        }
                    }
                }
            }
            decls.push(Decl { name, region: (b.sp.s, b.sp.e), ty: if is_fn { Some("fn".into()) } else { None }, call });
        }
        for s in &b.stmts {
            match s {
                St::Let(n, t, x, sp) => {
                    self.scan_expr(x, parsed, decls, points);
                    decls.push(Decl { name: n.name.clone(), region: (sp.e, b.sp.e), ty: t.as_ref().map(|t| self.text(t.sp()).to_string()), call: None });
                }
                St::Expr(x, _) => self.scan_expr(x, parsed, decls, points),
            }
            if !b.synthetic {
                points.push(s.sp().e);
            }
        }
        if let Some(t) = &b.tail {
            self.scan_expr(t, parsed, decls, points);
        }
    }

    fn scan_expr(&self, e: &Ex, parsed: &Parsed, decls: &mut Vec<Decl>, points: &mut Vec<usize>) {
        let ty_of = |sp_s: usize| self.an.decl_ty.get(&(self.file, sp_s)).filter(|t| !t.has_tv()).map(|t| t.show());
        match &e.k {
            EK::For(v, _, b) => decls.push(Decl { name: v.name.clone(), region: (b.sp.s, b.sp.e), ty: ty_of(v.sp.s), call: None }),
            EK::Match(_, arms, _) => {
                for a in arms {
                    if let Some((bs, _)) = &a.binds {
                        for bnd in bs {
                            decls.push(Decl { name: bnd.name.clone(), region: (a.pat_sp.e, a.sp.e), ty: ty_of(bnd.sp.s), call: None });
                        }
                    }
                }
            }
            _ => {}
        }
        let (es, bs) = kids(e);
        for c in es {
            self.scan_expr(c, parsed, decls, points);
        }
        for b in bs {
            self.scan_block(b, parsed, decls, points);
        }
    }

    // ------------------------------------------------------------ blocks

    fn block(&mut self, b: &Blk, _fn_body: bool) {
        // accept / reject at the start of every block of a function that returns no Verdict
        let verdict = matches!(&self.fnk, FnK::Fn(T::App(n, _)) if n == "Verdict") || matches!(self.fnk, FnK::Filtermap | FnK::Test);
        if !verdict && self.fnk != FnK::Const && !b.synthetic {
            let at = b.sp.s + 1;
            self.push("e7-accept-nonverdict", "`accept;` at the start of a block".into(), vec![(at, at, " accept;".into())]);
            self.push("e7-reject-nonverdict", "`reject;` at the start of a block".into(), vec![(at, at, " reject;".into())]);
        }
        for s in b.stmts.iter() {
            match s {
                St::Let(name, t, x, sp) => {
                    if let Some(t) = t {
                        self.ty_names(t);
                    }
                    self.expr(x, role("let initialiser"));
                    // unspecified: the same let twice in one block
                    self.push("u9-let-same-block", format!("`let {}` twice in one block", name.name), vec![(sp.e, sp.e, format!(" {}", self.text(*sp)))]);
                }
                St::Expr(x, sp) => {
                    let semi = !self.text(*sp).ends_with(';');
                    self.expr(x, Role { name: "statement", wrap: Wrap::Paren, semi });
                }
            }
        }
        if let Some(t) = &b.tail {
            let r = if b.synthetic && matches!(t.k, EK::If(..)) && self.text(t.sp).starts_with("if") && b.sp == t.sp {
                Role { name: "else-if branch", wrap: Wrap::Brace, semi: false }
            } else {
                role("tail value")
            };
            self.expr(t, r);
        }
    }

    // ------------------------------------------------------------ expressions

    fn expr(&mut self, e: &Ex, r: Role) {
        let Some(info) = self.an.info.get(&e.id) else { return };
        let info = info.clone();
        let w = &self.an.world;
        let src = self.text(e.sp).to_string();
        let (s, en) = (e.sp.s, e.sp.e);

        // ---- e1: concretely typed replacements of every other type
        self.e1(&info.req, &info.vars, r, e.sp, &src, r.name);

        // ---- e6 / e7 wrappers around this expression
        let own_exact = info.selfty.exact().cloned();
        let unsigned_here = own_exact.as_ref().is_some_and(|t| t.is_unsigned()) || info.req.exact().is_some_and(|t| t.is_unsigned());
        if unsigned_here && !matches!(e.k, EK::Ret(..)) {
            self.push("e6-neg-unsigned", format!("`-` applied to {} `{src}`", r.name), vec![(s, en, self.put(r, &format!("-({src})")))]);
        }
        // `!`: the operand cannot be bool
        let not_bool = match &info.selfty {
            Cl::Exact(t) => *t != T::P("bool"),
            Cl::Int | Cl::Float | Cl::Num => true,
            Cl::OptOf(_) | Cl::ListOf(_) | Cl::AppNamed(_) => true,
            _ => false,
        };
        if not_bool && !matches!(e.k, EK::Ret(..)) {
            self.push("e6-not-nonbool", format!("`!` applied to {} `{src}` of type {}", r.name, info.selfty.show()), vec![(s, en, self.put(r, &format!("!({src})")))]);
        }
        if let Some(t) = &own_exact {
            let non_number = match t {
                T::P("bool") | T::P("char") | T::Unit | T::Anon(_) => true,
                T::App(n, _) => n != "List",
                _ => false,
            };
            // the duplicated text must not declare anything or leave the function
            let pure = !src.contains("let ") && !matches!(e.k, EK::Ret(..) | EK::Assign(..) | EK::Compound(..) | EK::While(..) | EK::For(..));
            if non_number && pure {
                for op in ["+", "-", "*", "/", "%"] {
                    self.push("e6-arith-nonnumber", format!("`{op}` on two values of type {}", t.show()), vec![(s, en, self.put(r, &format!("({src}) {op} ({src})")))]);
                }
                for op in ["<", "<=", ">", ">="] {
                    self.push("e6-order-nonnumber", format!("`{op}` on two values of type {}", t.show()), vec![(s, en, self.put(r, &format!("({src}) {op} ({src})")))]);
                }
            }
            let concat_only = *t == T::P("String") || matches!(t, T::App(n, _) if n == "List");
            if concat_only && pure {
                for op in ["-", "*", "%"] {
                    self.push("e6-arith-nonnumber", format!("`{op}` on two values of type {}", t.show()), vec![(s, en, self.put(r, &format!("({src}) {op} ({src})")))]);
                }
                for op in ["<", "<=", ">", ">="] {
                    self.push("e6-order-nonnumber", format!("`{op}` on two values of type {}", t.show()), vec![(s, en, self.put(r, &format!("({src}) {op} ({src})")))]);
                }
            }
            if t.is_float() && pure {
                self.push("e6-mod-float", format!("`%` on two values of type {}", t.show()), vec![(s, en, self.put(r, &format!("({src}) % ({src})")))]);
            }
        }
        let try_forbidden = match &info.fnk {
            FnK::Fn(T::App(n, _)) if n == "Option" => false,
            FnK::Const => false, // covered by e7-const-try at the initialiser
            _ => true,
        };
        if try_forbidden && !matches!(e.k, EK::Ret(..)) {
            self.push("e7-try-nonoption", format!("`Option.Some({src})?` in an item that does not return an Option"), vec![(s, en, self.put(r, &format!("Option.Some({src})?")))]);
        }

        // ---- per construct
        match &e.k {
            EK::Int(_) | EK::Float(_) | EK::Bool | EK::Char | EK::Str | EK::Unit => {}
            EK::FStr(parts) => {
                for p in parts {
                    self.expr(p, role("f-string part"));
                }
            }
            EK::Path(segs) => {
                let head = &segs[0];
                let is_var = info.vars.iter().any(|(n, _)| *n == head.name);
                // e3: the use renamed to an undeclared name
                self.push("e3-undeclared", format!("`{}` -> `zz_undeclared`", head.name), vec![(head.sp.s, head.sp.e, "zz_undeclared".into())]);
                if segs.len() > 1 {
                    let last = segs.last().unwrap();
                    if is_var {
                        self.push("e4-missing-field-access", format!("field `{}` -> `zzf`", last.name), vec![(last.sp.s, last.sp.e, "zzf".into())]);
                        // the record value itself replaced
                        let pre = Sp { s: head.sp.s, e: segs[segs.len() - 2].sp.e };
                        let pre_src = self.text(pre).to_string();
                        self.e1(&Cl::HasField(last.name.clone()), &info.vars, role("record operand of a field access"), pre, &pre_src, "record operand of a field access");
                    } else {
                        self.push("e3-undeclared", format!("`{}` -> `Zzu`", last.name), vec![(last.sp.s, last.sp.e, "Zzu".into())]);
                    }
                }
            }
            EK::Call(callee, args, asp) => {
                match callee {
                    Callee::Method(recv, m) => {
                        self.expr(recv, role("method receiver"));
                        self.push("e3-undeclared", format!("method `{}` -> `zzm`", m.name), vec![(m.sp.s, m.sp.e, "zzm".into())]);
                    }
                    Callee::Path(segs) => {
                        let head = &segs[0];
                        let last = segs.last().unwrap();
                        let is_var = info.vars.iter().any(|(n, _)| *n == head.name);
                        self.push("e3-undeclared", format!("`{}` -> `zz_undeclared`", head.name), vec![(head.sp.s, head.sp.e, "zz_undeclared".into())]);
                        if segs.len() > 1 {
                            self.push("e3-undeclared", format!("`{}` -> `zzm`", last.name), vec![(last.sp.s, last.sp.e, "zzm".into())]);
                            if is_var {
                                let pre = Sp { s: head.sp.s, e: segs[segs.len() - 2].sp.e };
                                let pre_src = self.text(pre).to_string();
                                self.e1(&Cl::HasMethod(last.name.clone()), &info.vars, role("method receiver"), pre, &pre_src, "method receiver");
                            }
                            // `x.f(..)` passes `x` as the first argument of `f`. The runtime files every
                            // function of an impl block under its type, also those whose first parameter
                            // is NOT a value of that type: written as a method call on such a value they
                            // get a first argument of the wrong type (seeded change C07-5).
                            if is_var && segs.len() == 2 {
                                let vt = info.vars.iter().rev().find(|(n, _)| *n == head.name).map(|(_, t)| t.clone());
                                let foreign: Vec<(&str, &str)> = match vt {
                                    Some(T::P("String")) => vec![("from_chars", "()")],
                                    Some(T::App(n, a)) if n == "List" && a.first() != Some(&T::P("String")) => vec![("join", "(\", \")")],
                                    Some(T::App(n, _)) if n == "Prefix" => vec![("new", "(24u8)")],
                                    _ => vec![],
                                };
                                for (f, a) in foreign {
                                    self.push(
                                        "e1-foreign-receiver",
                                        format!("`{}.{}(..)` -> `{}.{f}{a}`", head.name, last.name, head.name),
                                        vec![(last.sp.s, asp.e, format!("{f}{a}"))],
                                    );
                                }
                            }
                        }
                    }
                }
                // e2: argument count
                let texts: Vec<String> = args.iter().map(|a| self.text(a.sp).to_string()).collect();
                let join = |v: &[String]| format!("({})", v.join(", "));
                for i in 0..texts.len() {
                    let mut v = texts.clone();
                    v.remove(i);
                    self.push("e2-drop-arg", format!("argument {i} dropped"), vec![(asp.s, asp.e, join(&v))]);
                    let mut v = texts.clone();
                    v.insert(i, texts[i].clone());
                    self.push("e2-dup-arg", format!("argument {i} duplicated"), vec![(asp.s, asp.e, join(&v))]);
                }
                let mut v = texts.clone();
                v.push("1u8".into());
                self.push("e2-add-arg", "one more argument".into(), vec![(asp.s, asp.e, join(&v))]);
                for a in args {
                    self.expr(a, role("argument"));
                }
            }
            EK::Field(x, f) => {
                self.push("e4-missing-field-access", format!("field `{}` -> `zzf`", f.name), vec![(f.sp.s, f.sp.e, "zzf".into())]);
                self.expr(x, role("record operand of a field access"));
            }
            EK::Neg(x) => self.expr(x, role("operand")),
            EK::Not(x) => self.expr(x, role("operand")),
            EK::Bin(_, l, r2) => {
                self.expr(l, role("operand"));
                self.expr(r2, role("operand"));
            }
            EK::If(c, t, f) => {
                self.expr(c, role("condition"));
                self.block(t, false);
                if let Some(f) = f {
                    self.block(f, false);
                }
            }
            EK::While(c, b) => {
                self.expr(c, role("condition"));
                self.block(b, false);
            }
            EK::For(_, l, b) => {
                self.expr(l, role("iterated list"));
                self.block(b, false);
            }
            EK::Ret(kind, x) => {
                if let Some(x) = x {
                    self.expr(x, role("return value"));
                }
                if *kind == RetKind::Return {
                    let verdict = matches!(&info.fnk, FnK::Fn(T::App(n, _)) if n == "Verdict") || matches!(info.fnk, FnK::Filtermap | FnK::Test);
                    if !verdict {
                        self.push("e7-accept-nonverdict", "`return` -> `accept`".into(), vec![(s, s + 6, "accept".into())]);
                        self.push("e7-reject-nonverdict", "`return` -> `reject`".into(), vec![(s, s + 6, "reject".into())]);
                    }
                }
            }
            EK::Try(x) => self.expr(x, role("operand of `?`")),
            EK::List(xs) => {
                for x in xs {
                    self.expr(x, role("element"));
                }
            }
            EK::Block(b) => {
                self.block(b, false);
            }
            EK::Assign(path, x) | EK::Compound(path, _, x) => {
                let head = &path[0];
                self.push("e3-undeclared", format!("assignment target `{}` -> `zz_undeclared`", head.name), vec![(head.sp.s, head.sp.e, "zz_undeclared".into())]);
                if path.len() > 1 {
                    let last = path.last().unwrap();
                    self.push("e4-missing-field-access", format!("assigned field `{}` -> `zzf`", last.name), vec![(last.sp.s, last.sp.e, "zzf".into())]);
                }
                self.expr(x, role("assigned value"));
            }
            EK::Rec(name, fs, braces) => {
                let constrained = name.is_some() || info.req.exact().is_some();
                if let Some(p) = name {
                    let last = p.last().unwrap();
                    self.push("e3-undeclared", format!("record type `{}` -> `Zzt`", last.name), vec![(last.sp.s, last.sp.e, "Zzt".into())]);
                }
                if constrained {
                    let pairs: Vec<(String, String)> = fs.iter().map(|(n, x)| (n.name.clone(), self.text(x.sp).to_string())).collect();
                    let lit = |v: &[(String, String)]| {
                        if v.is_empty() { "{}".to_string() } else { format!("{{ {} }}", v.iter().map(|(n, x)| format!("{n}: {x}")).collect::<Vec<_>>().join(", ")) }
                    };
                    for i in 0..pairs.len() {
                        let mut v = pairs.clone();
                        v.remove(i);
                        self.push("e4-drop-field", format!("field `{}` dropped", pairs[i].0), vec![(braces.s, braces.e, lit(&v))]);
                        let mut v = pairs.clone();
                        v.push(pairs[i].clone());
                        self.push("e4-dup-field", format!("field `{}` given twice", pairs[i].0), vec![(braces.s, braces.e, lit(&v))]);
                        let mut v = pairs.clone();
                        v[i].0 = "zzf".into();
                        self.push("e4-misspell-field", format!("field `{}` -> `zzf`", pairs[i].0), vec![(braces.s, braces.e, lit(&v))]);
                    }
                    // a field the record type does not have, at the front and at the end
                    let mut v = pairs.clone();
                    v.push(("zzf".into(), "1u8".into()));
                    self.push("e4-extra-field", "one more field `zzf` at the end".into(), vec![(braces.s, braces.e, lit(&v))]);
                    let mut v = pairs.clone();
                    v.insert(0, ("zzf".into(), "true".into()));
                    self.push("e4-extra-field", "one more field `zzf` at the front".into(), vec![(braces.s, braces.e, lit(&v))]);
                }
                for (_, x) in fs {
                    self.expr(x, role("field value"));
                }
            }
            EK::Match(x, arms, braces) => {
                self.expr(x, role("match scrutinee"));
                let variants = self.an.match_variants.get(&e.id).cloned();
                let has_default = arms.iter().any(|a| a.variant.is_none() && a.guard.is_none());
                let unguarded = |v: &str, skip: usize| arms.iter().enumerate().any(|(j, a)| j != skip && a.guard.is_none() && a.variant.as_ref().is_some_and(|x| x.name == v));
                // (variant or `_`, guarded) of every arm; a match is exhaustive iff it has an
                // unguarded `_` arm or the SET of variants with an unguarded arm is the whole enum
                type Desc = Vec<(Option<String>, bool)>;
                let desc: Desc = arms.iter().map(|a| (a.variant.as_ref().map(|v| v.name.clone()), a.guard.is_some())).collect();
                let missing = |d: &Desc| -> Option<String> {
                    let vs = variants.as_ref()?;
                    if d.iter().any(|(v, g)| v.is_none() && !g) {
                        return None;
                    }
                    vs.iter().find(|(v, _)| !d.iter().any(|(x, g)| !g && x.as_deref() == Some(v.as_str()))).map(|(v, _)| v.clone())
                };
                let _ = (has_default, &unguarded);
                if missing(&desc).is_none() && variants.is_some() {
                    let arm_copy = |g: &Gen, j: usize, guard: bool| -> String {
                        let a = &arms[j];
                        let mut t = g.text(a.sp).trim_end().to_string();
                        if guard {
                            t.insert_str(a.pat_sp.e - a.sp.s, " if true");
                        }
                        while t.ends_with(',') {
                            t.pop();
                        }
                        t.push(',');
                        t
                    };
                    for i in 0..arms.len() {
                        let Some(vi) = &arms[i].variant else { continue };
                        // e5: the pattern names every OTHER variant of the enum (binders adapted to its arity)
                        for (w, arity) in variants.as_ref().unwrap() {
                            if *w == vi.name {
                                continue;
                            }
                            let mut d = desc.clone();
                            d[i].0 = Some(w.clone());
                            let Some(miss) = missing(&d) else { continue };
                            let old: Vec<String> = arms[i].binds.as_ref().map(|(b, _)| b.iter().map(|s| s.name.clone()).collect()).unwrap_or_default();
                            let binders: Vec<String> = (0..*arity).map(|k| old.get(k).cloned().unwrap_or(format!("zw{k}"))).collect();
                            let pat = if binders.is_empty() { w.clone() } else { format!("{w}({})", binders.join(", ")) };
                            self.push(
                                "e5-other-variant",
                                format!("pattern `{}` -> `{pat}`: no unguarded arm covers `{miss}`", self.text(arms[i].pat_sp)),
                                vec![(arms[i].pat_sp.s, arms[i].pat_sp.e, pat)],
                            );
                        }
                        // e5: arm j duplicated in the place of arm i (one duplicated, one deleted)
                        for j in 0..arms.len() {
                            if j == i || arms[j].variant.is_none() {
                                continue;
                            }
                            let mut d = desc.clone();
                            d[i] = desc[j].clone();
                            if let Some(miss) = missing(&d) {
                                self.push(
                                    "e5-dup-and-delete",
                                    format!("arm {j} (`{}`) repeated in the place of arm {i} (`{}`): no unguarded arm covers `{miss}`", self.text(arms[j].pat_sp), self.text(arms[i].pat_sp)),
                                    vec![(arms[i].sp.s, arms[i].sp.e, arm_copy(self, j, false))],
                                );
                            }
                            if !desc[j].1 {
                                // the copy guarded; then both copies guarded
                                d[i].1 = true;
                                if let Some(miss) = missing(&d) {
                                    self.push(
                                        "e5-dup-guarded-and-delete",
                                        format!("a guarded copy of arm {j} (`{}`) in the place of arm {i} (`{}`): no unguarded arm covers `{miss}`", self.text(arms[j].pat_sp), self.text(arms[i].pat_sp)),
                                        vec![(arms[i].sp.s, arms[i].sp.e, arm_copy(self, j, true))],
                                    );
                                }
                                d[j].1 = true;
                                if let Some(miss) = missing(&d) {
                                    self.push(
                                        "e5-dup-guarded-and-delete",
                                        format!("arm {j} (`{}`) guarded and a guarded copy of it in the place of arm {i} (`{}`): no unguarded arm covers `{miss}`", self.text(arms[j].pat_sp), self.text(arms[i].pat_sp)),
                                        vec![(arms[i].sp.s, arms[i].sp.e, arm_copy(self, j, true)), (arms[j].pat_sp.e, arms[j].pat_sp.e, " if true".into())],
                                    );
                                }
                            }
                        }
                        // unspecified: a second unguarded arm of a covered variant, nothing deleted
                        if !desc[i].1 {
                            let own = self.text(arms[i].sp).trim_end();
                            let sep = if own.ends_with(',') || own.ends_with('}') { " " } else { ", " };
                            self.push("u5-dup-arm", format!("arm {i} (`{}`) written twice", self.text(arms[i].pat_sp)), vec![(arms[i].sp.e, arms[i].sp.e, format!("{sep}{}", arm_copy(self, i, false)))]);
                        }
                    }
                }
                for (i, a) in arms.iter().enumerate() {
                    // e5: remove the arm
                    let breaks = {
                        let mut d = desc.clone();
                        d.remove(i);
                        missing(&desc).is_none() && missing(&d).is_some()
                    };
                    if breaks {
                        let what = a.variant.as_ref().map(|v| v.name.clone()).unwrap_or("_".into());
                        // a last arm without trailing comma: also remove the comma before it
                        self.push("e5-nonexhaustive", format!("arm `{what}` removed"), vec![(a.sp.s, a.sp.e, String::new())]);
                    }
                    if let Some(v) = &a.variant {
                        self.push("e5-misspell-variant", format!("variant `{}` -> `Zzv`", v.name), vec![(v.sp.s, v.sp.e, "Zzv".into())]);
                        match &a.binds {
                            Some((bs, bsp)) => {
                                self.push("e5-add-binding", format!("one more binding in `{}`", v.name), vec![(bsp.e - 1, bsp.e - 1, if bs.is_empty() { "zzb".into() } else { ", zzb".into() })]);
                                if let Some(b0) = bs.first() {
                                    self.push("e9-dup-binding", format!("`{}` bound twice in `{}`", b0.name, v.name), vec![(bsp.e - 1, bsp.e - 1, format!(", {}", b0.name))]);
                                }
                                if bs.len() == 1 {
                                    self.push("e5-drop-binding", format!("bindings of `{}` dropped", v.name), vec![(bsp.s, bsp.e, String::new())]);
                                } else if bs.len() > 1 {
                                    let keep: Vec<&str> = bs[..bs.len() - 1].iter().map(|b| b.name.as_str()).collect();
                                    self.push("e5-drop-binding", format!("last binding of `{}` dropped", v.name), vec![(bsp.s, bsp.e, format!("({})", keep.join(", ")))]);
                                }
                            }
                            None => {
                                self.push("e5-add-binding", format!("a binding on `{}`", v.name), vec![(v.sp.e, v.sp.e, "(zzb)".into())]);
                            }
                        }
                    }
                    if a.variant.is_none() && a.guard.is_none() {
                        // e5: an arm after the unguarded `_`
                        let first = &arms[0];
                        let mut arm_text = self.text(first.sp).trim_end().to_string();
                        if first.variant.is_none() {
                            arm_text = format!("_ => {},", self.text(first.body.sp));
                        }
                        if !arm_text.ends_with(',') {
                            arm_text.push(',');
                        }
                        let own = self.text(a.sp).trim_end();
                        let sep = if own.ends_with(',') || own.ends_with('}') { " " } else { ", " };
                        self.push("e5-unreachable", "an arm added after the unguarded `_` arm".into(), vec![(a.sp.e, a.sp.e, format!("{sep}{arm_text}"))]);
                    }
                    if let Some(g) = &a.guard {
                        self.expr(g, role("condition"));
                    }
                    self.block(&a.body, false);
                }
                let _ = braces;
            }
        }
        let _ = w;
    }

    #[allow(clippy::too_many_arguments)]
    fn e1(&mut self, req: &Cl, vars: &[(String, T)], r: Role, sp: Sp, src: &str, role_name: &str) {
        if *req == Cl::Any || req.exact() == Some(&T::Never) {
            return;
        }
        let w = &self.an.world;
        let mut reps: Vec<(String, String)> = vec![];
        for (text, t) in &self.cands {
            if !req.admits(t, w) {
                reps.push((text.to_string(), t.show()));
            }
        }
        for (n, t) in vars {
            if !req.admits(t, w) && n != src {
                reps.push((n.clone(), t.show()));
            }
        }
        let req_s = req.show();
        for (text, ty) in reps {
            self.push(
                "e1-replace",
                format!("{role_name} `{src}` (context demands {req_s}) replaced by `{text}` of type {ty}"),
                vec![(sp.s, sp.e, self.put(r, &text))],
            );
        }
        if !req.admits_some_int(w) {
            self.push(
                "e1-intlit",
                format!("{role_name} `{src}` (context demands {req_s}) replaced by the integer literal `1`"),
                vec![(sp.s, sp.e, self.put(r, "1"))],
            );
        }
        if !req.admits_some_float(w) {
            self.push(
                "e1-floatlit",
                format!("{role_name} `{src}` (context demands {req_s}) replaced by the float literal `1.5`"),
                vec![(sp.s, sp.e, self.put(r, "1.5"))],
            );
        }
    }
}

/// `R` or `R[u8, ..]` for a generic declaration
fn self_ref(name: &str, n_tparams: usize) -> String {
    if n_tparams == 0 { name.to_string() } else { format!("{name}[{}]", vec!["u8"; n_tparams].join(", ")) }
}
