//! The generator's own typing of a seed: for every expression position the
//! class of types the *context* demands (`req`, computed without looking at
//! the expression itself) and the class the expression has on its own
//! (`selfty`). All variables of the seeds are annotated, so both are known.
//! The model is liberal on purpose (see `Cl::admits`).

use std::collections::HashMap;
use std::rc::Rc;

use crate::parse::*;
use crate::ty::*;

#[derive(Clone, Debug)]
pub struct SrcFile {
    /// module name: "pkg" for the root, otherwise a child module of pkg
    pub module: String,
    pub text: String,
}

#[derive(Clone, Debug, PartialEq)]
pub enum FnK {
    Fn(T),
    Filtermap,
    Const,
    Test,
}

#[derive(Clone, Debug)]
pub struct Info {
    pub req: Cl,
    pub selfty: Cl,
    pub vars: Rc<Vec<(String, T)>>,
    pub fnk: FnK,
    pub file: usize,
}

#[derive(Default)]
pub struct Analysis {
    pub world: World,
    pub info: HashMap<usize, Info>,
    /// match expression id -> (variants of the scrutinee's enum, in declaration order)
    pub match_variants: HashMap<usize, Vec<(String, usize)>>,
    /// (file, start of the declaring identifier) -> type of a loop variable / pattern binder
    pub decl_ty: HashMap<(usize, usize), T>,
    /// things the model could not type (a seed must have none)
    pub errors: Vec<String>,
}

pub struct Parsed {
    pub files: Vec<Vec<Item>>,
}

pub fn parse_seed(files: &[SrcFile]) -> Result<Parsed, String> {
    let mut out = vec![];
    let mut id = 0;
    for f in files {
        let (items, next) = parse_file(&f.text, id).map_err(|e| format!("{}: {e}", f.module))?;
        id = next;
        out.push(items);
    }
    Ok(Parsed { files: out })
}

fn key(module: &str, name: &str) -> String {
    format!("{module}::{name}")
}

const BUILTIN_TYPES: [&str; 7] = ["List", "Option", "Verdict", "Result", "Tr", "K", "Z"];

struct Scope {
    vars: Vec<(String, Option<T>)>,
    imports: HashMap<String, ItemRef>,
}

struct An<'a> {
    w: &'a World,
    module: usize,
    file: usize,
    scopes: Vec<Scope>,
    fnk: FnK,
    /// classes of the operands of the other `accept` / `reject` expressions of a filtermap
    ret_classes: Vec<(usize, RetKind, Cl)>,
    record: bool,
    info: HashMap<usize, Info>,
    match_variants: HashMap<usize, Vec<(String, usize)>>,
    decl_ty: HashMap<(usize, usize), T>,
    errors: Vec<String>,
}

enum PathRes {
    /// type after `used` segments (None = unknown); the rest are fields / a method
    Value(Option<T>, usize),
    Fn(String),
    Ctor(String, String),
    Other,
}

pub fn build_world(files: &[SrcFile], parsed: &Parsed, ctx_vars: &[(&str, T)]) -> (World, Vec<String>) {
    let mut w = World::with_builtins(ctx_vars);
    let mut errors = vec![];
    for (i, f) in files.iter().enumerate() {
        w.mods.push(ModInfo { name: f.module.clone(), parent: if i == 0 { None } else { Some(0) }, ..Default::default() });
    }
    // item names
    for (i, items) in parsed.files.iter().enumerate() {
        let m = files[i].module.clone();
        for it in items {
            let (n, r) = match it {
                Item::Fn(f) => (f.name.name.clone(), ItemRef::Fn(key(&m, &f.name.name))),
                Item::Rec(r) => (r.name.name.clone(), ItemRef::Rec(key(&m, &r.name.name))),
                Item::Enum(e) => (e.name.name.clone(), ItemRef::Enum(key(&m, &e.name.name))),
                Item::Const(c) => (c.name.name.clone(), ItemRef::Const(key(&m, &c.name.name))),
                _ => continue,
            };
            w.mods[i].items.insert(n, r);
        }
    }
    // imports
    for (i, items) in parsed.files.iter().enumerate() {
        for it in items {
            if let Item::Import(p, _) = it {
                match resolve_item(&w, i, &HashMap::new(), p) {
                    Some(r) => {
                        w.mods[i].imports.insert(p.last().unwrap().name.clone(), r);
                    }
                    None => errors.push(format!("import {:?} unresolved", p.iter().map(|s| &s.name).collect::<Vec<_>>())),
                }
            }
        }
    }
    // declarations
    for (i, items) in parsed.files.iter().enumerate() {
        let m = files[i].module.clone();
        for it in items {
            match it {
                Item::Rec(r) => {
                    let tps: Vec<String> = r.tparams.iter().map(|s| s.name.clone()).collect();
                    let fields = r.fields.iter().map(|(n, t)| (n.name.clone(), ty_of(&w, i, &tps, t, &mut errors))).collect();
                    w.recs.insert(key(&m, &r.name.name), RecInfo { tparams: tps, fields });
                }
                Item::Enum(e) => {
                    let tps: Vec<String> = e.tparams.iter().map(|s| s.name.clone()).collect();
                    let variants = e
                        .variants
                        .iter()
                        .map(|(n, ts, _)| (n.name.clone(), ts.iter().map(|t| ty_of(&w, i, &tps, t, &mut errors)).collect()))
                        .collect();
                    w.enums.insert(key(&m, &e.name.name), EnumInfo { tparams: tps, variants });
                }
                _ => {}
            }
        }
    }
    for (i, items) in parsed.files.iter().enumerate() {
        let m = files[i].module.clone();
        for it in items {
            match it {
                Item::Fn(f) => {
                    let params = f.params.iter().map(|(_, t)| ty_of(&w, i, &[], t, &mut errors)).collect();
                    let ret = if f.filtermap {
                        None
                    } else {
                        Some(f.ret.as_ref().map(|t| ty_of(&w, i, &[], t, &mut errors)).unwrap_or(T::Unit))
                    };
                    w.fns.insert(key(&m, &f.name.name), FnInfo { params, ret });
                }
                Item::Const(c) => {
                    let t = ty_of(&w, i, &[], &c.ty, &mut errors);
                    w.consts.insert(key(&m, &c.name.name), t);
                }
                _ => {}
            }
        }
    }
    (w, errors)
}

/// resolve a module-qualified item path (`f`, `m.f`, `pkg.m.f`, `super.f`)
fn resolve_item(w: &World, module: usize, local_imports: &HashMap<String, ItemRef>, segs: &[Seg]) -> Option<ItemRef> {
    let (r, used) = resolve_prefix(w, module, local_imports, segs)?;
    if used == segs.len() { Some(r) } else { None }
}

/// resolve as many leading segments as name modules, plus the item they lead to
fn resolve_prefix(w: &World, module: usize, local_imports: &HashMap<String, ItemRef>, segs: &[Seg]) -> Option<(ItemRef, usize)> {
    let first = &segs[0].name;
    let mut cur = if first == "pkg" {
        ItemRef::Module(0)
    } else if first == "super" {
        ItemRef::Module(w.mods[module].parent?)
    } else if let Some(r) = local_imports.get(first) {
        r.clone()
    } else if let Some(r) = w.mods[module].items.get(first) {
        r.clone()
    } else if let Some(r) = w.mods[module].imports.get(first) {
        r.clone()
    } else if let Some(c) = w.mods.iter().position(|m| m.parent == Some(module) && &m.name == first) {
        ItemRef::Module(c)
    } else {
        return None;
    };
    let mut used = 1;
    while let ItemRef::Module(mi) = cur {
        if used == segs.len() {
            break;
        }
        let n = &segs[used].name;
        if n == "super" {
            cur = ItemRef::Module(w.mods[mi].parent?);
        } else if let Some(r) = w.mods[mi].items.get(n) {
            cur = r.clone();
        } else if let Some(c) = w.mods.iter().position(|m| m.parent == Some(mi) && &m.name == n) {
            cur = ItemRef::Module(c);
        } else {
            return None;
        }
        used += 1;
    }
    Some((cur, used))
}

pub fn ty_of(w: &World, module: usize, tparams: &[String], t: &TyEx, errors: &mut Vec<String>) -> T {
    match t {
        TyEx::Unit(_) => T::Unit,
        TyEx::Never(_) => T::Never,
        TyEx::Opt(inner, _) => T::opt(ty_of(w, module, tparams, inner, errors)),
        TyEx::Anon(fs, _) => T::anon(fs.iter().map(|(n, t)| (n.name.clone(), ty_of(w, module, tparams, t, errors))).collect()),
        TyEx::Path(segs, args, _) => {
            let args: Vec<T> = args.iter().map(|a| ty_of(w, module, tparams, a, errors)).collect();
            if segs.len() == 1 {
                let n = &segs[0].name;
                if tparams.contains(n) {
                    return T::TV(n.clone());
                }
                if let Some(p) = prim(n) {
                    return p;
                }
            }
            match resolve_item(w, module, &HashMap::new(), segs) {
                Some(ItemRef::Rec(k)) | Some(ItemRef::Enum(k)) => T::App(k, args),
                _ => {
                    if segs.len() == 1 && BUILTIN_TYPES.contains(&segs[0].name.as_str()) {
                        return T::App(segs[0].name.clone(), args);
                    }
                    errors.push(format!("type {:?} unresolved", segs.iter().map(|s| &s.name).collect::<Vec<_>>()));
                    T::Unit
                }
            }
        }
    }
}

/// `Verdict[A, R]` of every filtermap whose accept / reject operands have exact types
fn filtermap_verdicts(files: &[SrcFile], parsed: &Parsed, world: &World) -> HashMap<String, T> {
    let mut out = HashMap::new();
    for (i, items) in parsed.files.iter().enumerate() {
        for it in items {
            let Item::Fn(f) = it else { continue };
            if !f.filtermap {
                continue;
            }
            let k = key(&files[i].module, &f.name.name);
            let fi = &world.fns[&k];
            let mut an = An {
                w: world,
                module: i,
                file: i,
                scopes: vec![],
                fnk: FnK::Filtermap,
                ret_classes: vec![],
                record: false,
                info: HashMap::new(),
                match_variants: HashMap::new(),
                decl_ty: HashMap::new(),
                errors: vec![],
            };
            let vars = f.params.iter().zip(&fi.params).map(|((n, _), t)| (n.name.clone(), Some(t.clone()))).collect();
            an.scopes.push(Scope { vars, imports: HashMap::new() });
            an.block_inner(&f.body, &Cl::AppNamed("Verdict".into()));
            let side = |kind: RetKind| -> Option<T> {
                let mut t = None;
                for (_, k, c) in &an.ret_classes {
                    if *k == kind {
                        match c {
                            Cl::Exact(x) => t = Some(x.clone()),
                            Cl::Int => t = t.or(Some(T::P("i32"))),
                            _ => {}
                        }
                    }
                }
                // no operand anywhere: the side is forced to unit
                Some(t.unwrap_or(T::Unit))
            };
            if let (Some(a), Some(r)) = (side(RetKind::Accept), side(RetKind::Reject)) {
                out.insert(k, T::App("Verdict".into(), vec![a, r]));
            }
        }
    }
    out
}

pub fn analyze(files: &[SrcFile], parsed: &Parsed, ctx_vars: &[(&str, T)]) -> Analysis {
    let (mut world, mut errors) = build_world(files, parsed, ctx_vars);
    world.fm_verdict = filtermap_verdicts(files, parsed, &world);
    let world = world;
    let mut info = HashMap::new();
    let mut match_variants = HashMap::new();
    let mut decl_ty = HashMap::new();
    for (i, items) in parsed.files.iter().enumerate() {
        for it in items {
            let mut an = An {
                w: &world,
                module: i,
                file: i,
                scopes: vec![],
                fnk: FnK::Test,
                ret_classes: vec![],
                record: false,
                info: HashMap::new(),
                match_variants: HashMap::new(),
                decl_ty: HashMap::new(),
                errors: vec![],
            };
            match it {
                Item::Fn(f) => {
                    let fi = &world.fns[&key(&files[i].module, &f.name.name)];
                    an.fnk = match &fi.ret {
                        Some(r) => FnK::Fn(r.clone()),
                        None => FnK::Filtermap,
                    };
                    let vars = f.params.iter().zip(&fi.params).map(|((n, _), t)| (n.name.clone(), Some(t.clone()))).collect();
                    // the parameters live in the same scope as the body's own statements
                    let req = match &fi.ret {
                        Some(r) => Cl::Exact(r.clone()),
                        None => Cl::AppNamed("Verdict".into()),
                    };
                    // first pass: classes of all accept/reject operands (no recording)
                    an.scopes.push(Scope { vars, imports: HashMap::new() });
                    an.block_inner(&f.body, &req);
                    an.record = true;
                    an.scopes.last_mut().unwrap().vars.truncate(f.params.len());
                    an.scopes.last_mut().unwrap().imports.clear();
                    an.block_inner(&f.body, &req);
                }
                Item::Const(c) => {
                    an.fnk = FnK::Const;
                    an.record = true;
                    let t = world.consts[&key(&files[i].module, &c.name.name)].clone();
                    an.scopes.push(Scope { vars: vec![], imports: HashMap::new() });
                    an.walk(&c.init, Cl::Exact(t));
                }
                Item::Test(_, body, _) => {
                    an.fnk = FnK::Test;
                    an.record = true;
                    an.scopes.push(Scope { vars: vec![], imports: HashMap::new() });
                    an.block_inner(body, &Cl::Exact(T::App("Verdict".into(), vec![T::Unit, T::Unit])));
                }
                _ => {}
            }
            info.extend(an.info);
            match_variants.extend(an.match_variants);
            decl_ty.extend(an.decl_ty);
            errors.extend(an.errors);
        }
    }
    Analysis { world, info, match_variants, decl_ty, errors }
}

pub fn diverges_expr(e: &Ex) -> bool {
    match &e.k {
        EK::Ret(..) => true,
        EK::Block(b) => diverges_block(b),
        EK::If(_, t, Some(f)) => diverges_block(t) && diverges_block(f),
        EK::Match(_, arms, _) => !arms.is_empty() && arms.iter().all(|a| diverges_block(&a.body)),
        _ => false,
    }
}

pub fn diverges_block(b: &Blk) -> bool {
    b.stmts.iter().any(|s| match s {
        St::Let(_, _, x, _) | St::Expr(x, _) => diverges_expr(x),
    }) || b.tail.as_ref().is_some_and(|t| diverges_expr(t))
}

impl<'a> An<'a> {
    fn err(&mut self, s: impl Into<String>) {
        if self.record {
            self.errors.push(s.into());
        }
    }

    fn lookup_var(&self, n: &str) -> Option<Option<T>> {
        for s in self.scopes.iter().rev() {
            if let Some((_, t)) = s.vars.iter().rev().find(|(v, _)| v == n) {
                return Some(t.clone());
            }
        }
        None
    }

    fn local_imports(&self) -> HashMap<String, ItemRef> {
        let mut m = HashMap::new();
        for s in &self.scopes {
            for (k, v) in &s.imports {
                m.insert(k.clone(), v.clone());
            }
        }
        m
    }

    fn visible_vars(&self) -> Vec<(String, T)> {
        let mut out: Vec<(String, T)> = vec![];
        for s in self.scopes.iter().rev() {
            for (n, t) in s.vars.iter().rev() {
                if let Some(t) = t {
                    if !out.iter().any(|(m, _)| m == n) {
                        out.push((n.clone(), t.clone()));
                    }
                } else if !out.iter().any(|(m, _)| m == n) {
                    // shadowing variable of unknown type hides the outer one
                    out.push((n.clone(), T::TV("?".into())));
                }
            }
        }
        out.retain(|(_, t)| !t.has_tv());
        out
    }

    fn resolve(&mut self, segs: &[Seg]) -> PathRes {
        let first = &segs[0].name;
        if let Some(t) = self.lookup_var(first) {
            return PathRes::Value(t, 1);
        }
        let li = self.local_imports();
        if let Some((r, used)) = resolve_prefix(self.w, self.module, &li, segs) {
            return match r {
                ItemRef::Fn(k) if used == segs.len() => PathRes::Fn(k),
                ItemRef::Const(k) => PathRes::Value(self.w.consts.get(&k).cloned(), used),
                ItemRef::Enum(k) if used + 1 == segs.len() => PathRes::Ctor(k, segs[used].name.clone()),
                _ => PathRes::Other,
            };
        }
        if let Some(t) = self.w.globals.get(first) {
            return PathRes::Value(Some(t.clone()), 1);
        }
        if segs.len() == 1 && self.w.fns.contains_key(first) {
            return PathRes::Fn(first.clone());
        }
        if segs.len() == 2 && self.w.enums.contains_key(first) {
            return PathRes::Ctor(first.clone(), segs[1].name.clone());
        }
        PathRes::Other
    }

    /// type of `value.f1.f2...` for the given remaining segments
    fn fields(&self, mut t: Option<T>, segs: &[Seg]) -> Option<T> {
        for s in segs {
            t = self.w.field_ty(&t?, &s.name);
        }
        t
    }

    // ------------------------------------------------------------ synth

    /// the class an expression has on its own (no recording)
    fn synth(&mut self, e: &Ex) -> Cl {
        let saved = self.record;
        self.record = false;
        let c = self.synth_inner(e);
        self.record = saved;
        // an expression of type `!` (a call of a diverging function) fits every context
        if c == Cl::Exact(T::Never) { Cl::Any } else { c }
    }

    fn synth_block(&mut self, b: &Blk) -> Cl {
        self.scopes.push(Scope { vars: vec![], imports: HashMap::new() });
        let c = self.synth_block_inner(b);
        self.scopes.pop();
        c
    }

    fn synth_block_inner(&mut self, b: &Blk) -> Cl {
        self.block_imports(b);
        let mut div = false;
        for s in &b.stmts {
            match s {
                St::Let(n, t, x, _) => {
                    let ty = match t {
                        Some(t) => {
                            let mut errs = vec![];
                            Some(ty_of(self.w, self.module, &[], t, &mut errs))
                        }
                        None => self.synth(x).exact().cloned(),
                    };
                    div |= diverges_expr(x);
                    self.scopes.last_mut().unwrap().vars.push((n.name.clone(), ty));
                }
                St::Expr(x, _) => div |= diverges_expr(x),
            }
        }
        match &b.tail {
            Some(t) => self.synth_inner(t),
            None if div => Cl::Any,
            None => Cl::Exact(T::Unit),
        }
    }

    fn block_imports(&mut self, b: &Blk) {
        for (p, _) in &b.imports {
            let li = self.local_imports();
            match resolve_item(self.w, self.module, &li, p) {
                Some(r) => {
                    self.scopes.last_mut().unwrap().imports.insert(p.last().unwrap().name.clone(), r);
                }
                None => self.err("block import unresolved"),
            }
        }
    }

    fn join(&mut self, cs: Vec<Cl>) -> Cl {
        // the first exact class wins, then the first informative one
        if let Some(c) = cs.iter().find(|c| matches!(c, Cl::Exact(_))) {
            return c.clone();
        }
        cs.into_iter().find(|c| *c != Cl::Any).unwrap_or(Cl::Any)
    }

    fn synth_inner(&mut self, e: &Ex) -> Cl {
        match &e.k {
            EK::Int(s) => match prim(s) {
                Some(t) => Cl::Exact(t),
                None => Cl::Int,
            },
            EK::Float(s) => match prim(s) {
                Some(t) => Cl::Exact(t),
                None => Cl::Float,
            },
            EK::Bool => Cl::Exact(T::P("bool")),
            EK::Char => Cl::Exact(T::P("char")),
            EK::Str | EK::FStr(_) => Cl::Exact(T::P("String")),
            EK::Unit => Cl::Exact(T::Unit),
            EK::Path(segs) => match self.resolve(segs) {
                PathRes::Value(t, used) => match self.fields(t, &segs[used..]) {
                    Some(t) => Cl::Exact(t),
                    // a variable this model could not type (see `let` without annotation)
                    None => Cl::Any,
                },
                PathRes::Ctor(ek, v) => self.ctor_class_of(&ek, &v, &[]),
                _ => {
                    self.err(format!("unresolved path {}", segs.iter().map(|s| s.name.as_str()).collect::<Vec<_>>().join(".")));
                    Cl::Any
                }
            },
            EK::Call(callee, args, _) => self.synth_call(callee, args),
            EK::Field(x, f) => match self.synth(x).exact().and_then(|t| self.w.field_ty(t, &f.name)) {
                Some(t) => Cl::Exact(t),
                None => Cl::Any,
            },
            EK::Neg(x) => match self.synth(x) {
                Cl::Exact(t) => Cl::Exact(t),
                Cl::Int => Cl::Int,
                Cl::Float => Cl::Float,
                _ => Cl::Num,
            },
            EK::Not(_) => Cl::Exact(T::P("bool")),
            EK::Bin(op, l, r) => {
                if !op.is_arith() {
                    return Cl::Exact(T::P("bool"));
                }
                let (a, b) = (self.synth(l), self.synth(r));
                self.join(vec![a, b])
            }
            EK::If(_, t, Some(f)) => {
                let mut cs = vec![];
                if !diverges_block(t) {
                    cs.push(self.synth_block(t));
                }
                if !diverges_block(f) {
                    cs.push(self.synth_block(f));
                }
                self.join(cs)
            }
            EK::If(_, _, None) | EK::While(..) | EK::For(..) | EK::Assign(..) | EK::Compound(..) => Cl::Exact(T::Unit),
            EK::Match(x, arms, _) => {
                let st = self.synth(x).exact().cloned();
                let variants = st.as_ref().and_then(|t| self.w.variants_of(t));
                let mut cs = vec![];
                for a in arms {
                    if diverges_block(&a.body) {
                        continue;
                    }
                    self.scopes.push(Scope { vars: self.arm_binds(a, &variants), imports: HashMap::new() });
                    cs.push(self.synth_block(&a.body));
                    self.scopes.pop();
                }
                self.join(cs)
            }
            EK::Ret(..) => Cl::Any,
            EK::Try(x) => match self.synth(x) {
                Cl::Exact(T::App(n, a)) if n == "Option" && a.len() == 1 => Cl::Exact(a[0].clone()),
                Cl::OptOf(c) => *c,
                _ => Cl::Any,
            },
            EK::Rec(Some(p), _, _) => {
                let li = self.local_imports();
                match resolve_item(self.w, self.module, &li, p) {
                    Some(ItemRef::Rec(k)) if self.w.recs[&k].tparams.is_empty() => Cl::Exact(T::App(k, vec![])),
                    Some(ItemRef::Rec(k)) => Cl::AppNamed(k),
                    _ => {
                        self.err("record literal of an unknown type");
                        Cl::Any
                    }
                }
            }
            EK::Rec(None, fs, _) => {
                let mut out = vec![];
                for (n, x) in fs {
                    match self.synth(x) {
                        Cl::Exact(t) => out.push((n.name.clone(), t)),
                        _ => return Cl::Any,
                    }
                }
                Cl::Exact(T::anon(out))
            }
            EK::List(xs) => {
                let cs: Vec<Cl> = xs.iter().map(|x| self.synth(x)).collect();
                match self.join(cs) {
                    Cl::Exact(t) => Cl::Exact(T::list(t)),
                    c => Cl::ListOf(Box::new(c)),
                }
            }
            EK::Block(b) => {
                if diverges_block(b) && b.tail.is_none() {
                    Cl::Any
                } else {
                    self.synth_block(b)
                }
            }
        }
    }

    fn ctor_class_of(&mut self, ek: &str, variant: &str, args: &[Ex]) -> Cl {
        let Some(e) = self.w.enums.get(ek) else { return Cl::Any };
        if e.tparams.is_empty() {
            return Cl::Exact(T::App(ek.to_string(), vec![]));
        }
        if ek == "Option" {
            return match (variant, args) {
                ("Some", [x]) => match self.synth(x) {
                    Cl::Exact(t) => Cl::Exact(T::opt(t)),
                    c => Cl::OptOf(Box::new(c)),
                },
                _ => Cl::OptOf(Box::new(Cl::Any)),
            };
        }
        Cl::AppNamed(ek.to_string())
    }

    fn arm_binds(&self, a: &Arm, variants: &Option<Vec<(String, Vec<T>)>>) -> Vec<(String, Option<T>)> {
        let mut out = vec![];
        if let (Some(v), Some((binds, _))) = (&a.variant, &a.binds) {
            let fts = variants.as_ref().and_then(|vs| vs.iter().find(|(n, _)| *n == v.name)).map(|(_, f)| f.clone());
            for (i, b) in binds.iter().enumerate() {
                out.push((b.name.clone(), fts.as_ref().and_then(|f| f.get(i).cloned())));
            }
        }
        out
    }

    /// receiver type and method name of a path-form method call `x.a.m(...)`
    fn path_method(&mut self, segs: &[Seg]) -> Option<(Option<T>, String, usize)> {
        if segs.len() < 2 {
            return None;
        }
        if let PathRes::Value(t, used) = self.resolve(segs) {
            if used < segs.len() {
                let recv = self.fields(t, &segs[used..segs.len() - 1]);
                return Some((recv, segs.last().unwrap().name.clone(), used));
            }
        }
        None
    }

    fn synth_call(&mut self, callee: &Callee, args: &[Ex]) -> Cl {
        match callee {
            Callee::Method(recv, m) => {
                let rt = self.synth(recv).exact().cloned();
                match rt.and_then(|t| self.w.method_sig(&t, &m.name)) {
                    Some((_, ret)) => Cl::Exact(ret),
                    None => Cl::Any,
                }
            }
            Callee::Path(segs) => {
                if let Some((recv, m, _)) = self.path_method(segs) {
                    return match recv.and_then(|t| self.w.method_sig(&t, &m)) {
                        Some((_, ret)) => Cl::Exact(ret),
                        None => Cl::Any,
                    };
                }
                match self.resolve(segs) {
                    PathRes::Fn(k) => match (&self.w.fns[&k].ret, self.w.fm_verdict.get(&k)) {
                        (Some(t), _) => Cl::Exact(t.clone()),
                        (None, Some(t)) => Cl::Exact(t.clone()),
                        (None, None) => Cl::AppNamed("Verdict".into()),
                    },
                    PathRes::Ctor(ek, v) => self.ctor_class_of(&ek, &v, args),
                    _ => {
                        self.err(format!("unresolved callee {}", segs.iter().map(|s| s.name.as_str()).collect::<Vec<_>>().join(".")));
                        Cl::Any
                    }
                }
            }
        }
    }

    // ------------------------------------------------------------ walk

    fn rec_info(&mut self, e: &Ex, req: &Cl) {
        let selfty = self.synth(e);
        if let EK::Ret(kind, Some(x)) = &e.k {
            let c = self.synth(x);
            if !self.record {
                self.ret_classes.push((e.id, *kind, c));
            }
        }
        if self.record {
            let vars = Rc::new(self.visible_vars());
            self.info.insert(e.id, Info { req: req.clone(), selfty, vars, fnk: self.fnk.clone(), file: self.file });
        }
    }

    fn block(&mut self, b: &Blk, req: &Cl) {
        self.scopes.push(Scope { vars: vec![], imports: HashMap::new() });
        self.block_inner(b, req);
        self.scopes.pop();
    }

    fn block_inner(&mut self, b: &Blk, req: &Cl) {
        self.block_imports(b);
        for s in &b.stmts {
            match s {
                St::Let(n, t, x, _) => {
                    let ty = match t {
                        Some(t) => {
                            let mut errs = vec![];
                            let ty = ty_of(self.w, self.module, &[], t, &mut errs);
                            for e in errs {
                                self.err(e);
                            }
                            Some(ty)
                        }
                        None => {
                            // no annotation and no exact type (an unsuffixed literal):
                            // the variable stays untyped in this model (fewer mutants, never wrong ones)
                            self.synth(x).exact().cloned()
                        }
                    };
                    let req = match (t, &ty) {
                        (Some(_), Some(t)) => Cl::Exact(t.clone()),
                        _ => Cl::Any,
                    };
                    self.walk(x, req);
                    self.scopes.last_mut().unwrap().vars.push((n.name.clone(), ty));
                }
                St::Expr(x, _) => self.walk(x, Cl::Any),
            }
        }
        if let Some(t) = &b.tail {
            self.walk(t, req.clone());
        }
    }

    /// the requirement on one of several alternatives (branches, arms,
    /// elements): the context's, or else what the other alternatives are
    fn alt_req(&mut self, req: &Cl, others: Vec<Cl>) -> Cl {
        if req.exact().is_some() {
            return req.clone();
        }
        let mut c = req.clone();
        for o in others {
            c = c.and(o);
        }
        c
    }

    fn walk(&mut self, e: &Ex, req: Cl) {
        self.rec_info(e, &req);
        let boolc = Cl::Exact(T::P("bool"));
        match &e.k {
            EK::Int(_) | EK::Float(_) | EK::Bool | EK::Char | EK::Str | EK::Unit | EK::Path(_) => {}
            EK::FStr(parts) => {
                for p in parts {
                    self.walk(p, Cl::HasMethod("to_string".into()));
                }
            }
            EK::Neg(x) => self.walk(x, req.and(Cl::Num)),
            EK::Not(x) => self.walk(x, boolc),
            EK::Bin(op, l, r) => {
                let (sl, sr) = (self.synth(l), self.synth(r));
                match op {
                    Op::And | Op::Or => {
                        self.walk(l, boolc.clone());
                        self.walk(r, boolc);
                    }
                    Op::Eq | Op::Ne => {
                        self.walk(l, sr);
                        self.walk(r, sl);
                    }
                    Op::Lt | Op::Le | Op::Gt | Op::Ge => {
                        self.walk(l, Cl::Num.and(sr));
                        self.walk(r, Cl::Num.and(sl));
                    }
                    _ => {
                        let base = match op {
                            Op::Add => Cl::Addable,
                            Op::Mod => Cl::Int,
                            _ => Cl::Num,
                        };
                        self.walk(l, req.clone().and(base.clone()).and(sr));
                        self.walk(r, req.and(base).and(sl));
                    }
                }
            }
            EK::If(c, t, f) => {
                self.walk(c, boolc);
                match f {
                    None => self.block(t, &Cl::Exact(T::Unit)),
                    Some(f) => {
                        let st = if diverges_block(t) { Cl::Any } else { self.synth_block(t) };
                        let sf = if diverges_block(f) { Cl::Any } else { self.synth_block(f) };
                        let rt = self.alt_req(&req, vec![sf]);
                        let rf = self.alt_req(&req, vec![st]);
                        self.block(t, &rt);
                        if f.synthetic {
                            // `else if`: the nested if is the whole else-branch
                            self.block_inner(f, &rf);
                        } else {
                            self.block(f, &rf);
                        }
                    }
                }
            }
            EK::Match(x, arms, _) => {
                let names: Vec<String> = arms.iter().filter_map(|a| a.variant.as_ref().map(|v| v.name.clone())).collect();
                self.walk(x, Cl::HasVariants(names));
                let st = self.synth(x).exact().cloned();
                let variants = st.as_ref().and_then(|t| self.w.variants_of(t));
                match &variants {
                    Some(vs) => {
                        if self.record {
                            self.match_variants.insert(e.id, vs.iter().map(|(n, f)| (n.clone(), f.len())).collect());
                        }
                    }
                    None => self.err("match on a scrutinee of unknown enum type"),
                }
                let mut classes = vec![];
                for a in arms {
                    if diverges_block(&a.body) {
                        classes.push(Cl::Any);
                        continue;
                    }
                    self.scopes.push(Scope { vars: self.arm_binds(a, &variants), imports: HashMap::new() });
                    classes.push(self.synth_block(&a.body));
                    self.scopes.pop();
                }
                for (i, a) in arms.iter().enumerate() {
                    if let Some((bs, _)) = &a.binds {
                        for (seg, (_, t)) in bs.iter().zip(self.arm_binds(a, &variants)) {
                            if let Some(t) = t {
                                self.decl_ty.insert((self.file, seg.sp.s), t);
                            }
                        }
                    }
                    self.scopes.push(Scope { vars: self.arm_binds(a, &variants), imports: HashMap::new() });
                    if let Some(g) = &a.guard {
                        self.walk(g, boolc.clone());
                    }
                    let others: Vec<Cl> = classes.iter().enumerate().filter(|(j, _)| *j != i).map(|(_, c)| c.clone()).collect();
                    let r = self.alt_req(&req, others);
                    if a.body.synthetic {
                        self.block_inner(&a.body, &r);
                    } else {
                        self.block(&a.body, &r);
                    }
                    self.scopes.pop();
                }
            }
            EK::While(c, b) => {
                self.walk(c, boolc);
                self.block(b, &Cl::Exact(T::Unit));
            }
            EK::For(v, l, b) => {
                self.walk(l, Cl::ListOf(Box::new(Cl::Any)));
                let el = match self.synth(l) {
                    Cl::Exact(T::App(n, a)) if n == "List" && a.len() == 1 => Some(a[0].clone()),
                    _ => None,
                };
                if let Some(t) = &el {
                    self.decl_ty.insert((self.file, v.sp.s), t.clone());
                }
                // the loop variable lives in the body's own scope
                self.scopes.push(Scope { vars: vec![(v.name.clone(), el)], imports: HashMap::new() });
                self.block_inner(b, &Cl::Exact(T::Unit));
                self.scopes.pop();
            }
            EK::Ret(kind, x) => {
                let Some(x) = x else { return };
                let r = match (&self.fnk, kind) {
                    (FnK::Fn(t), RetKind::Return) => Cl::Exact(t.clone()),
                    (FnK::Fn(T::App(n, a)), RetKind::Accept) if n == "Verdict" && a.len() == 2 => Cl::Exact(a[0].clone()),
                    (FnK::Fn(T::App(n, a)), RetKind::Reject) if n == "Verdict" && a.len() == 2 => Cl::Exact(a[1].clone()),
                    (FnK::Filtermap, RetKind::Accept | RetKind::Reject) => {
                        let mut c = Cl::Any;
                        for (id, k, cl) in self.ret_classes.clone() {
                            if id != e.id && k == *kind {
                                c = c.and(cl);
                            }
                        }
                        c
                    }
                    (FnK::Filtermap, RetKind::Return) => Cl::AppNamed("Verdict".into()),
                    (FnK::Test, _) => Cl::Exact(T::Unit),
                    _ => Cl::Any,
                };
                self.walk(x, r);
            }
            EK::Try(x) => self.walk(x, Cl::OptOf(Box::new(req))),
            EK::Field(x, f) => self.walk(x, Cl::HasField(f.name.clone())),
            EK::List(xs) => {
                let el = match &req {
                    Cl::Exact(T::App(n, a)) if n == "List" && a.len() == 1 => Some(Cl::Exact(a[0].clone())),
                    Cl::ListOf(c) if **c != Cl::Any => Some((**c).clone()),
                    _ => None,
                };
                let classes: Vec<Cl> = xs.iter().map(|x| self.synth(x)).collect();
                for (i, x) in xs.iter().enumerate() {
                    let r = match &el {
                        Some(c) => c.clone(),
                        None => {
                            let mut c = Cl::Any;
                            for (j, o) in classes.iter().enumerate() {
                                if j != i {
                                    c = c.and(o.clone());
                                }
                            }
                            c
                        }
                    };
                    self.walk(x, r);
                }
            }
            EK::Block(b) => self.block(b, &req),
            EK::Assign(path, x) | EK::Compound(path, _, x) => {
                let t = match self.resolve(path) {
                    PathRes::Value(t, used) => self.fields(t, &path[used..]),
                    _ => None,
                };
                match t {
                    Some(t) => self.walk(x, Cl::Exact(t)),
                    None => {
                        self.err("assignment to an untyped target");
                        self.walk(x, Cl::Any)
                    }
                }
            }
            EK::Rec(name, fs, _) => {
                let decl: Option<Vec<(String, T)>> = match name {
                    Some(p) => {
                        let li = self.local_imports();
                        match resolve_item(self.w, self.module, &li, p) {
                            Some(ItemRef::Rec(k)) => {
                                let r = &self.w.recs[&k];
                                if r.tparams.is_empty() {
                                    Some(r.fields.clone())
                                } else {
                                    match req.exact() {
                                        Some(T::App(n, args)) if *n == k => {
                                            let m: Vec<(String, T)> = r.tparams.iter().cloned().zip(args.iter().cloned()).collect();
                                            Some(r.fields.iter().map(|(n, t)| (n.clone(), t.subst(&m))).collect())
                                        }
                                        _ => None,
                                    }
                                }
                            }
                            _ => None,
                        }
                    }
                    None => match req.exact() {
                        Some(T::Anon(fs)) => Some(fs.clone()),
                        Some(t @ T::App(..)) => {
                            let names: Vec<String> = fs.iter().map(|(n, _)| n.name.clone()).collect();
                            let tys: Option<Vec<(String, T)>> =
                                names.iter().map(|n| self.w.field_ty(t, n).map(|t| (n.clone(), t))).collect();
                            tys
                        }
                        _ => None,
                    },
                };
                for (n, x) in fs {
                    let r = match decl.as_ref().and_then(|d| d.iter().find(|(f, _)| *f == n.name)) {
                        Some((_, t)) if !t.has_tv() => Cl::Exact(t.clone()),
                        _ => Cl::Any,
                    };
                    self.walk(x, r);
                }
            }
            EK::Call(callee, args, _) => {
                let mut params: Option<Vec<T>> = None;
                match callee {
                    Callee::Method(recv, m) => {
                        self.walk(recv, Cl::HasMethod(m.name.clone()));
                        let rt = self.synth(recv).exact().cloned();
                        params = rt.and_then(|t| self.w.method_sig(&t, &m.name)).map(|(p, _)| p);
                        if params.is_none() {
                            self.err(format!("unmodelled method {}", m.name));
                        }
                    }
                    Callee::Path(segs) => {
                        if let Some((recv, m, _)) = self.path_method(segs) {
                            params = recv.and_then(|t| self.w.method_sig(&t, &m)).map(|(p, _)| p);
                            if params.is_none() {
                                self.err(format!("unmodelled method {m}"));
                            }
                        } else {
                            match self.resolve(segs) {
                                PathRes::Fn(k) => params = Some(self.w.fns[&k].params.clone()),
                                PathRes::Ctor(ek, v) => {
                                    let e_info = self.w.enums.get(&ek);
                                    let targs: Option<Vec<T>> = match req.exact() {
                                        Some(T::App(n, a)) if *n == ek => Some(a.clone()),
                                        _ => None,
                                    };
                                    if let Some(ei) = e_info {
                                        if let Some((_, fts)) = ei.variants.iter().find(|(n, _)| *n == v) {
                                            let m: Vec<(String, T)> = match &targs {
                                                Some(a) => ei.tparams.iter().cloned().zip(a.iter().cloned()).collect(),
                                                None => vec![],
                                            };
                                            params = Some(fts.iter().map(|t| t.subst(&m)).collect());
                                        } else {
                                            self.err(format!("unknown variant {v}"));
                                        }
                                    }
                                    // `Option.Some(x)` under a class `Option[c]`
                                    if ek == "Option" && targs.is_none() {
                                        if let (Cl::OptOf(c), [x]) = (&req, &args[..]) {
                                            self.walk(x, (**c).clone());
                                            return;
                                        }
                                    }
                                }
                                _ => self.err("call of an unresolved path"),
                            }
                        }
                    }
                }
                for (i, a) in args.iter().enumerate() {
                    let r = match params.as_ref().and_then(|p| p.get(i)) {
                        Some(t) if !t.has_tv() => Cl::Exact(t.clone()),
                        _ => Cl::Any,
                    };
                    self.walk(a, r);
                }
            }
        }
    }
}
