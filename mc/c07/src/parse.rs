//! Parser for the Roto subset of the seeds, mirroring the structure of roto's
//! own grammar (statement forms of `if`/`match`/`while`/`for`, no record
//! literal in conditions, paths `a.b.c`), with a byte span on every node.

use crate::lex::{Tk, Tok, lex};

#[derive(Clone, Copy, Debug, PartialEq, Eq)]
pub struct Sp {
    pub s: usize,
    pub e: usize,
}

#[derive(Clone, Debug)]
pub struct Seg {
    pub name: String,
    pub sp: Sp,
}

#[derive(Clone, Copy, Debug, PartialEq, Eq)]
pub enum Op {
    Add,
    Sub,
    Mul,
    Div,
    Mod,
    Eq,
    Ne,
    Lt,
    Le,
    Gt,
    Ge,
    And,
    Or,
}

impl Op {
    pub fn is_arith(self) -> bool {
        matches!(self, Op::Add | Op::Sub | Op::Mul | Op::Div | Op::Mod)
    }
    pub fn is_order(self) -> bool {
        matches!(self, Op::Lt | Op::Le | Op::Gt | Op::Ge)
    }
    fn prec(self) -> u8 {
        match self {
            Op::Or => 1,
            Op::And => 2,
            Op::Eq | Op::Ne | Op::Lt | Op::Le | Op::Gt | Op::Ge => 3,
            Op::Add | Op::Sub => 4,
            Op::Mul | Op::Div | Op::Mod => 5,
        }
    }
}

#[derive(Clone, Copy, Debug, PartialEq, Eq)]
pub enum RetKind {
    Return,
    Accept,
    Reject,
}

#[derive(Clone, Debug)]
pub enum TyEx {
    Path(Vec<Seg>, Vec<TyEx>, Sp),
    Opt(Box<TyEx>, Sp),
    Anon(Vec<(Seg, TyEx)>, Sp),
    Unit(Sp),
    Never(Sp),
}

impl TyEx {
    pub fn sp(&self) -> Sp {
        match self {
            TyEx::Path(_, _, s) | TyEx::Opt(_, s) | TyEx::Anon(_, s) | TyEx::Unit(s) | TyEx::Never(s) => *s,
        }
    }
}

#[derive(Clone, Debug)]
pub struct Ex {
    pub id: usize,
    pub sp: Sp,
    pub k: EK,
}

#[derive(Clone, Debug)]
pub enum Callee {
    Path(Vec<Seg>),
    Method(Box<Ex>, Seg),
}

#[derive(Clone, Debug)]
pub struct Arm {
    /// None = `_`
    pub variant: Option<Seg>,
    /// binding names; `None` = no parentheses at all
    pub binds: Option<(Vec<Seg>, Sp)>,
    pub pat_sp: Sp,
    pub guard: Option<Ex>,
    pub body: Blk,
    /// pattern start .. after the trailing comma
    pub sp: Sp,
}

#[derive(Clone, Debug)]
pub enum EK {
    Int(String),
    Float(String),
    Bool,
    Char,
    Str,
    Unit,
    FStr(Vec<Ex>),
    Path(Vec<Seg>),
    /// callee, arguments, span of the parenthesised argument list
    Call(Callee, Vec<Ex>, Sp),
    Field(Box<Ex>, Seg),
    Neg(Box<Ex>),
    Not(Box<Ex>),
    Bin(Op, Box<Ex>, Box<Ex>),
    If(Box<Ex>, Blk, Option<Blk>),
    Match(Box<Ex>, Vec<Arm>, Sp),
    While(Box<Ex>, Blk),
    For(Seg, Box<Ex>, Blk),
    Ret(RetKind, Option<Box<Ex>>),
    Try(Box<Ex>),
    /// type path (None = anonymous), fields, span of the braces
    Rec(Option<Vec<Seg>>, Vec<(Seg, Ex)>, Sp),
    List(Vec<Ex>),
    Block(Blk),
    Assign(Vec<Seg>, Box<Ex>),
    Compound(Vec<Seg>, Op, Box<Ex>),
}

#[derive(Clone, Debug)]
pub struct Blk {
    pub imports: Vec<(Vec<Seg>, Sp)>,
    pub stmts: Vec<St>,
    pub tail: Option<Box<Ex>>,
    pub sp: Sp,
    /// not written with braces (`else if`, match arm body without block)
    pub synthetic: bool,
}

#[derive(Clone, Debug)]
pub enum St {
    /// name, annotation, initialiser, span of the statement including `;`
    Let(Seg, Option<TyEx>, Ex, Sp),
    Expr(Ex, Sp),
}

impl St {
    pub fn sp(&self) -> Sp {
        match self {
            St::Let(_, _, _, s) | St::Expr(_, s) => *s,
        }
    }
}

#[derive(Clone, Debug)]
pub struct FnDecl {
    pub name: Seg,
    pub params: Vec<(Seg, TyEx)>,
    pub params_sp: Sp,
    pub ret: Option<TyEx>,
    pub body: Blk,
    pub filtermap: bool,
    pub sp: Sp,
}

#[derive(Clone, Debug)]
pub struct RecDecl {
    pub name: Seg,
    pub tparams: Vec<Seg>,
    pub fields: Vec<(Seg, TyEx)>,
    pub braces: Sp,
    pub sp: Sp,
}

#[derive(Clone, Debug)]
pub struct EnumDecl {
    pub name: Seg,
    pub tparams: Vec<Seg>,
    /// name, payload types, span of the whole variant
    pub variants: Vec<(Seg, Vec<TyEx>, Sp)>,
    pub braces: Sp,
    pub sp: Sp,
}

#[derive(Clone, Debug)]
pub struct ConstDecl {
    pub name: Seg,
    pub ty: TyEx,
    pub init: Ex,
    pub sp: Sp,
}

#[derive(Clone, Debug)]
pub enum Item {
    Fn(FnDecl),
    Rec(RecDecl),
    Enum(EnumDecl),
    Const(ConstDecl),
    Import(Vec<Seg>, Sp),
    Test(Seg, Blk, Sp),
}

pub struct Parser {
    toks: Vec<Tok>,
    i: usize,
    src: String,
    pub next_id: usize,
}

type R<T> = Result<T, String>;

pub fn parse_file(src: &str, first_id: usize) -> R<(Vec<Item>, usize)> {
    let toks = lex(src, 0)?;
    let mut p = Parser { toks, i: 0, src: src.to_string(), next_id: first_id };
    let mut items = vec![];
    while p.peek() != &Tk::Eof {
        items.push(p.item()?);
    }
    Ok((items, p.next_id))
}

impl Parser {
    fn peek(&self) -> &Tk {
        &self.toks[self.i].k
    }
    fn peek_at(&self, n: usize) -> &Tk {
        &self.toks[(self.i + n).min(self.toks.len() - 1)].k
    }
    fn tok(&self) -> &Tok {
        &self.toks[self.i]
    }
    fn bump(&mut self) -> Tok {
        let t = self.toks[self.i].clone();
        if self.i + 1 < self.toks.len() {
            self.i += 1;
        }
        t
    }
    fn is_p(&self, p: &str) -> bool {
        matches!(self.peek(), Tk::P(q) if *q == p)
    }
    fn is_kw(&self, k: &str) -> bool {
        matches!(self.peek(), Tk::Kw(q) if *q == k)
    }
    fn eat_p(&mut self, p: &str) -> bool {
        if self.is_p(p) {
            self.bump();
            true
        } else {
            false
        }
    }
    fn take_p(&mut self, p: &str) -> R<Tok> {
        if self.is_p(p) {
            Ok(self.bump())
        } else {
            Err(format!("expected `{p}` at {} got {:?} (…{})", self.tok().s, self.peek(), self.ctx()))
        }
    }
    fn take_kw(&mut self, k: &str) -> R<Tok> {
        if self.is_kw(k) {
            Ok(self.bump())
        } else {
            Err(format!("expected `{k}` at {} got {:?}", self.tok().s, self.peek()))
        }
    }
    fn ctx(&self) -> String {
        let s = self.tok().s;
        self.src[s..].chars().take(30).collect()
    }
    fn ident(&mut self) -> R<Seg> {
        match self.peek().clone() {
            Tk::Ident(n) => {
                let t = self.bump();
                Ok(Seg { name: n, sp: Sp { s: t.s, e: t.e } })
            }
            o => Err(format!("expected identifier at {} got {o:?} (…{})", self.tok().s, self.ctx())),
        }
    }
    fn path_item(&mut self) -> R<Seg> {
        match self.peek().clone() {
            Tk::Kw(k @ ("pkg" | "super" | "dep" | "std")) => {
                let t = self.bump();
                Ok(Seg { name: k.to_string(), sp: Sp { s: t.s, e: t.e } })
            }
            _ => self.ident(),
        }
    }
    fn path(&mut self) -> R<Vec<Seg>> {
        let mut v = vec![self.path_item()?];
        while self.is_p(".") {
            self.bump();
            v.push(self.path_item()?);
        }
        Ok(v)
    }
    fn mk(&mut self, s: usize, e: usize, k: EK) -> Ex {
        let id = self.next_id;
        self.next_id += 1;
        Ex { id, sp: Sp { s, e }, k }
    }

    // ---------------------------------------------------------------- items

    fn item(&mut self) -> R<Item> {
        let s = self.tok().s;
        match self.peek().clone() {
            Tk::Kw("fn") | Tk::Kw("filtermap") | Tk::Kw("filter") => {
                let filtermap = !self.is_kw("fn");
                self.bump();
                let name = self.ident()?;
                let lp = self.take_p("(")?;
                let mut params = vec![];
                while !self.is_p(")") {
                    let n = self.ident()?;
                    self.take_p(":")?;
                    let t = self.ty()?;
                    params.push((n, t));
                    if !self.eat_p(",") {
                        break;
                    }
                }
                let rp = self.take_p(")")?;
                let ret = if !filtermap && self.eat_p("->") { Some(self.ty()?) } else { None };
                let body = self.block()?;
                let e = body.sp.e;
                Ok(Item::Fn(FnDecl { name, params, params_sp: Sp { s: lp.s, e: rp.e }, ret, body, filtermap, sp: Sp { s, e } }))
            }
            Tk::Kw("record") => {
                self.bump();
                let name = self.ident()?;
                let tparams = self.tparams()?;
                let lb = self.take_p("{")?;
                let mut fields = vec![];
                while !self.is_p("}") {
                    let n = self.ident()?;
                    self.take_p(":")?;
                    let t = self.ty()?;
                    fields.push((n, t));
                    if !self.eat_p(",") {
                        break;
                    }
                }
                let rb = self.take_p("}")?;
                Ok(Item::Rec(RecDecl { name, tparams, fields, braces: Sp { s: lb.s, e: rb.e }, sp: Sp { s, e: rb.e } }))
            }
            Tk::Kw("enum") => {
                self.bump();
                let name = self.ident()?;
                let tparams = self.tparams()?;
                let lb = self.take_p("{")?;
                let mut variants = vec![];
                while !self.is_p("}") {
                    let n = self.ident()?;
                    let mut e = n.sp.e;
                    let mut tys = vec![];
                    if self.eat_p("(") {
                        while !self.is_p(")") {
                            tys.push(self.ty()?);
                            if !self.eat_p(",") {
                                break;
                            }
                        }
                        e = self.take_p(")")?.e;
                    }
                    let vs = n.sp.s;
                    variants.push((n, tys, Sp { s: vs, e }));
                    if !self.eat_p(",") {
                        break;
                    }
                }
                let rb = self.take_p("}")?;
                Ok(Item::Enum(EnumDecl { name, tparams, variants, braces: Sp { s: lb.s, e: rb.e }, sp: Sp { s, e: rb.e } }))
            }
            Tk::Kw("const") => {
                self.bump();
                let name = self.ident()?;
                self.take_p(":")?;
                let ty = self.ty()?;
                self.take_p("=")?;
                let init = self.expr(false)?;
                let e = self.take_p(";")?.e;
                Ok(Item::Const(ConstDecl { name, ty, init, sp: Sp { s, e } }))
            }
            Tk::Kw("import") => {
                self.bump();
                let p = self.path()?;
                let e = self.take_p(";")?.e;
                Ok(Item::Import(p, Sp { s, e }))
            }
            Tk::Kw("test") => {
                self.bump();
                let name = self.ident()?;
                let body = self.block()?;
                let e = body.sp.e;
                Ok(Item::Test(name, body, Sp { s, e }))
            }
            o => Err(format!("expected an item at {s}, got {o:?}")),
        }
    }

    fn tparams(&mut self) -> R<Vec<Seg>> {
        let mut v = vec![];
        if self.eat_p("[") {
            while !self.is_p("]") {
                v.push(self.ident()?);
                if !self.eat_p(",") {
                    break;
                }
            }
            self.take_p("]")?;
        }
        Ok(v)
    }

    pub fn ty(&mut self) -> R<TyEx> {
        let mut t = self.ty_atom()?;
        while self.is_p("?") {
            let q = self.bump();
            let s = t.sp().s;
            t = TyEx::Opt(Box::new(t), Sp { s, e: q.e });
        }
        Ok(t)
    }

    fn ty_atom(&mut self) -> R<TyEx> {
        let s = self.tok().s;
        if self.is_p("!") {
            let t = self.bump();
            return Ok(TyEx::Never(Sp { s, e: t.e }));
        }
        if self.eat_p("(") {
            let e = self.take_p(")")?.e;
            return Ok(TyEx::Unit(Sp { s, e }));
        }
        if self.eat_p("{") {
            let mut fields = vec![];
            while !self.is_p("}") {
                let n = self.ident()?;
                self.take_p(":")?;
                fields.push((n, self.ty()?));
                if !self.eat_p(",") {
                    break;
                }
            }
            let e = self.take_p("}")?.e;
            return Ok(TyEx::Anon(fields, Sp { s, e }));
        }
        let p = self.path()?;
        let mut e = p.last().unwrap().sp.e;
        let mut args = vec![];
        if self.eat_p("[") {
            while !self.is_p("]") {
                args.push(self.ty()?);
                if !self.eat_p(",") {
                    break;
                }
            }
            e = self.take_p("]")?.e;
        }
        Ok(TyEx::Path(p, args, Sp { s, e }))
    }

    // ---------------------------------------------------------------- blocks

    pub fn block(&mut self) -> R<Blk> {
        let lb = self.take_p("{")?;
        let mut imports = vec![];
        let mut stmts = vec![];
        loop {
            if self.is_p("}") {
                let rb = self.bump();
                return Ok(Blk { imports, stmts, tail: None, sp: Sp { s: lb.s, e: rb.e }, synthetic: false });
            }
            let s = self.tok().s;
            if self.is_kw("import") {
                self.bump();
                let p = self.path()?;
                let e = self.take_p(";")?.e;
                imports.push((p, Sp { s, e }));
            } else if self.is_kw("let") {
                self.bump();
                let n = self.ident()?;
                let t = if self.eat_p(":") { Some(self.ty()?) } else { None };
                self.take_p("=")?;
                let x = self.expr(false)?;
                let e = self.take_p(";")?.e;
                stmts.push(St::Let(n, t, x, Sp { s, e }));
            } else if self.is_kw("if") || self.is_kw("match") || self.is_kw("while") || self.is_kw("for") {
                let x = match self.peek() {
                    Tk::Kw("if") => self.if_else()?,
                    Tk::Kw("match") => self.match_expr()?,
                    Tk::Kw("while") => self.while_expr()?,
                    _ => self.for_expr()?,
                };
                if self.is_p("}") {
                    let rb = self.bump();
                    return Ok(Blk {
                        imports,
                        stmts,
                        tail: Some(Box::new(x)),
                        sp: Sp { s: lb.s, e: rb.e },
                        synthetic: false,
                    });
                }
                let mut e = x.sp.e;
                if self.is_p(";") {
                    e = self.bump().e;
                }
                stmts.push(St::Expr(x, Sp { s, e }));
            } else {
                let x = self.expr(false)?;
                if self.is_p(";") {
                    let e = self.bump().e;
                    stmts.push(St::Expr(x, Sp { s, e }));
                } else {
                    let rb = self.take_p("}")?;
                    return Ok(Blk {
                        imports,
                        stmts,
                        tail: Some(Box::new(x)),
                        sp: Sp { s: lb.s, e: rb.e },
                        synthetic: false,
                    });
                }
            }
        }
    }

    // ---------------------------------------------------------------- expressions

    pub fn expr(&mut self, no_rec: bool) -> R<Ex> {
        let left = self.binop(0, no_rec)?;
        let compound = match self.peek() {
            Tk::P("=") => None,
            Tk::P("+=") => Some(Op::Add),
            Tk::P("-=") => Some(Op::Sub),
            Tk::P("*=") => Some(Op::Mul),
            Tk::P("/=") => Some(Op::Div),
            Tk::P("%=") => Some(Op::Mod),
            _ => return Ok(left),
        };
        self.bump();
        let EK::Path(path) = left.k.clone() else { return Err("assignment to a non-path".into()) };
        let right = self.binop(0, no_rec)?;
        let (s, e) = (left.sp.s, right.sp.e);
        Ok(match compound {
            None => self.mk(s, e, EK::Assign(path, Box::new(right))),
            Some(op) => self.mk(s, e, EK::Compound(path, op, Box::new(right))),
        })
    }

    fn peek_op(&self) -> Option<Op> {
        Some(match self.peek() {
            Tk::P("&&") => Op::And,
            Tk::P("||") => Op::Or,
            Tk::P("==") => Op::Eq,
            Tk::P("!=") => Op::Ne,
            Tk::P("<=") => Op::Le,
            Tk::P(">=") => Op::Ge,
            Tk::P("<") => Op::Lt,
            Tk::P(">") => Op::Gt,
            Tk::P("+") => Op::Add,
            Tk::P("-") => Op::Sub,
            Tk::P("*") => Op::Mul,
            Tk::P("/") => Op::Div,
            Tk::P("%") => Op::Mod,
            _ => return None,
        })
    }

    /// precedence climbing; all operators left-associative (the seeds never
    /// chain comparisons or mix `&&` with `||` without parentheses)
    fn binop(&mut self, min: u8, no_rec: bool) -> R<Ex> {
        let mut lhs = self.negation(no_rec)?;
        while let Some(op) = self.peek_op() {
            if op.prec() <= min {
                break;
            }
            self.bump();
            let rhs = self.binop(op.prec(), no_rec)?;
            let (s, e) = (lhs.sp.s, rhs.sp.e);
            lhs = self.mk(s, e, EK::Bin(op, Box::new(lhs), Box::new(rhs)));
        }
        Ok(lhs)
    }

    fn negation(&mut self, no_rec: bool) -> R<Ex> {
        if self.is_p("!") {
            let t = self.bump();
            let x = self.negation(no_rec)?;
            let e = x.sp.e;
            return Ok(self.mk(t.s, e, EK::Not(Box::new(x))));
        }
        if self.is_p("-") {
            let t = self.bump();
            let x = self.negation(no_rec)?;
            let e = x.sp.e;
            return Ok(self.mk(t.s, e, EK::Neg(Box::new(x))));
        }
        self.access(no_rec)
    }

    fn args(&mut self) -> R<(Vec<Ex>, Sp)> {
        let lp = self.take_p("(")?;
        let mut v = vec![];
        while !self.is_p(")") {
            v.push(self.expr(false)?);
            if !self.eat_p(",") {
                break;
            }
        }
        let rp = self.take_p(")")?;
        Ok((v, Sp { s: lp.s, e: rp.e }))
    }

    fn access(&mut self, no_rec: bool) -> R<Ex> {
        let mut x = self.atom(no_rec)?;
        loop {
            if self.is_p("?") {
                let q = self.bump();
                let s = x.sp.s;
                x = self.mk(s, q.e, EK::Try(Box::new(x)));
            } else if self.is_p("(") {
                let (args, sp) = self.args()?;
                let s = x.sp.s;
                let callee = match x.k {
                    EK::Path(p) => Callee::Path(p),
                    EK::Field(recv, name) => Callee::Method(recv, name),
                    _ => return Err("call of a non-path".into()),
                };
                x = self.mk(s, sp.e, EK::Call(callee, args, sp));
            } else if self.is_p(".") {
                self.bump();
                let f = self.ident()?;
                let (s, e) = (x.sp.s, f.sp.e);
                x = self.mk(s, e, EK::Field(Box::new(x), f));
            } else {
                break;
            }
        }
        Ok(x)
    }

    fn record_fields(&mut self) -> R<(Vec<(Seg, Ex)>, Sp)> {
        let lb = self.take_p("{")?;
        let mut v = vec![];
        while !self.is_p("}") {
            let n = self.ident()?;
            self.take_p(":")?;
            v.push((n, self.expr(false)?));
            if !self.eat_p(",") {
                break;
            }
        }
        let rb = self.take_p("}")?;
        Ok((v, Sp { s: lb.s, e: rb.e }))
    }

    fn atom(&mut self, no_rec: bool) -> R<Ex> {
        let s = self.tok().s;
        match self.peek().clone() {
            Tk::P("(") => {
                self.bump();
                if self.is_p(")") {
                    let e = self.bump().e;
                    return Ok(self.mk(s, e, EK::Unit));
                }
                // parentheses are transparent, but the span of the node covers them
                // (a splice over the node then replaces the parentheses as well)
                let mut x = self.expr(false)?;
                let e = self.take_p(")")?.e;
                x.sp = Sp { s, e };
                Ok(x)
            }
            Tk::P("[") => {
                self.bump();
                let mut v = vec![];
                while !self.is_p("]") {
                    v.push(self.expr(false)?);
                    if !self.eat_p(",") {
                        break;
                    }
                }
                let e = self.take_p("]")?.e;
                Ok(self.mk(s, e, EK::List(v)))
            }
            Tk::P("{") => {
                let anon = matches!(self.peek_at(1), Tk::P("}"))
                    || (matches!(self.peek_at(1), Tk::Ident(_)) && matches!(self.peek_at(2), Tk::P(":")));
                if anon {
                    let (fs, sp) = self.record_fields()?;
                    Ok(self.mk(sp.s, sp.e, EK::Rec(None, fs, sp)))
                } else {
                    let b = self.block()?;
                    let sp = b.sp;
                    Ok(self.mk(sp.s, sp.e, EK::Block(b)))
                }
            }
            Tk::Kw(k @ ("return" | "accept" | "reject")) => {
                let t = self.bump();
                let kind = match k {
                    "return" => RetKind::Return,
                    "accept" => RetKind::Accept,
                    _ => RetKind::Reject,
                };
                // the same start set as roto's `can_start_expression`
                let starts = match self.peek() {
                    Tk::P("(" | "{" | "[" | "!" | "-") | Tk::Ident(_) | Tk::Bool(_) | Tk::Int(..) | Tk::Float(..) | Tk::Str => true,
                    _ => false,
                };
                if starts {
                    let x = self.expr(false)?;
                    let e = x.sp.e;
                    Ok(self.mk(s, e, EK::Ret(kind, Some(Box::new(x)))))
                } else {
                    Ok(self.mk(s, t.e, EK::Ret(kind, None)))
                }
            }
            Tk::Kw("if") => self.if_else(),
            Tk::Kw("match") => self.match_expr(),
            Tk::Kw("while") => self.while_expr(),
            Tk::Kw("for") => self.for_expr(),
            Tk::Ident(_) | Tk::Kw("pkg" | "super" | "std" | "dep") => {
                let p = self.path()?;
                let (ps, pe) = (p[0].sp.s, p.last().unwrap().sp.e);
                if !no_rec && self.is_p("{") {
                    let (fs, sp) = self.record_fields()?;
                    Ok(self.mk(ps, sp.e, EK::Rec(Some(p), fs, sp)))
                } else {
                    Ok(self.mk(ps, pe, EK::Path(p)))
                }
            }
            Tk::FStr(parts) => {
                let t = self.bump();
                let mut exprs = vec![];
                for (ps, pe) in parts {
                    let toks = lex(&self.src[ps..pe], ps)?;
                    let mut sub = Parser { toks, i: 0, src: self.src.clone(), next_id: self.next_id };
                    let x = sub.expr(false)?;
                    if sub.peek() != &Tk::Eof {
                        return Err("trailing tokens in f-string part".into());
                    }
                    self.next_id = sub.next_id;
                    exprs.push(x);
                }
                Ok(self.mk(t.s, t.e, EK::FStr(exprs)))
            }
            Tk::Int(d, suf) => {
                let t = self.bump();
                let _ = d;
                Ok(self.mk(t.s, t.e, EK::Int(suf)))
            }
            Tk::Float(_, suf) => {
                let t = self.bump();
                Ok(self.mk(t.s, t.e, EK::Float(suf)))
            }
            Tk::Bool(_) => {
                let t = self.bump();
                Ok(self.mk(t.s, t.e, EK::Bool))
            }
            Tk::Str => {
                let t = self.bump();
                Ok(self.mk(t.s, t.e, EK::Str))
            }
            Tk::Char => {
                let t = self.bump();
                Ok(self.mk(t.s, t.e, EK::Char))
            }
            o => Err(format!("expected an expression at {s}, got {o:?} (…{})", self.ctx())),
        }
    }

    fn if_else(&mut self) -> R<Ex> {
        let s = self.take_kw("if")?.s;
        let c = self.expr(true)?;
        let t = self.block()?;
        if self.is_kw("else") {
            self.bump();
            let f = if self.is_kw("if") {
                let x = self.if_else()?;
                let sp = x.sp;
                Blk { imports: vec![], stmts: vec![], tail: Some(Box::new(x)), sp, synthetic: true }
            } else {
                self.block()?
            };
            let e = f.sp.e;
            Ok(self.mk(s, e, EK::If(Box::new(c), t, Some(f))))
        } else {
            let e = t.sp.e;
            Ok(self.mk(s, e, EK::If(Box::new(c), t, None)))
        }
    }

    fn while_expr(&mut self) -> R<Ex> {
        let s = self.take_kw("while")?.s;
        let c = self.expr(true)?;
        let b = self.block()?;
        let e = b.sp.e;
        Ok(self.mk(s, e, EK::While(Box::new(c), b)))
    }

    fn for_expr(&mut self) -> R<Ex> {
        let s = self.take_kw("for")?.s;
        let v = self.ident()?;
        self.take_kw("in")?;
        let l = self.expr(true)?;
        let b = self.block()?;
        let e = b.sp.e;
        Ok(self.mk(s, e, EK::For(v, Box::new(l), b)))
    }

    fn match_expr(&mut self) -> R<Ex> {
        let s = self.take_kw("match")?.s;
        let x = self.expr(true)?;
        let lb = self.take_p("{")?;
        let mut arms = vec![];
        while !self.is_p("}") {
            let v = self.ident()?;
            let as_ = v.sp.s;
            let mut pat_e = v.sp.e;
            let (variant, binds) = if v.name == "_" {
                (None, None)
            } else {
                let binds = if self.is_p("(") {
                    let lp = self.bump();
                    let mut b = vec![];
                    while !self.is_p(")") {
                        b.push(self.ident()?);
                        if !self.eat_p(",") {
                            break;
                        }
                    }
                    let rp = self.take_p(")")?;
                    pat_e = rp.e;
                    Some((b, Sp { s: lp.s, e: rp.e }))
                } else {
                    None
                };
                (Some(v), binds)
            };
            let guard = if self.is_kw("if") {
                self.bump();
                Some(self.expr(false)?)
            } else {
                None
            };
            self.take_p("=>")?;
            let (body, mut e) = if self.is_p("{") {
                let b = self.block()?;
                let e = b.sp.e;
                (b, e)
            } else {
                let x = self.expr(false)?;
                let sp = x.sp;
                (Blk { imports: vec![], stmts: vec![], tail: Some(Box::new(x)), sp, synthetic: true }, sp.e)
            };
            if self.is_p(",") {
                e = self.bump().e;
            } else if body.synthetic && !self.is_p("}") {
                return Err("missing comma after match arm".into());
            }
            arms.push(Arm { variant, binds, pat_sp: Sp { s: as_, e: pat_e }, guard, body, sp: Sp { s: as_, e } });
        }
        let rb = self.take_p("}")?;
        Ok(self.mk(s, rb.e, EK::Match(Box::new(x), arms, Sp { s: lb.s, e: rb.e })))
    }
}
