//! C07 — ill-typed scripts never compile.
//!
//! Every well-typed seed program (all variables annotated, so the generator
//! knows for every position which types the context admits) is changed by
//! every applicable single edit of a closed list at every position; each
//! edit is ill-typed by construction under a rule the property statement
//! names. The mutant must be rejected with a type error report. A mutant
//! that compiles is the violation (class `accepted`).

mod analyze;
mod edits;
mod lex;
mod parse;
mod seeds;
mod ty;

use std::sync::OnceLock;

use roto::{Context, FileSpec, FileTree, Runtime, SourceFile, library};
use vcore::util::{catch, fnv_str, mix};
use vcore::{Aggregate, Cfg, Check, Cx, Finding, Meta, SUB_SETUP, Value, Violation, json};

use analyze::{SrcFile, analyze, parse_seed};
use edits::{Edit, Opts, apply, edits, judged, justification};
use seeds::Seed;
use ty::T;

#[derive(Clone, Context)]
struct CtxA {
    pub cx_n: u32,
    pub cx_flag: bool,
}

fn ctx_vars() -> Vec<(&'static str, T)> {
    vec![("cx_n", T::P("u32")), ("cx_flag", T::P("bool"))]
}
fn rt_consts() -> Vec<(&'static str, T)> {
    vec![("HOSTC", T::P("u32")), ("HOSTB", T::P("bool"))]
}

fn extra_lib() -> roto::Library {
    library! {
        /// a constant registered by the host
        const HOSTC: u32 = 7;
        const HOSTB: bool = true;
    }
}

fn runtime_plain() -> Runtime<roto::NoCtx> {
    let mut rt = host::runtime();
    rt.add(extra_lib()).expect("extra library registers");
    rt
}

fn runtime_ctx() -> Runtime<roto::Ctx<CtxA>> {
    runtime_plain().with_context_type::<CtxA>().expect("context type registers")
}

#[derive(Debug, Clone, PartialEq)]
enum Obs {
    Compiled,
    /// error kinds of the report, first line of the rendered report
    Report(Vec<&'static str>, String),
    Panic(String),
}

fn tree(files: &[SrcFile]) -> FileTree {
    let sf = |f: &SrcFile, name: &str| SourceFile {
        name: name.to_string(),
        module_name: f.module.clone(),
        contents: f.text.clone(),
        location_offset: 0,
        children: vec![],
    };
    if files.len() == 1 {
        FileTree::test_file("script.roto", &files[0].text, 0)
    } else {
        let subs = files[1..].iter().map(|f| FileSpec::File(sf(f, &format!("{}.roto", f.module)))).collect();
        FileTree::file_spec(FileSpec::Directory(sf(&files[0], "pkg.roto"), subs))
    }
}

/// compile once and classify (a macro: the context trait of `Runtime` is not exported)
macro_rules! observe {
    ($rt:expr, $files:expr) => {
        match catch(|| tree($files).compile($rt)) {
            Ok(Ok(_)) => Obs::Compiled,
            Ok(Err(report)) => {
                let kinds = report.verif_kinds();
                let mut s = String::new();
                match catch(|| report.write(&mut s, false)) {
                    Ok(_) => Obs::Report(kinds, s.lines().next().unwrap_or("").to_string()),
                    Err(p) => Obs::Panic(format!("while rendering the report: {p}")),
                }
            }
            Err(p) => Obs::Panic(p),
        }
    };
}

// ------------------------------------------------------------------ enumeration

fn all_seeds(cfg: &Cfg) -> &'static Vec<Seed> {
    static S: OnceLock<Vec<Seed>> = OnceLock::new();
    S.get_or_init(|| seeds::seeds(cfg))
}

/// units: consecutive seeds, closed when the estimated number of mutants reaches the target
fn unit_table(cfg: &Cfg) -> &'static Vec<(usize, usize)> {
    static U: OnceLock<Vec<(usize, usize)>> = OnceLock::new();
    U.get_or_init(|| {
        let seeds = all_seeds(cfg);
        let mut v = vec![];
        let (mut lo, mut w) = (0, 0);
        for (i, s) in seeds.iter().enumerate() {
            w += s.weight;
            if w >= 2500 {
                v.push((lo, i + 1));
                lo = i + 1;
                w = 0;
            }
        }
        if lo < seeds.len() {
            v.push((lo, seeds.len()));
        }
        v
    })
}

const EDIT_BITS: u32 = 20;
const SEED_CHECK: u64 = (1 << EDIT_BITS) - 1;

struct Prepared {
    edits: Vec<Edit>,
    model_errors: Vec<String>,
    positions: usize,
}

fn prepare(seed: &Seed) -> Result<Prepared, String> {
    let parsed = parse_seed(&seed.files)?;
    let cv = if seed.ctx { ctx_vars() } else { vec![] };
    let mut globals = cv.clone();
    globals.extend(rt_consts());
    let an = analyze(&seed.files, &parsed, &globals);
    let bulk = ["num-", "cmp-", "logic/"].iter().any(|p| seed.name.starts_with(p));
    let opts = Opts {
        e8_names: !bulk || seed.name.ends_with("/0"),
        only_fn: seed.only_fn.clone(),
        ctx_vars: cv.iter().map(|(n, t)| (n.to_string(), t.clone())).collect(),
        rt_consts: if seed.name == "hand/runtime-constant" { rt_consts().iter().map(|(n, t)| (n.to_string(), t.clone())).collect() } else { vec![] },
    };
    let e = edits(&seed.files, &parsed, &an, &opts);
    Ok(Prepared { edits: e, model_errors: an.errors.clone(), positions: an.info.len() })
}

fn show_files(files: &[SrcFile]) -> String {
    if files.len() == 1 {
        files[0].text.clone()
    } else {
        files.iter().map(|f| format!("// ---- module {}\n{}", f.module, f.text)).collect::<Vec<_>>().join("\n")
    }
}

fn case_json(seed: &Seed, e: &Edit, mutant: &[SrcFile]) -> Value {
    json!({
        "seed": seed.name,
        "seed_program": show_files(&seed.files),
        "edit_kind": e.kind,
        "edit": e.detail,
        "justification": justification(e.kind),
        "program": show_files(mutant),
        "context_type": if seed.ctx { "struct { cx_n: u32, cx_flag: bool }" } else { "none" },
    })
}

/// a `!` that follows `:`, `->`, `[`, `,` or `(` and is not `!=`: the never type written as a type
fn never_in_type_position(program: &str) -> bool {
    let b = program.as_bytes();
    (0..b.len()).any(|i| {
        b[i] == b'!'
            && b.get(i + 1) != Some(&b'=')
            && matches!(program[..i].trim_end().as_bytes().last(), Some(b':' | b'>' | b'[' | b',' | b'('))
            && !program[i + 1..].trim_start().starts_with(|c: char| c.is_alphanumeric() || c == '(' || c == '_')
    })
}

struct C07;

impl Check for C07 {
    fn id(&self) -> &'static str {
        "C07"
    }
    fn units(&self, cfg: &Cfg) -> usize {
        unit_table(cfg).len()
    }
    fn case_timeout_s(&self, cfg: &Cfg) -> f64 {
        cfg.tier.pick(30.0, 60.0)
    }
    fn run_unit(&self, unit: usize, cx: &mut Cx) {
        if !cx.case(SUB_SETUP) {
            return;
        }
        let (lo, hi) = unit_table(&cx.cfg)[unit];
        let seeds = all_seeds(&cx.cfg);
        let rt = runtime_plain();
        let mut rt_ctx = None;
        for (si, seed) in seeds[lo..hi].iter().enumerate() {
            let base = (si as u64) << EDIT_BITS;
            let prep = match prepare(seed) {
                Ok(p) => p,
                Err(e) => {
                    cx.count("seed_not_parsed_by_generator", 1);
                    cx.note(format!("generator cannot parse seed {}: {e}", seed.name));
                    continue;
                }
            };
            if !prep.model_errors.is_empty() {
                cx.count("seed_model_gaps", 1);
                cx.note(format!("seed {}: {}", seed.name, prep.model_errors[0]));
            }
            if seed.ctx && rt_ctx.is_none() {
                rt_ctx = Some(runtime_ctx());
            }
            let run = |files: &[SrcFile]| match (&rt_ctx, seed.ctx) {
                (Some(r), true) => observe!(r, files),
                _ => observe!(&rt, files),
            };
            // the seed itself must compile
            if cx.case(base | SEED_CHECK) {
                let o = run(&seed.files);
                cx.count("seeds", 1);
                if o != Obs::Compiled {
                    cx.count("seed_rejected", 1);
                    cx.note(format!("seed {} does not compile: {o:?}\n{}", seed.name, show_files(&seed.files)));
                    continue;
                }
            } else if cx.only().is_none() {
                // compiling the seed killed an earlier worker (reported by the parent)
                continue;
            }
            let mut kinds_seen = std::collections::HashSet::new();
            for (ei, e) in prep.edits.iter().enumerate() {
                let sub = base | ei as u64;
                let mutant = apply(&seed.files, e);
                cx.states(1);
                if !cx.case(sub) {
                    continue;
                }
                let o = run(&mutant);
                cx.transitions(1);
                cx.count(&format!("edit:{}", e.kind), 1);
                if !judged(e.kind) {
                    cx.unspecified(1);
                    let what = match &o {
                        Obs::Compiled => "compiled",
                        Obs::Report(..) => "rejected",
                        Obs::Panic(_) => "panicked",
                    };
                    cx.count(&format!("unspecified:{}:{what}", e.kind), 1);
                    continue;
                }
                cx.validated(1);
                if prep.positions > 1 && kinds_seen.insert(e.kind) {
                    cx.nontrivial(mix(fnv_str(&seed.name), fnv_str(e.kind)));
                }
                match &o {
                    Obs::Report(kinds, first) if kinds.contains(&"type") => {
                        cx.outcome(mix(fnv_str(e.kind), fnv_str(first)));
                    }
                    Obs::Report(kinds, first) if kinds.contains(&"parse") => {
                        cx.count("mutant_parse_error", 1);
                        cx.note(format!("generator bug: {} on seed {} gives a parse error ({first}):\n{}", e.kind, seed.name, show_files(&mutant)));
                    }
                    Obs::Report(kinds, first) => {
                        cx.violation(
                            "other-error",
                            sub,
                            case_json(seed, e, &mutant),
                            json!("Err(report) with a type error"),
                            json!({"kinds": kinds, "report": first}),
                        );
                    }
                    Obs::Compiled => {
                        cx.violation("accepted", sub, case_json(seed, e, &mutant), json!("Err(report) with a type error"), json!("Ok(package)"));
                    }
                    Obs::Panic(p) => {
                        cx.violation(
                            "crash-instead-of-type-error",
                            sub,
                            case_json(seed, e, &mutant),
                            json!("Err(report) with a type error"),
                            json!({"panic": p}),
                        );
                    }
                }
                // one literal case per unit: the middle edit of its first seed
                if ei == prep.edits.len() / 2 && si == 0 {
                    cx.sample(json!({"seed": seed.name, "edit_kind": e.kind, "edit": e.detail, "program": show_files(&mutant),
                        "observed": format!("{o:?}")}));
                }
            }
        }
    }
    fn describe(&self, cfg: &Cfg, unit: usize, sub: u64) -> Value {
        if sub == SUB_SETUP {
            return json!({"phase": "runtime construction", "unit": unit});
        }
        let (lo, hi) = unit_table(cfg)[unit];
        let si = lo + (sub >> EDIT_BITS) as usize;
        let ei = sub & SEED_CHECK;
        let Some(seed) = all_seeds(cfg).get(si).filter(|_| si < hi) else { return json!({"error": "no such seed"}) };
        if ei == SEED_CHECK {
            return json!({"seed": seed.name, "program": show_files(&seed.files), "phase": "compiling the unchanged seed"});
        }
        match prepare(seed) {
            Ok(p) => match p.edits.get(ei as usize) {
                Some(e) => case_json(seed, e, &apply(&seed.files, e)),
                None => json!({"seed": seed.name, "error": "no such edit"}),
            },
            Err(e) => json!({"seed": seed.name, "error": e}),
        }
    }
    fn matches(&self, f: &Finding, v: &Violation) -> bool {
        let kind = v.case["edit_kind"].as_str().unwrap_or("");
        match f.matcher.as_str() {
            // a mutant of one of the listed edit kinds was accepted (nothing else)
            "accepted-edit-kinds" => {
                v.class == "accepted"
                    && f.params["edit_kinds"].as_array().is_some_and(|a| a.iter().any(|k| k.as_str() == Some(kind)))
            }
            // the compiler panicked on a mutant of one of the listed edit kinds with the listed message
            "crash-edit-kinds" => {
                v.class == "crash-instead-of-type-error"
                    && f.params["edit_kinds"].as_array().is_some_and(|a| a.iter().any(|k| k.as_str() == Some(kind)))
                    && f.params["panic_contains"].as_str().is_some_and(|p| v.observed["panic"].as_str().is_some_and(|o| o.contains(p)))
            }
            // V1: the never type `!` written in a type position acts as a wildcard. Only mutants of the
            // never-type edit family (or edits inside a seed function declared `-> !`) whose text has a
            // `!` in a type position, and only the listed failure classes / panic texts
            "never-type-family" => {
                let detail = v.case["edit"].as_str().unwrap_or("");
                let family = kind.starts_with("n1-never") || detail.contains("[inside a function declared `-> !`]");
                let class_ok = f.params["classes"].as_array().is_some_and(|a| a.iter().any(|c| c.as_str() == Some(v.class.as_str())));
                let panic_ok = match f.params["panic_contains"].as_str() {
                    Some(p) => v.observed["panic"].as_str().is_some_and(|o| o.contains(p)),
                    None => true,
                };
                family && class_ok && panic_ok && never_in_type_position(v.case["program"].as_str().unwrap_or(""))
            }
            _ => false,
        }
    }
    fn finish(&self, _cfg: &Cfg, agg: &mut Aggregate) {
        for k in ["seed_not_parsed_by_generator", "seed_rejected", "mutant_parse_error"] {
            let n = agg.counter(k);
            if n > 0 {
                agg.machinery_errors.push(format!("{k}: {n} (generator bug, see notes in the evidence file)"));
            }
        }
    }
    fn meta(&self, cfg: &Cfg) -> Meta {
        let seeds = all_seeds(cfg);
        let mut fam: std::collections::BTreeMap<String, usize> = Default::default();
        for s in seeds {
            let k = s.name.split('/').take(2).collect::<Vec<_>>().join("/");
            let k = if s.name.starts_with("hand/") || s.name.starts_with("template/") { s.name.split('/').next().unwrap().to_string() } else { k };
            *fam.entry(k).or_insert(0) += 1;
        }
        Meta {
            rule: "every well-typed seed (all expressions of operator depth <= 1 of the 10 numeric types, comparisons, logic, control-flow skeletons of all 16 constructs up to the size bound, the C01 templates, hand-written seeds for records, enums, Option/?, match, lists, loops, filtermaps, constants, modules/imports, f-strings, methods, context) x every applicable edit of the closed list e1-e10 at every position; each mutant is compiled once and must be rejected with a type error; non-trivial = distinct (seed, edit kind) pairs of seeds with more than one typed position; outcomes = distinct (edit kind, first line of the error report)".into(),
            assumptions: vec![
                "the edit list, not the implementation, defines ill-typedness; the generator's typing of the seeds over-approximates what a context admits, so it can only omit mutants".into(),
                "redeclaration by a second `let` in one block / of a parameter / a duplicate import is left open by the documentation: tallied, not judged".into(),
            ],
            bounds: json!({"seeds": seeds.len(), "seed_families": fam, "slice_selected_by_seed": cfg.seed}),
            states_are: "distinct (seed, edit) pairs, deduplicated by resulting text within a seed".into(),
            transitions_are: "compilations of one mutant through FileTree::compile".into(),
        }
    }
}

fn main() {
    // `c07 --dump <seed-name-prefix>`: print the mutants of matching seeds (triage aid)
    let args: Vec<String> = std::env::args().collect();
    if args.len() >= 3 && args[1] == "--dump" {
        let cfg = Cfg { tier: if args.get(3).map(|s| s.as_str()) == Some("thorough") { vcore::Tier::Thorough } else { vcore::Tier::Quick }, seed: 0 };
        for seed in all_seeds(&cfg).iter().filter(|s| s.name.starts_with(&args[2])) {
            println!("==== seed {}\n{}", seed.name, show_files(&seed.files));
            match prepare(seed) {
                Ok(p) => {
                    for m in &p.model_errors {
                        println!("  MODEL GAP: {m}");
                    }
                    for (i, e) in p.edits.iter().enumerate() {
                        println!("-- [{i}] {} : {}\n{}", e.kind, e.detail, show_files(&apply(&seed.files, e)));
                    }
                }
                Err(e) => println!("  PARSE ERROR: {e}"),
            }
        }
        return;
    }
    if args.len() >= 3 && args[1] == "--bench" {
        let cfg = Cfg { tier: vcore::Tier::Quick, seed: 0 };
        vcore::util::install_quiet_panic_hook();
        let rt = runtime_plain();
        for seed in all_seeds(&cfg).iter().filter(|s| s.name.starts_with(&args[2]) && !s.ctx).take(20) {
            let t0 = std::time::Instant::now();
            let p = prepare(seed).unwrap();
            let t_prep = t0.elapsed();
            let t0 = std::time::Instant::now();
            let muts: Vec<Vec<SrcFile>> = p.edits.iter().map(|e| apply(&seed.files, e)).collect();
            let t_apply = t0.elapsed();
            let t0 = std::time::Instant::now();
            let mut n_err = 0;
            for m in &muts {
                if let Ok(Err(_)) = catch(|| tree(m).compile(&rt)) {
                    n_err += 1;
                }
            }
            let t_compile = t0.elapsed();
            let t0 = std::time::Instant::now();
            for m in &muts {
                let _ = observe!(&rt, m);
            }
            let t_obs = t0.elapsed();
            println!("{}: {} edits, prepare {:?}, apply {:?}, compile {:?} ({} rejected), compile+render {:?}", seed.name, muts.len(), t_prep, t_apply, t_compile, n_err, t_obs);
        }
        return;
    }
    if args.len() >= 2 && args[1] == "--count" {
        let cfg = Cfg { tier: if args.get(2).map(|s| s.as_str()) == Some("thorough") { vcore::Tier::Thorough } else { vcore::Tier::Quick }, seed: 0 };
        let mut per: std::collections::BTreeMap<String, (usize, usize)> = Default::default();
        for seed in all_seeds(&cfg) {
            let k = seed.name.split('/').next().unwrap().to_string();
            let n = prepare(seed).map(|p| p.edits.len()).unwrap_or(0);
            let e = per.entry(k).or_insert((0, 0));
            e.0 += 1;
            e.1 += n;
        }
        let mut total = 0;
        for (k, (s, n)) in &per {
            println!("{k}: {s} seeds, {n} mutants");
            total += n;
        }
        println!("total {total} mutants, {} units", unit_table(&cfg).len());
        return;
    }
    vcore::main(&C07)
}
