//! Tokeniser for the Roto subset the seed programs are written in. Every token
//! carries its byte span in the source text: all edits are text splices at
//! spans, so the mutant is the literal seed text plus one local change.

#[derive(Clone, Debug, PartialEq)]
pub enum Tk {
    Ident(String),
    Kw(&'static str),
    /// digits, suffix ("" = unsuffixed)
    Int(String, String),
    Float(String, String),
    Bool(bool),
    Str,
    Char,
    /// f-string; spans of the embedded expressions (without the braces)
    FStr(Vec<(usize, usize)>),
    P(&'static str),
    Eof,
}

#[derive(Clone, Debug)]
pub struct Tok {
    pub k: Tk,
    pub s: usize,
    pub e: usize,
}

const KEYWORDS: [&str; 22] = [
    "accept", "const", "dep", "else", "enum", "filter", "filtermap", "for", "fn", "if", "import", "in", "let", "match",
    "pkg", "record", "reject", "return", "std", "super", "test", "while",
];

const PUNCT2: [&str; 13] = ["=>", "->", "==", "!=", "<=", ">=", "&&", "||", "+=", "-=", "*=", "/=", "%="];
const PUNCT1: [&str; 22] =
    ["(", ")", "{", "}", "[", "]", ",", ";", ":", ".", "?", "=", "<", ">", "+", "-", "*", "/", "%", "!", "|", "#"];

const SUFFIXES: [&str; 10] = ["u8", "u16", "u32", "u64", "i8", "i16", "i32", "i64", "f32", "f64"];

pub fn lex(src: &str, base: usize) -> Result<Vec<Tok>, String> {
    let b = src.as_bytes();
    let mut i = 0;
    let mut out = vec![];
    let is_id_start = |c: u8| c == b'_' || c.is_ascii_alphabetic();
    let is_id = |c: u8| c == b'_' || c.is_ascii_alphanumeric();
    while i < b.len() {
        let c = b[i];
        if c.is_ascii_whitespace() {
            i += 1;
            continue;
        }
        if c == b'/' && i + 1 < b.len() && b[i + 1] == b'/' {
            while i < b.len() && b[i] != b'\n' {
                i += 1;
            }
            continue;
        }
        let s = i;
        if c == b'f' && i + 1 < b.len() && b[i + 1] == b'"' {
            // f-string
            i += 2;
            let mut parts = vec![];
            loop {
                if i >= b.len() {
                    return Err("unterminated f-string".into());
                }
                match b[i] {
                    b'\\' => i += 2,
                    b'"' => {
                        i += 1;
                        break;
                    }
                    b'{' if i + 1 < b.len() && b[i + 1] == b'{' => i += 2,
                    b'}' if i + 1 < b.len() && b[i + 1] == b'}' => i += 2,
                    b'{' => {
                        // expression until the matching brace (strings inside are skipped)
                        let es = i + 1;
                        let mut depth = 1;
                        i += 1;
                        while i < b.len() && depth > 0 {
                            match b[i] {
                                b'{' => depth += 1,
                                b'}' => depth -= 1,
                                b'"' => {
                                    i += 1;
                                    while i < b.len() && b[i] != b'"' {
                                        if b[i] == b'\\' {
                                            i += 1;
                                        }
                                        i += 1;
                                    }
                                }
                                _ => {}
                            }
                            i += 1;
                        }
                        if depth != 0 {
                            return Err("unbalanced f-string".into());
                        }
                        parts.push((base + es, base + i - 1));
                    }
                    _ => i += 1,
                }
            }
            out.push(Tok { k: Tk::FStr(parts), s: base + s, e: base + i });
            continue;
        }
        if is_id_start(c) {
            while i < b.len() && is_id(b[i]) {
                i += 1;
            }
            let w = &src[s..i];
            let k = if w == "true" {
                Tk::Bool(true)
            } else if w == "false" {
                Tk::Bool(false)
            } else if let Some(k) = KEYWORDS.iter().find(|k| **k == w) {
                Tk::Kw(k)
            } else {
                Tk::Ident(w.to_string())
            };
            out.push(Tok { k, s: base + s, e: base + i });
            continue;
        }
        if c.is_ascii_digit() {
            while i < b.len() && (b[i].is_ascii_digit() || b[i] == b'_') {
                i += 1;
            }
            let mut float = false;
            if i < b.len() && b[i] == b'.' && !(i + 1 < b.len() && (is_id_start(b[i + 1]) || b[i + 1] == b'.')) {
                float = true;
                i += 1;
                while i < b.len() && (b[i].is_ascii_digit() || b[i] == b'_') {
                    i += 1;
                }
            }
            if i < b.len() && (b[i] == b'e' || b[i] == b'E') {
                let mut j = i + 1;
                if j < b.len() && (b[j] == b'+' || b[j] == b'-') {
                    j += 1;
                }
                if j < b.len() && b[j].is_ascii_digit() {
                    float = true;
                    i = j;
                    while i < b.len() && (b[i].is_ascii_digit() || b[i] == b'_') {
                        i += 1;
                    }
                }
            }
            let digits = src[s..i].to_string();
            let mut suffix = String::new();
            for sf in SUFFIXES {
                if src[i..].starts_with(sf) && !(i + sf.len() < b.len() && is_id(b[i + sf.len()])) {
                    suffix = sf.to_string();
                    i += sf.len();
                    break;
                }
            }
            if i < b.len() && is_id(b[i]) {
                return Err(format!("bad number at {s}"));
            }
            let k = if float || suffix.starts_with('f') { Tk::Float(digits, suffix) } else { Tk::Int(digits, suffix) };
            out.push(Tok { k, s: base + s, e: base + i });
            continue;
        }
        if c == b'"' {
            i += 1;
            while i < b.len() && b[i] != b'"' {
                if b[i] == b'\\' {
                    i += 1;
                }
                i += 1;
            }
            if i >= b.len() {
                return Err("unterminated string".into());
            }
            i += 1;
            out.push(Tok { k: Tk::Str, s: base + s, e: base + i });
            continue;
        }
        if c == b'\'' {
            i += 1;
            while i < b.len() && b[i] != b'\'' {
                if b[i] == b'\\' {
                    i += 1;
                }
                i += 1;
            }
            if i >= b.len() {
                return Err("unterminated char".into());
            }
            i += 1;
            out.push(Tok { k: Tk::Char, s: base + s, e: base + i });
            continue;
        }
        if let Some(p) = PUNCT2.iter().find(|p| src[i..].starts_with(**p)) {
            i += 2;
            out.push(Tok { k: Tk::P(p), s: base + s, e: base + i });
            continue;
        }
        if let Some(p) = PUNCT1.iter().find(|p| src[i..].starts_with(**p)) {
            i += 1;
            out.push(Tok { k: Tk::P(p), s: base + s, e: base + i });
            continue;
        }
        return Err(format!("unexpected character {:?} at {s}", src[i..].chars().next()));
    }
    out.push(Tok { k: Tk::Eof, s: base + b.len(), e: base + b.len() });
    Ok(out)
}
