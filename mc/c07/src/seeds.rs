//! The well-typed seed programs: a systematically chosen slice of the C01
//! families (numeric expressions of every numeric type, comparison / logic
//! expressions, control-flow skeletons, the C01 templates) and hand-written
//! seeds for the constructs the families do not contain.

use c00ref::gen_expr::*;
use c00ref::*;
use vcore::{Cfg, Tier};

use crate::analyze::SrcFile;

#[derive(Clone, Debug)]
pub struct Seed {
    pub name: String,
    pub files: Vec<SrcFile>,
    /// compiled against the runtime with the context type `{ cx_n: u32, cx_flag: bool }`
    pub ctx: bool,
    /// restrict edits to this function (shared helpers are mutated in their own seed)
    pub only_fn: Option<String>,
    /// rough number of mutants, used to size the work units
    pub weight: usize,
}

fn single(name: impl Into<String>, text: impl Into<String>) -> Seed {
    let text = text.into();
    let weight = 40 + text.len() * 4;
    Seed { name: name.into(), files: vec![SrcFile { module: "pkg".into(), text }], ctx: false, only_fn: None, weight }
}

fn two(name: &str, pkg: &str, m: &str) -> Seed {
    Seed {
        name: name.into(),
        files: vec![SrcFile { module: "pkg".into(), text: pkg.into() }, SrcFile { module: "m".into(), text: m.into() }],
        ctx: false,
        only_fn: None,
        weight: 40 + (pkg.len() + m.len()) * 4,
    }
}

fn num_tys() -> Vec<Ty> {
    let mut v: Vec<Ty> = INT_TYS.iter().map(|t| Ty::Int(*t)).collect();
    v.push(Ty::F32);
    v.push(Ty::F64);
    v
}

fn prog(t: &Ty, ret: &Ty, body: E) -> String {
    print_program(&Program { records: vec![], enums: vec![], funcs: vec![fn2("f", t, ret, body)] })
}

/// every `let` of a skeleton gets its annotation (all are of the accumulator type)
fn annotate(b: &mut Block, t: &Ty) {
    for s in &mut b.stmts {
        match s {
            S::Let(_, ann, e) => {
                if ann.is_none() {
                    *ann = Some(t.clone());
                }
                annotate_e(e, t);
            }
            S::Expr(e) => annotate_e(e, t),
        }
    }
    if let Some(e) = &mut b.tail {
        annotate_e(e, t);
    }
}

fn annotate_e(e: &mut E, t: &Ty) {
    match e {
        E::If(_, a, b) => {
            annotate(a, t);
            if let Some(b) = b {
                annotate(b, t);
            }
        }
        E::Block(b) | E::While(_, b) | E::For(_, _, b) => annotate(b, t),
        E::Match(_, arms) => arms.iter_mut().for_each(|a| annotate(&mut a.body, t)),
        E::Assign(_, x) | E::Compound(_, _, x) => annotate_e(x, t),
        E::Bin(_, l, r) => {
            annotate_e(l, t);
            annotate_e(r, t);
        }
        _ => {}
    }
}

fn skeleton(it: IntTy, body: &[Node]) -> String {
    let mut p = skeleton_program(it, body);
    let ty = Ty::Int(it);
    for f in &mut p.funcs {
        annotate(&mut f.body, &ty);
    }
    print_program(&p)
}

pub fn seeds(cfg: &Cfg) -> Vec<Seed> {
    let thorough = cfg.tier == Tier::Thorough;
    let mut v: Vec<Seed> = vec![];

    // ---- all expressions of operator depth <= 1 of every numeric type
    for t in num_tys() {
        let lv = leaves(&t, &literals(&t, if thorough { 6 } else { 3 }));
        for (i, e) in num_exprs(&t, 1, &lv).into_iter().enumerate() {
            v.push(single(format!("num-d1/{}/{i}", t.print()), prog(&t, &t, e)));
        }
    }
    // ---- all comparisons of two leaves, every numeric type
    for t in num_tys() {
        let lv = leaves(&t, &literals(&t, 1));
        for (i, e) in bool_exprs(&t, 0, 0, &lv).into_iter().enumerate() {
            v.push(single(format!("cmp-d0/{}/{i}", t.print()), prog(&t, &Ty::Bool, e)));
        }
    }
    // ---- logic over comparisons: !, &&, || over three atoms
    for t in [Ty::Int(IntTy::I32), Ty::Int(IntTy::U8), Ty::F64] {
        let atoms = vec![bin(BinOp::Lt, var("a"), var("b")), bin(BinOp::Eq, var("a"), var("b")), bin(BinOp::Ge, var("a"), var("b"))];
        let mut es = vec![];
        for x in &atoms {
            es.push(E::Not(Box::new(x.clone())));
        }
        for op in [BinOp::And, BinOp::Or] {
            for l in &atoms {
                for r in &atoms {
                    es.push(bin(op, l.clone(), r.clone()));
                }
            }
        }
        for (i, e) in es.into_iter().enumerate() {
            v.push(single(format!("logic/{}/{i}", t.print()), prog(&t, &Ty::Bool, e)));
        }
    }
    // ---- hand-written seeds
    v.extend(hand_written());
    // ---- the C01 templates (call shapes, recursion, literal typing contexts)
    for t in c01::templates::all() {
        v.push(single(format!("template/{}", t.name), t.src));
    }
    // ---- the helpers of the skeleton programs, mutated once
    v.push(single("skeleton-helpers/i32", print_program(&Program { records: vec![], enums: vec![], funcs: helpers(IntTy::I32) })));
    v.push(single("skeleton-helpers/u8", print_program(&Program { records: vec![], enums: vec![], funcs: helpers(IntTy::U8) })));
    // ---- control-flow skeletons: all bodies of size <= 2
    // quick: i32 all of size <= 2, u8 size 1 plus the slice of size 2 picked by the seed;
    // thorough: both types completely, plus size 3 (nesting <= 1) for i32 in the slice picked by the seed
    for size in 1..=2usize {
        for (ti, it) in [IntTy::I32, IntTy::U8].into_iter().enumerate() {
            for (i, b) in bodies(size, 2).iter().enumerate() {
                if !thorough && ti == 1 && size == 2 && (i as u64 + cfg.seed) % 8 != 0 {
                    continue;
                }
                let mut s = single(format!("skel-{size}/{}/{i}", it.name()), skeleton(it, b));
                s.only_fn = Some("f".into());
                s.weight /= 2;
                v.push(s);
            }
        }
    }
    if thorough {
        // depth-2 numeric expressions with one leaf operand, comparisons of a depth-1 expression with a leaf
        // on i32, u8, f64 and two more numeric types picked by the seed
        let all = num_tys();
        let fixed = [Ty::Int(IntTy::I32), Ty::Int(IntTy::U8), Ty::F64];
        let rest: Vec<Ty> = all.iter().filter(|t| !fixed.contains(t)).cloned().collect();
        let mut chosen: Vec<Ty> = fixed.to_vec();
        chosen.push(rest[(cfg.seed as usize) % rest.len()].clone());
        chosen.push(rest[(cfg.seed as usize + 3) % rest.len()].clone());
        for t in chosen {
            let lv = leaves(&t, &literals(&t, 1));
            for (i, e) in num_exprs_one_deep(&t, &lv).into_iter().enumerate() {
                v.push(single(format!("num-d2/{}/{i}", t.print()), prog(&t, &t, e)));
            }
            for (i, e) in cmp_exprs_one_deep(&t, &lv).into_iter().enumerate() {
                v.push(single(format!("cmp-d1/{}/{i}", t.print()), prog(&t, &Ty::Bool, e)));
            }
        }
        for (i, b) in bodies(3, 1).iter().enumerate() {
            if (i as u64 + cfg.seed) % 6 != 0 {
                continue;
            }
            let mut s = single(format!("skel-3/i32/{i}"), skeleton(IntTy::I32, b));
            s.only_fn = Some("f".into());
            s.weight /= 2;
            v.push(s);
        }
    }
    // the same text only once
    let mut seen = std::collections::HashSet::new();
    v.retain(|s| seen.insert(s.files.iter().map(|f| f.text.clone()).collect::<Vec<_>>()));
    v
}

pub fn hand_written() -> Vec<Seed> {
    let mut v = vec![];
    let mut s = |name: &str, text: &str| v.push(single(format!("hand/{name}"), text));
    s(
        "record-named",
        "record P { x: i32, y: u8 }\n\
         fn mk(a: i32, b: u8) -> P { P { x: a, y: b } }\n\
         fn f(a: i32, b: u8) -> i32 { let p: P = mk(a, b); p.x + 1 }\n",
    );
    s(
        "record-anonymous",
        "fn f(a: i32, b: bool) -> i32 { let r: { u: i32, v: bool } = { u: a, v: b }; if r.v { r.u } else { 0 - r.u } }\n",
    );
    s(
        "record-coercion",
        "record Q { k: u16, s: String }\n\
         fn f(k: u16, s: String) -> Q { { k: k, s: s } }\n\
         fn g(q: Q) -> u16 { q.k }\n\
         fn h(k: u16) -> u16 { g({ k: k, s: \"x\" }) }\n",
    );
    s(
        "record-generic",
        "record W[T] { w: T, n: u8 }\n\
         fn f(a: u32, n: u8) -> u32 { let v: W[u32] = W { w: a, n: n }; v.w }\n\
         fn g(c: char) -> W[char] { W { w: c, n: 1 } }\n",
    );
    s(
        "record-nested-assign",
        "record In { v: i64 }\n\
         record Out { i: In, f: bool }\n\
         fn f(a: i64, c: bool) -> i64 { let o: Out = Out { i: In { v: a }, f: c }; o.i.v = o.i.v + 1; o.f = !c; if o.f { o.i.v } else { a } }\n",
    );
    s(
        "record-equality",
        "record P { x: i32, y: u8 }\n\
         fn f(p: P, q: P) -> bool { p == q || p.x != q.x }\n",
    );
    s(
        "enum-plain",
        "enum Col { Red, Green, Blue }\n\
         fn f(c: Col, a: u8) -> u8 { match c { Red => a, Green => a + 1, Blue => 0 } }\n\
         fn g(a: u8) -> u8 { f(Col.Green, a) + f(Col.Red, a) }\n",
    );
    s(
        "enum-payload",
        "enum Sh { Circle(f32), Rect(f32, f32), Empty }\n\
         fn area(s: Sh) -> f32 { match s { Circle(r) => r * r * 3.0, Rect(w, h) => w * h, Empty => 0.0 } }\n\
         fn f(a: f32, b: f32) -> f32 { area(Sh.Rect(a, b)) + area(Sh.Circle(a)) + area(Sh.Empty) }\n",
    );
    s(
        "enum-generic",
        "enum Ei[L, R] { Le(L), Ri(R) }\n\
         fn f(x: Ei[i32, String], d: i32) -> i32 { match x { Le(i) => i + d, Ri(s) => d } }\n\
         fn g(a: i32) -> Ei[i32, String] { Ei.Le(a) }\n\
         fn h(s: String) -> Ei[i32, String] { Ei.Ri(s) }\n",
    );
    s(
        "enum-record-payload",
        "record Pt { x: i8, y: i8 }\n\
         enum Ev { Move(Pt), Quit }\n\
         fn f(e: Ev) -> i8 { match e { Move(p) => p.x + p.y, Quit => 0 } }\n\
         fn g(a: i8) -> i8 { f(Ev.Move(Pt { x: a, y: 1 })) + f(Ev.Quit) }\n",
    );
    s(
        "match-guard-wild",
        "fn f(x: Option[i32], b: i32) -> i32 { match x { Some(y) if y < b => y, Some(y) => b, _ => 0 } }\n",
    );
    s(
        "match-guard-only-default",
        "enum Tri { A, B(u8), C }\n\
         fn f(t: Tri, k: u8) -> u8 { match t { B(v) if v > k => v, A => 1, _ if k == 0 => 2, _ => k } }\n",
    );
    s(
        "never-function",
        "fn stop(a: i32) -> ! { stop(a) }\n\
         fn halt(a: i32, c: bool) -> ! { if c { return stop(a); } halt(a, c) }\n\
         fn f(a: i32) -> i32 { if a < 0 { stop(a) } else { a } }\n\
         fn g(a: i32) -> String { let x: String = halt(a, true); x }\n",
    );
    s(
        "nested-types",
        "record Bag { items: List[Option[u8]], tag: Option[String], pair: { l: i16, r: bool } }\n\
         fn mk(a: u8, s: String) -> Bag { Bag { items: [Option.Some(a)], tag: Option.Some(s), pair: { l: 1, r: true } } }\n\
         fn first(l: List[Option[u8]]) -> Option[u8] { match l.get(0) { Some(o) => o, None => Option.None } }\n\
         fn f(a: u8, s: String) -> Result[Option[u8], String] { let b: Bag = mk(a, s); let o: Option[u8] = first(b.items); let r: Result[Option[u8], String] = Result.Ok(o); r }\n",
    );
    s(
        "scopes-if-else",
        "fn pick(c: bool, n: i32) -> i32 { if c { let hit: i32 = n + 1; hit } else { let miss: i32 = n - 1; miss } }\n\
         fn chain(a: i32, b: i32) -> i32 { if a < b { let lo: i32 = a; lo } else if a == b { let mid: i32 = a + b; mid } else { let hi: i32 = b; { let deep: i32 = hi * 2; deep + hi } } }\n\
         fn shadow(c: bool, n: i32) -> i32 { let v: i32 = n; if c { let v: i32 = n * 2; v } else { v } }\n\
         fn stmts(c: bool, s: String) -> String { let out: String = s; if c { let pre: String = \"a\"; out = pre + out; } else { let post: String = \"b\"; out = out + post; } out }\n",
    );
    s(
        "scopes-match-loops",
        "enum Sh2 { Ci(f32), Re(f32, f32), No }\n\
         fn arms(s: Sh2) -> f32 { match s { Ci(rad) => rad, Re(wid, hei) => wid * hei, No => 0.0 } }\n\
         fn opt(o: Option[u8], r: Result[u16, bool]) -> u16 { let base: u16 = match o { Some(small) => 1, None => 0 }; match r { Ok(okv) => { let twice: u16 = okv + okv; twice + base } Err(flag) => { if flag { base } else { 0 } } } }\n\
         fn loops(n: u32) -> u32 { let tot: u32 = 0; for el in [1u32, n] { let sq: u32 = el * el; tot = tot + sq; } let k: u32 = 0; while k < n { let step: u32 = 1; k = k + step; } tot }\n",
    );
    s(
        "match-four-variants",
        "enum Q4 { A, B(u8), C(u8, bool), D }\n\
         fn f(q: Q4, k: u8) -> u8 { match q { A => 0, B(v) if v > k => v, B(v) => k, C(v, fl) => if fl { v } else { k }, D => 1 } }\n\
         fn g(q: Q4) -> bool { match q { C(v, fl) => fl, B(v) => true, D => false, A => false } }\n\
         fn h(k: u8) -> u8 { f(Q4.B(k), k) + f(Q4.C(k, true), 1) + f(Q4.A, 2) + f(Q4.D, 3) }\n",
    );
    s(
        "match-five-unit-variants",
        "enum Day { Mon, Tue, Wed, Thu, Fri }\n\
         fn f(d: Day, a: i32) -> i32 { match d { Mon => a, Tue => a + 1, Wed => { a + 2 } Thu => a * 2, Fri => 0 } }\n",
    );
    s(
        "match-two-variants",
        "enum E { Bar, Baz }\n\
         fn f(e: E) -> i32 { match e { Bar => 1, Baz => 2 } }\n\
         fn g(o: Option[i32]) -> i32 { match o { Some(y) => 1, None => 2 } }\n\
         fn h(r: Result[i32, String], c: bool) -> i32 { match r { Ok(v) if c => v, Ok(v) => 0, Err(e) => 2 } }\n",
    );
    s(
        "match-blocks",
        "fn f(x: Option[u16], b: u16) -> u16 { let r: u16 = 1; match x { Some(y) => { r = r + y; } None => { r = b; } } r }\n",
    );
    s(
        "option-try",
        "fn half(a: u32) -> Option[u32] { if a % 2 == 0 { Option.Some(a / 2) } else { Option.None } }\n\
         fn f(a: u32) -> Option[u32] { let h: u32 = half(a)?; let q: u32 = half(h)?; Option.Some(q + 1) }\n",
    );
    s("option-shorthand", "fn f(a: u8?, d: u8) -> u8 { match a { Some(v) => v, None => d } }\nfn g(a: u8) -> u8? { Option.Some(a) }\n");
    s(
        "option-record-try",
        "record U { id: u32 }\n\
         fn find(a: u32) -> Option[U] { if a > 3 { Option.Some(U { id: a }) } else { Option.None } }\n\
         fn f(a: u32) -> Option[u32] { let u: U = find(a)?; Option.Some(u.id) }\n",
    );
    s(
        "option-equality",
        "fn f(a: Option[i32], b: i32) -> bool { a == Option.Some(b) || a == Option.None }\n",
    );
    s(
        "result",
        "fn f(a: i32) -> Result[i32, String] { if a < 0 { Result.Err(\"neg\") } else { Result.Ok(a) } }\n\
         fn g(a: i32) -> i32 { match f(a) { Ok(v) => v, Err(e) => 0 } }\n",
    );
    s(
        "list-basics",
        "fn f(a: i32, b: i32) -> i32 { let l: List[i32] = [a, b, 3]; l.push(a + b); let n: u64 = l.len(); if n == 0 { return 0; } match l.get(0) { Some(v) => v, None => 0 } }\n",
    );
    s(
        "list-concat-contains",
        "fn f(a: u8, b: u8) -> bool { let l: List[u8] = [a] + [b, 3]; l.contains(a) && !l.is_empty() }\n",
    );
    s(
        "list-of-records",
        "record It { k: u8, v: i64 }\n\
         fn f(a: u8, b: i64) -> i64 { let l: List[It] = [It { k: a, v: b }, { k: 1, v: 2 }]; let t: i64 = 0; for it in l { if it.k == a { t = t + it.v; } } t }\n",
    );
    s(
        "list-of-strings",
        "fn f(s: String, t: String) -> String { let l: List[String] = [s, t, \"x\"]; l.join(\", \") }\n",
    );
    s(
        "for-while",
        "fn f(n: u32) -> u32 { let acc: u32 = 0; for x in [1u32, 2, n] { acc = acc + x; } let i: u32 = 0; while i < n { acc += i; i = i + 1; } acc }\n",
    );
    s(
        "compound-ops",
        "fn f(a: i64, b: i64) -> i64 { let x: i64 = a; x += b; x -= 1; x *= 2; x /= 3; x %= 7; x }\n\
         fn g(a: f32) -> f32 { let y: f32 = a; y += 1.5; y *= a; y }\n",
    );
    s(
        "filtermap-values",
        "filtermap fm(x: i32, lim: i32) { if x < lim { accept x } else if x == lim { accept lim } else { reject \"too big\" } }\n\
         filtermap fq(x: i32) { if x == 7 { reject \"seven\" } reject (f\"no {x}\") }\n",
    );
    s("filtermap-plain", "filtermap fz(a: u8) { if a == 0 { reject } else { accept } }\n");
    s(
        "filtermap-called",
        "filtermap fm(x: i32) { if x < 5 { accept x } else { reject true } }\n\
         fn f(x: i32) -> i32 { match fm(x) { Accept(v) => v, Reject(b) => 0 } }\n",
    );
    s(
        "verdict-function",
        "fn v(x: i32) -> Verdict[i32, String] { if x < 10 { return Verdict.Accept(x) } else { return Verdict.Reject(\"big\") } }\n\
         fn v2(x: i32) -> Verdict[i32, String] { if x < 10 { accept x } reject \"big\" }\n",
    );
    s(
        "constants",
        "const A: i32 = 5;\n\
         const B: i32 = A + 1;\n\
         fn getb() -> i32 { B }\n\
         const C: i32 = getb() * 2;\n\
         fn f(a: i32) -> i32 { a + A + B + C }\n",
    );
    s(
        "constants-types",
        "const S: String = \"hi\";\n\
         const F: f64 = 1.5;\n\
         const T: bool = true;\n\
         const U: u8 = 200;\n\
         const CH: char = 'x';\n\
         fn f(x: u8) -> bool { T && x < U && F > 1.0 && S == \"hi\" && CH == 'x' }\n",
    );
    s(
        "constant-unused-types",
        "record Lone { a: u8, b: Pair }\n\
         record Pair { l: i16, r: i16 }\n\
         enum Tag { On(Pair), Off }\n\
         const K: u16 = 9;\n\
         fn f(a: u16) -> u16 { a + K }\n",
    );
    s(
        "fstring",
        "fn f(a: i32, b: bool, c: char, s: String) -> String { f\"a={a} b={b} c={c} s={s} sum={a + 1}\" }\n\
         fn g(x: f64) -> String { f\"{x}\" + f\"{{}}\" }\n",
    );
    s(
        "string-methods",
        "fn f(s: String, t: String) -> bool { s.contains(t) || (s + t).starts_with(\"x\") || s.append(t).to_uppercase() == t }\n",
    );
    s(
        "receiver-of-a-method",
        "fn f(l: List[i32]) -> u64 { l.len() }\n\
         fn g(l: List[u8], x: u8) -> bool { l.contains(x) }\n\
         fn h(l: List[String]) -> String { l.join(\",\") }\n\
         fn k(s: String) -> String { s.to_uppercase() }\n\
         fn m(r: { q: List[u16] }) -> u64 { let v: List[u16] = r.q; v.len() }\n",
    );
    // a tail expression after a statement that leaves the function: it is still an expression of
    // the block's type (seeded change C07-7 checked it against a fresh type variable)
    s("tail-after-exit-1", "fn f(x: u32) -> u32 { if x > 1 { return 1; 3 } else { 2 } }\n");
    s("tail-after-exit-2", "fn g(x: u32) -> u32 { let y: u32 = { return x; 4 }; y }\n");
    s("tail-after-exit-3", "fn k(x: u32) -> u32 { return x; 4 }\n");
    s("receiver-prefix", "fn f(p: Prefix) -> u8 { p.len() }\n");
    s("to-string", "fn f(a: u32, b: bool) -> String { a.to_string() + (a + 1).to_string() + b.to_string() }\n");
    s(
        "floats",
        "fn f(a: f64, b: f64) -> f64 { let m: f64 = a.floor() + b.abs(); if m.is_nan() { 0.0 } else { -m / 2.0 } }\n\
         fn g(a: f32) -> f32 { a.pow(2.0) - a.sqrt() }\n",
    );
    s(
        "unit-and-early-return",
        "fn side(a: i32) { if a < 0 { return; } emit_i32(a); }\n\
         fn f(a: i32) -> i32 { side(a); let u: () = side(a); a }\n",
    );
    s(
        "host-types",
        "fn f(k: u64) -> u64 { let t: Tr = mk(k); let u: Tr = t; val(t) + u.payload() }\n\
         fn g(k: u32) -> u32 { let x: K = mkk(k); emit_k(x); kval(x) }\n",
    );
    s(
        "block-and-shadow",
        "fn f(a: i16, b: i16) -> i16 { let x: i16 = { let t: i16 = a * 2; t + b }; { let x: i16 = x + 1; emit_i16(x); }; x }\n",
    );
    s(
        "never-in-branch",
        "fn f(a: u8) -> u8 { let x: u8 = if a > 3 { return 0; } else { a }; x + 1 }\n",
    );
    s(
        "bool-char",
        "fn pick(c: bool) -> char { if c { 'y' } else { 'n' } }\n\
         fn f(a: char, b: bool) -> bool { (pick(b) == a) != (b && !(a == 'q')) }\n",
    );
    s(
        "mixed-parameters",
        "record R { n: u8 }\n\
         fn f(i: i32, u: u8, x: f32, b: bool, c: char, s: String, o: Option[u8], l: List[i32], r: R) -> i32 {\n\
             if b && u == r.n { i } else { i + 1 }\n\
         }\n",
    );
    s(
        "test-item",
        "fn add(x: u32, y: u32) -> u32 { x + y }\n\
         test t_add { if add(1, 2) == 3 { accept } else { reject } }\n",
    );
    v.push(two(
        "hand/import-items",
        "import m.twice;\nimport m.Pt;\n\
         fn f(a: i32) -> i32 { let p: Pt = Pt { x: a, y: twice(a) }; p.x + p.y + m.K }\n",
        "record Pt { x: i32, y: i32 }\n\
         fn twice(a: i32) -> i32 { a * 2 }\n\
         const K: i32 = 7;\n",
    ));
    v.push(two(
        "hand/module-paths",
        "fn base(a: u16) -> u16 { a }\n\
         fn f(a: u16) -> u16 { m.inc(a) + pkg.m.inc(a) + m.up(a) }\n",
        "fn inc(a: u16) -> u16 { a + 1 }\n\
         fn up(a: u16) -> u16 { super.base(a) }\n",
    ));
    v.push(two(
        "hand/import-enum",
        "import m.Dir;\n\
         fn f(d: Dir) -> i32 { match d { Up => 1, Down => 0 - 1 } }\n\
         fn g() -> i32 { f(Dir.Up) + f(m.Dir.Down) }\n",
        "enum Dir { Up, Down }\n",
    ));
    v.push(two(
        "hand/import-in-block",
        "fn f(a: i32) -> i32 { import m.twice; twice(a) }\n\
         fn g(a: i32, c: bool) -> i32 { if c { import m.twice; twice(a) } else { import m.thrice; thrice(a) } }\n",
        "fn twice(a: i32) -> i32 { a * 2 }\n\
         fn thrice(a: i32) -> i32 { a * 3 }\n",
    ));
    let mut c = single(
        "hand/context",
        "const LIM: u32 = 10;\n\
         fn f(a: u32) -> u32 { if cx_flag { a + cx_n } else { LIM } }\n\
         fn g() -> bool { cx_flag && cx_n < LIM }\n\
         filtermap fm(a: u32) { if a < cx_n { accept a } else { reject cx_flag } }\n",
    );
    c.ctx = true;
    v.push(c);
    v.push(single("hand/runtime-constant", "fn f(a: u32) -> u32 { a + HOSTC }\nfn g() -> bool { HOSTB }\n"));
    v
}
