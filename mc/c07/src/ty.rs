//! Types of the generator's own (deliberately liberal) typing of the seeds,
//! and *classes* of types: what a context demands of a position independent
//! of the expression standing there.

use std::collections::HashMap;

#[derive(Clone, PartialEq, Eq, Debug, Hash)]
pub enum T {
    /// u8..i64, f32, f64, bool, char, String
    P(&'static str),
    Unit,
    /// type constructor applied to arguments: Option, List, Verdict, Result,
    /// user records/enums (`module::Name`), host types Tr, K, Z
    App(String, Vec<T>),
    /// anonymous record, fields sorted by name
    Anon(Vec<(String, T)>),
    /// type parameter inside a declaration
    TV(String),
    /// the never type `!` (only as the declared return type of a diverging function in a seed)
    Never,
}

pub const INTS: [&str; 8] = ["u8", "u16", "u32", "u64", "i8", "i16", "i32", "i64"];
pub const UNSIGNED: [&str; 4] = ["u8", "u16", "u32", "u64"];
pub const FLOATS: [&str; 2] = ["f32", "f64"];
pub const PRIMS: [&str; 13] = ["u8", "u16", "u32", "u64", "i8", "i16", "i32", "i64", "f32", "f64", "bool", "char", "String"];

pub fn prim(name: &str) -> Option<T> {
    PRIMS.iter().find(|p| **p == name).map(|p| T::P(p))
}

impl T {
    pub fn opt(t: T) -> T {
        T::App("Option".into(), vec![t])
    }
    pub fn list(t: T) -> T {
        T::App("List".into(), vec![t])
    }
    pub fn anon(mut fs: Vec<(String, T)>) -> T {
        fs.sort_by(|a, b| a.0.cmp(&b.0));
        T::Anon(fs)
    }
    pub fn is_int(&self) -> bool {
        matches!(self, T::P(p) if INTS.contains(p))
    }
    pub fn is_unsigned(&self) -> bool {
        matches!(self, T::P(p) if UNSIGNED.contains(p))
    }
    pub fn is_float(&self) -> bool {
        matches!(self, T::P(p) if FLOATS.contains(p))
    }
    pub fn is_num(&self) -> bool {
        self.is_int() || self.is_float()
    }
    pub fn show(&self) -> String {
        match self {
            T::P(p) => p.to_string(),
            T::Unit => "()".into(),
            T::App(n, a) => {
                let n = n.rsplit("::").next().unwrap();
                if a.is_empty() { n.to_string() } else { format!("{n}[{}]", a.iter().map(|x| x.show()).collect::<Vec<_>>().join(", ")) }
            }
            T::Anon(fs) => format!("{{ {} }}", fs.iter().map(|(n, t)| format!("{n}: {}", t.show())).collect::<Vec<_>>().join(", ")),
            T::TV(v) => v.clone(),
            T::Never => "!".into(),
        }
    }
    pub fn subst(&self, m: &[(String, T)]) -> T {
        match self {
            T::TV(v) => m.iter().find(|(n, _)| n == v).map(|(_, t)| t.clone()).unwrap_or_else(|| self.clone()),
            T::App(n, a) => T::App(n.clone(), a.iter().map(|x| x.subst(m)).collect()),
            T::Anon(fs) => T::Anon(fs.iter().map(|(n, t)| (n.clone(), t.subst(m))).collect()),
            _ => self.clone(),
        }
    }
    pub fn has_tv(&self) -> bool {
        match self {
            T::TV(_) => true,
            T::App(_, a) => a.iter().any(|x| x.has_tv()),
            T::Anon(fs) => fs.iter().any(|(_, t)| t.has_tv()),
            _ => false,
        }
    }
}

/// A class of types. `admits` over-approximates "a well-typed program could
/// have a value of this type here": an edit is only generated when the class
/// does NOT admit the new type, so over-approximation can only lose mutants,
/// never produce a false alarm.
#[derive(Clone, Debug, PartialEq)]
pub enum Cl {
    Any,
    Exact(T),
    Int,
    Float,
    Num,
    /// operands of `+`: numbers, String, List
    Addable,
    OptOf(Box<Cl>),
    ListOf(Box<Cl>),
    /// some instance of the named type constructor
    AppNamed(String),
    HasMethod(String),
    HasField(String),
    /// an enum type that has all these variants
    HasVariants(Vec<String>),
    All(Vec<Cl>),
}

impl Cl {
    pub fn exact(&self) -> Option<&T> {
        match self {
            Cl::Exact(t) => Some(t),
            Cl::All(v) => v.iter().find_map(|c| c.exact()),
            _ => None,
        }
    }
    pub fn and(self, o: Cl) -> Cl {
        match (self, o) {
            (Cl::Any, x) | (x, Cl::Any) => x,
            (Cl::All(mut a), Cl::All(b)) => {
                a.extend(b);
                Cl::All(a)
            }
            (Cl::All(mut a), x) | (x, Cl::All(mut a)) => {
                a.push(x);
                Cl::All(a)
            }
            (a, b) => Cl::All(vec![a, b]),
        }
    }
    pub fn admits(&self, u: &T, w: &World) -> bool {
        match self {
            Cl::Any => true,
            Cl::Exact(t) => t == u || w.record_compatible(t, u) || t.has_tv() || u.has_tv(),
            Cl::Int => u.is_int(),
            Cl::Float => u.is_float(),
            Cl::Num => u.is_num(),
            Cl::Addable => u.is_num() || *u == T::P("String") || matches!(u, T::App(n, _) if n == "List"),
            Cl::OptOf(c) => matches!(u, T::App(n, a) if n == "Option" && a.len() == 1 && c.admits(&a[0], w)),
            Cl::ListOf(c) => matches!(u, T::App(n, a) if n == "List" && a.len() == 1 && c.admits(&a[0], w)),
            Cl::AppNamed(name) => matches!(u, T::App(n, _) if n == name),
            Cl::HasMethod(m) => w.has_method(u, m),
            Cl::HasField(f) => w.field_ty(u, f).is_some(),
            Cl::HasVariants(vs) => match u {
                T::App(n, _) => match w.enums.get(n) {
                    Some(e) => vs.iter().all(|v| e.variants.iter().any(|(x, _)| x == v)),
                    None => false,
                },
                _ => false,
            },
            Cl::All(v) => v.iter().all(|c| c.admits(u, w)),
        }
    }
    pub fn admits_some_int(&self, w: &World) -> bool {
        INTS.iter().any(|p| self.admits(&T::P(p), w))
    }
    pub fn admits_some_float(&self, w: &World) -> bool {
        FLOATS.iter().any(|p| self.admits(&T::P(p), w))
    }
    pub fn show(&self) -> String {
        match self {
            Cl::Any => "any".into(),
            Cl::Exact(t) => t.show(),
            Cl::Int => "{integer}".into(),
            Cl::Float => "{float}".into(),
            Cl::Num => "{number}".into(),
            Cl::Addable => "{number|String|List}".into(),
            Cl::OptOf(c) => format!("Option[{}]", c.show()),
            Cl::ListOf(c) => format!("List[{}]", c.show()),
            Cl::AppNamed(n) => format!("{n}[..]"),
            Cl::HasMethod(m) => format!("{{has method {m}}}"),
            Cl::HasField(f) => format!("{{has field {f}}}"),
            Cl::HasVariants(v) => format!("{{enum with {}}}", v.join("/")),
            Cl::All(v) => v.iter().map(|c| c.show()).collect::<Vec<_>>().join(" & "),
        }
    }
}

#[derive(Clone, Debug)]
pub struct RecInfo {
    pub tparams: Vec<String>,
    pub fields: Vec<(String, T)>,
}

#[derive(Clone, Debug)]
pub struct EnumInfo {
    pub tparams: Vec<String>,
    pub variants: Vec<(String, Vec<T>)>,
}

#[derive(Clone, Debug)]
pub struct FnInfo {
    pub params: Vec<T>,
    /// None for a filtermap (Verdict with inferred arguments)
    pub ret: Option<T>,
}

#[derive(Clone, Debug, PartialEq)]
pub enum ItemRef {
    Fn(String),
    Rec(String),
    Enum(String),
    Const(String),
    Module(usize),
}

#[derive(Clone, Debug, Default)]
pub struct ModInfo {
    pub name: String,
    pub parent: Option<usize>,
    pub items: HashMap<String, ItemRef>,
    pub imports: HashMap<String, ItemRef>,
}

#[derive(Clone, Debug, Default)]
pub struct World {
    pub mods: Vec<ModInfo>,
    pub recs: HashMap<String, RecInfo>,
    pub enums: HashMap<String, EnumInfo>,
    pub fns: HashMap<String, FnInfo>,
    pub consts: HashMap<String, T>,
    /// context variables and runtime constants: global values
    pub globals: HashMap<String, T>,
    /// `Verdict[A, R]` of the filtermaps (inferred from their accept / reject operands)
    pub fm_verdict: HashMap<String, T>,
}

fn p(n: &'static str) -> T {
    T::P(n)
}

impl World {
    pub fn with_builtins(ctx_vars: &[(&str, T)]) -> World {
        let mut w = World::default();
        let tv = |s: &str| T::TV(s.into());
        w.enums.insert(
            "Option".into(),
            EnumInfo { tparams: vec!["T".into()], variants: vec![("Some".into(), vec![tv("T")]), ("None".into(), vec![])] },
        );
        w.enums.insert(
            "Verdict".into(),
            EnumInfo {
                tparams: vec!["A".into(), "R".into()],
                variants: vec![("Accept".into(), vec![tv("A")]), ("Reject".into(), vec![tv("R")])],
            },
        );
        w.enums.insert(
            "Result".into(),
            EnumInfo {
                tparams: vec!["T".into(), "E".into()],
                variants: vec![("Ok".into(), vec![tv("T")]), ("Err".into(), vec![tv("E")])],
            },
        );
        let tr = T::App("Tr".into(), vec![]);
        let k = T::App("K".into(), vec![]);
        let z = T::App("Z".into(), vec![]);
        let mut f = |n: &str, params: Vec<T>, ret: T| {
            w.fns.insert(n.to_string(), FnInfo { params, ret: Some(ret) });
        };
        for t in INTS {
            f(&format!("emit_{t}"), vec![p(t)], T::Unit);
            f(&format!("echo_{t}"), vec![p(t)], p(t));
        }
        f("emit_f32", vec![p("f32")], T::Unit);
        f("emit_f64", vec![p("f64")], T::Unit);
        f("emit_bool", vec![p("bool")], T::Unit);
        f("emit_char", vec![p("char")], T::Unit);
        f("emit_str", vec![p("String")], T::Unit);
        f("emit_unit", vec![T::Unit], T::Unit);
        f("e", vec![p("i32")], p("i32"));
        f("es", vec![p("i32")], p("String"));
        f("eb", vec![p("i32"), p("bool")], p("bool"));
        f("mk", vec![p("u64")], tr.clone());
        f("val", vec![tr.clone()], p("u64"));
        f("emit_tr", vec![tr.clone()], T::Unit);
        f("mkz", vec![], z.clone());
        f("eatz", vec![z.clone()], T::Unit);
        f("mkk", vec![p("u32")], k.clone());
        f("kval", vec![k.clone()], p("u32"));
        f("emit_k", vec![k.clone()], T::Unit);
        for (n, t) in ctx_vars {
            w.globals.insert(n.to_string(), t.clone());
        }
        w
    }

    /// named record `t` vs anonymous record `u` (or the other way round) with
    /// the same fields: anonymous record *literals* coerce, so stay liberal
    pub fn record_compatible(&self, t: &T, u: &T) -> bool {
        let fields = |x: &T| -> Option<Vec<(String, T)>> {
            match x {
                T::Anon(fs) => Some(fs.clone()),
                T::App(n, args) => {
                    let r = self.recs.get(n)?;
                    let m: Vec<(String, T)> = r.tparams.iter().cloned().zip(args.iter().cloned()).collect();
                    let mut fs: Vec<(String, T)> = r.fields.iter().map(|(n, t)| (n.clone(), t.subst(&m))).collect();
                    fs.sort_by(|a, b| a.0.cmp(&b.0));
                    Some(fs)
                }
                _ => None,
            }
        };
        match (t, u) {
            (T::Anon(_), T::App(..)) | (T::App(..), T::Anon(_)) => fields(t).is_some() && fields(t) == fields(u),
            _ => false,
        }
    }

    pub fn field_ty(&self, t: &T, f: &str) -> Option<T> {
        match t {
            T::Anon(fs) => fs.iter().find(|(n, _)| n == f).map(|(_, t)| t.clone()),
            T::App(n, args) => {
                let r = self.recs.get(n)?;
                let m: Vec<(String, T)> = r.tparams.iter().cloned().zip(args.iter().cloned()).collect();
                r.fields.iter().find(|(n, _)| n == f).map(|(_, t)| t.subst(&m))
            }
            _ => None,
        }
    }

    pub fn variants_of(&self, t: &T) -> Option<Vec<(String, Vec<T>)>> {
        let T::App(n, args) = t else { return None };
        let e = self.enums.get(n)?;
        let m: Vec<(String, T)> = e.tparams.iter().cloned().zip(args.iter().cloned()).collect();
        Some(e.variants.iter().map(|(v, fs)| (v.clone(), fs.iter().map(|t| t.subst(&m)).collect())).collect())
    }

    /// all method names of a type (also those whose signature is not modelled)
    pub fn method_names(&self, t: &T) -> Option<Vec<&'static str>> {
        Some(match t {
            T::P("String") => vec![
                "to_string", "append", "contains", "starts_with", "ends_with", "to_lowercase", "to_uppercase", "repeat", "eq",
                "replace", "split", "bytes", "chars", "lines", "trim", "trim_start", "trim_end", "strip_prefix",
                "strip_suffix", "splitn", "rsplitn",
            ],
            T::P(p) if FLOATS.contains(p) => {
                vec!["to_string", "floor", "ceil", "round", "abs", "sqrt", "pow", "is_nan", "is_infinite", "is_finite"]
            }
            T::P(_) => vec!["to_string"],
            T::Unit | T::Anon(_) | T::TV(_) | T::Never => vec![],
            T::App(n, _) => match n.as_str() {
                "List" => vec!["push", "contains", "index", "concat", "get", "swap", "len", "capacity", "is_empty", "join"],
                "Tr" => vec!["payload"],
                "K" | "Z" | "Option" | "Verdict" | "Result" => vec![],
                _ if self.recs.contains_key(n) || self.enums.contains_key(n) => vec![],
                // a type this model does not know: anything may exist
                _ => return None,
            },
        })
    }

    pub fn has_method(&self, t: &T, m: &str) -> bool {
        match self.method_names(t) {
            Some(v) => v.contains(&m),
            None => true,
        }
    }

    /// (parameter types without the receiver, return type) of a modelled method
    pub fn method_sig(&self, t: &T, m: &str) -> Option<(Vec<T>, T)> {
        let s = p("String");
        let b = p("bool");
        let u64_ = p("u64");
        Some(match (t, m) {
            (T::P(_), "to_string") => (vec![], s),
            (T::P(f), "floor" | "ceil" | "round" | "abs" | "sqrt") if FLOATS.contains(f) => (vec![], t.clone()),
            (T::P(f), "pow") if FLOATS.contains(f) => (vec![t.clone()], t.clone()),
            (T::P(f), "is_nan" | "is_infinite" | "is_finite") if FLOATS.contains(f) => (vec![], b),
            (T::P("String"), "append") => (vec![s.clone()], s),
            (T::P("String"), "contains" | "starts_with" | "ends_with" | "eq") => (vec![s], b),
            (T::P("String"), "to_lowercase" | "to_uppercase" | "trim" | "trim_start" | "trim_end") => (vec![], s),
            (T::P("String"), "repeat") => (vec![u64_], s),
            (T::P("String"), "replace") => (vec![s.clone(), s.clone()], s),
            (T::App(n, a), _) if n == "List" && a.len() == 1 => {
                let el = a[0].clone();
                match m {
                    "push" => (vec![el], T::Unit),
                    "contains" => (vec![el], b),
                    "index" => (vec![el], T::opt(u64_)),
                    "concat" => (vec![t.clone()], t.clone()),
                    "get" => (vec![u64_], T::opt(el)),
                    "swap" => (vec![u64_.clone(), u64_], T::Unit),
                    "len" | "capacity" => (vec![], u64_),
                    "is_empty" => (vec![], b),
                    "join" => (vec![s.clone()], s),
                    _ => return None,
                }
            }
            (T::App(n, _), "payload") if n == "Tr" => (vec![], u64_),
            _ => return None,
        })
    }
}
