//! C08 — side effects happen in source order, as often as control flow dictates.
//!
//! Every sub-expression position of every multi-operand construct is an
//! effect marker `e(k)` (returns k, logs k) or `eb(k, b)` (returns the input
//! bool b, logs (k, b)). All expressions up to the depth bound and all
//! statement bodies up to the size bound are enumerated; each program runs on
//! all 16 vectors of its four bool inputs; the host-call log (function,
//! arguments, order, multiplicity) and the result must equal the reference
//! interpreter's.

use c00ref::gen_expr::{bin, blk, var};
use c00ref::*;
use roto::{NoCtx, TypedFunc};
use vcore::{Cfg, Check, Cx, Finding, Meta, SUB_SETUP, Tier, Value, Violation, json};

const CHUNK: usize = 300;
const I32: IntTy = IntTy::I32;

// ------------------------------------------------------------ generator
// Expressions are built without marker numbers; `number()` assigns k = 1, 2, ..
// in source (pre-order, left-to-right) position afterwards.

fn em() -> E {
    E::Host("e".into(), vec![E::Int(0, None, I32)])
}
fn ebm(input: usize) -> E {
    E::Host("eb".into(), vec![E::Int(0, None, I32), var(["p", "q", "r", "s"][input % 4])])
}

fn int_forms(ints: &[E], bools: &[E], full: bool) -> Vec<E> {
    let mut out = vec![];
    let ops = [BinOp::Add, BinOp::Sub, BinOp::Mul, BinOp::Div, BinOp::Mod];
    for op in ops {
        for l in ints {
            for r in ints {
                out.push(bin(op, l.clone(), r.clone()));
            }
        }
    }
    for x in ints {
        out.push(E::Neg(Box::new(x.clone())));
    }
    // calls: 1-4 arguments
    for x in ints {
        out.push(E::Call("h1".into(), vec![x.clone()]));
    }
    for l in ints {
        for r in ints {
            out.push(E::Call("h2".into(), vec![l.clone(), r.clone()]));
            // receiver first: the receiver expression is itself effectful
            out.push(E::Method(
                Box::new(E::Call("lst".into(), vec![l.clone()])),
                "contains".into(),
                vec![r.clone()],
            ).pipe_bool());
            // operands and receivers are snapshots: an assignment to the
            // variable inside a LATER operand / argument must not be seen
            for (op, is_bool) in [(BinOp::Sub, false), (BinOp::Mul, false), (BinOp::Lt, true), (BinOp::Eq, true), (BinOp::Ne, true)] {
                let rhs = E::Block(blk(vec![S::Expr(E::Assign(vec!["x".into()], Box::new(r.clone())))], Some(E::Int(1, None, I32))));
                let e = bin(op, var("x"), rhs);
                let e = if is_bool { e.pipe_bool() } else { e };
                out.push(E::Block(blk(vec![S::Let("x".into(), Some(Ty::Int(I32)), l.clone())], Some(e))));
            }
            {
                // x.contains({ x = es(r); es(l) }): the receiver is the OLD x
                let arg = E::Block(blk(
                    vec![S::Expr(E::Assign(vec!["x".into()], Box::new(E::Host("es".into(), vec![r.clone()]))))],
                    Some(E::Host("es".into(), vec![E::Int(7, None, I32)])),
                ));
                let call = E::Method(Box::new(var("x")), "contains".into(), vec![arg]).pipe_bool();
                out.push(E::Block(blk(
                    vec![S::Let("x".into(), Some(Ty::Str), E::Host("es".into(), vec![E::Int(7, None, I32)]))],
                    Some(call),
                )));
                // h2(x, { x = r; 2 }): call arguments are snapshots too
                let arg2 = E::Block(blk(vec![S::Expr(E::Assign(vec!["x".into()], Box::new(r.clone())))], Some(E::Int(2, None, I32))));
                out.push(E::Block(blk(
                    vec![S::Let("x".into(), Some(Ty::Int(I32)), l.clone())],
                    Some(E::Call("h2".into(), vec![var("x"), arg2])),
                )));
            }
            // receiver and argument are both calls that log when they run
            out.push(E::Method(
                Box::new(E::Host("es".into(), vec![l.clone()])),
                "contains".into(),
                vec![E::Host("es".into(), vec![r.clone()])],
            ).pipe_bool());
            out.push(E::Call("slen".into(), vec![E::Method(
                Box::new(E::Host("es".into(), vec![l.clone()])),
                "append".into(),
                vec![E::Host("es".into(), vec![r.clone()])],
            )]));
            out.push(E::Call("slen".into(), vec![bin(
                BinOp::Add,
                E::Host("es".into(), vec![l.clone()]),
                E::Host("es".into(), vec![r.clone()]),
            )]));
            // record literal written in non-declared order, both fields read
            out.push(E::Field(
                Box::new(E::Rec(Some("R".into()), vec![("b".into(), l.clone()), ("a".into(), r.clone())])),
                "a".into(),
            ));
            out.push(E::Field(
                Box::new(E::Rec(None, vec![("y".into(), l.clone()), ("x".into(), r.clone())])),
                "y".into(),
            ));
            // list elements
            out.push(E::Call("first".into(), vec![E::ListLit(vec![l.clone(), r.clone()])]));
            // enum constructor arguments
            out.push(E::Call("pick".into(), vec![E::Ctor("P".into(), "Two".into(), vec![l.clone(), r.clone()])]));
            // block: statements top to bottom
            out.push(E::Block(blk(vec![S::Expr(l.clone())], Some(r.clone()))));
            // f-string parts
            out.push(E::Call("slen".into(), vec![E::FStr(vec![
                FPart::Expr(l.clone()),
                FPart::Text("-".into()),
                FPart::Expr(r.clone()),
            ])]));
            // an f-string as the FIRST thing in a block, its first interpolation of the
            // shape `X + { Y }` (the parser's record-or-block look-ahead stands right
            // in front of the modally lexed string)
            out.push(E::Call("slen".into(), vec![E::Block(blk(
                vec![],
                Some(E::FStr(vec![
                    FPart::Expr(bin(BinOp::Add, l.clone(), E::Block(blk(vec![], Some(r.clone()))))),
                    FPart::Text("x".into()),
                ])),
            ))]));
            // the same in statement position, followed by more of the block
            out.push(E::Block(blk(
                vec![S::Expr(E::Call("slen".into(), vec![E::FStr(vec![
                    FPart::Text("a".into()),
                    FPart::Expr(bin(BinOp::Mul, l.clone(), E::Block(blk(vec![], Some(r.clone()))))),
                ])]))],
                Some(r.clone()),
            )));
        }
    }
    let three: Vec<&E> = if full { ints.iter().collect() } else { ints.iter().take(2).collect() };
    for a in &three {
        for b in &three {
            for c in &three {
                out.push(E::Call("h3".into(), vec![(*a).clone(), (*b).clone(), (*c).clone()]));
            }
        }
    }
    if let Some(x) = ints.first() {
        out.push(E::Call("h4".into(), vec![x.clone(), x.clone(), x.clone(), x.clone()]));
    }
    for c in bools {
        for l in ints {
            for r in ints {
                out.push(E::If(Box::new(c.clone()), blk(vec![], Some(l.clone())), Some(blk(vec![], Some(r.clone())))));
            }
            // match on an option built from effectful parts
            out.push(E::Match(
                Box::new(E::Call("opt".into(), vec![c.clone(), l.clone()])),
                vec![
                    Arm { variant: Some("Some".into()), binds: vec!["y".into()], guard: None, body: blk(vec![], Some(bin(BinOp::Add, var("y"), em()))) },
                    Arm { variant: Some("None".into()), binds: vec![], guard: None, body: blk(vec![], Some(em())) },
                ],
            ));
        }
    }
    // one operand is a LITERAL (neutral or absorbing element, or the same value):
    // an implementation that folds `x * 0`, `x - 0`, `0 / x`, `x == 1` .. must
    // still run the effects of `x`, once (added after seeded change C08-4)
    for op in ops {
        for x in ints {
            for lit in [0, 1] {
                out.push(bin(op, x.clone(), E::Int(lit, None, I32)));
                out.push(bin(op, E::Int(lit, None, I32), x.clone()));
            }
        }
    }
    for x in ints {
        // literal conditions
        out.push(E::If(Box::new(E::Bool(true)), blk(vec![], Some(x.clone())), Some(blk(vec![], Some(em())))));
        out.push(E::If(Box::new(E::Bool(false)), blk(vec![], Some(em())), Some(blk(vec![], Some(x.clone())))));
        // match on a constructor written in place
        out.push(E::Match(
            Box::new(E::Ctor("Option".into(), "Some".into(), vec![x.clone()])),
            vec![
                Arm { variant: Some("Some".into()), binds: vec!["y".into()], guard: None, body: blk(vec![], Some(bin(BinOp::Add, var("y"), em()))) },
                Arm { variant: Some("None".into()), binds: vec![], guard: None, body: blk(vec![], Some(em())) },
            ],
        ));
    }
    out
}

trait PipeBool {
    fn pipe_bool(self) -> E;
}
impl PipeBool for E {
    /// bool -> i32 through `b2i`
    fn pipe_bool(self) -> E {
        E::Call("b2i".into(), vec![self])
    }
}

fn bool_forms(ints: &[E], bools: &[E]) -> Vec<E> {
    let mut out = vec![];
    for op in CMP {
        for l in ints {
            for r in ints {
                out.push(bin(op, l.clone(), r.clone()));
            }
        }
    }
    for op in [BinOp::And, BinOp::Or] {
        for l in bools {
            for r in bools {
                out.push(bin(op, l.clone(), r.clone()));
            }
        }
    }
    for x in bools {
        out.push(E::Not(Box::new(x.clone())));
    }
    // one operand is a LITERAL: `x && false` is false, but `x` still runs; `false && x` does not run `x`
    for op in [BinOp::And, BinOp::Or] {
        for x in bools {
            for lit in [true, false] {
                out.push(bin(op, x.clone(), E::Bool(lit)));
                out.push(bin(op, E::Bool(lit), x.clone()));
            }
        }
    }
    for op in CMP {
        for x in ints {
            for lit in [0, 1] {
                out.push(bin(op, x.clone(), E::Int(lit, None, I32)));
                out.push(bin(op, E::Int(lit, None, I32), x.clone()));
            }
        }
    }
    for x in bools {
        for lit in [true, false] {
            out.push(bin(BinOp::Eq, x.clone(), E::Bool(lit)));
            out.push(bin(BinOp::Ne, E::Bool(lit), x.clone()));
        }
    }
    out
}

/// int- and bool-typed effect expressions up to `depth`
fn effect_exprs(depth: u32, full: bool) -> (Vec<E>, Vec<E>) {
    let mut ints = vec![em()];
    let mut bools = vec![ebm(0)];
    for d in 0..depth {
        // keep the operand pools small at deeper levels: the leaf plus one
        // representative of every construct of the previous level
        let (pi, pb) = if d == 0 || (full && d == 1) { (ints.clone(), bools.clone()) } else { (sample(&ints), sample(&bools)) };
        let ni = int_forms(&pi, &pb, full || d == 0);
        let nb = bool_forms(&pi, &pb);
        ints.extend(ni);
        bools.extend(nb);
    }
    (ints, bools)
}

/// the leaf plus one expression per distinct root construct
fn sample(v: &[E]) -> Vec<E> {
    let mut seen = std::collections::HashSet::new();
    let mut out = vec![];
    for e in v {
        let k = root_kind(e);
        if seen.insert(k) {
            out.push(e.clone());
        }
    }
    out
}

fn root_kind(e: &E) -> String {
    match e {
        E::Bin(op, ..) => format!("bin{}", op.sym()),
        E::Call(f, _) => format!("call {f}"),
        E::Host(f, _) => format!("host {f}"),
        E::Method(_, m, _) => format!("method {m}"),
        E::Field(x, _) => format!("field {}", matches!(**x, E::Rec(Some(_), _))),
        other => format!("{:?}", std::mem::discriminant(other)),
    }
}

// ---- statement bodies -------------------------------------------------

fn stmt_forms(ints: &[E], bools: &[E], bodies: &[Vec<S>]) -> Vec<Vec<S>> {
    let mut out: Vec<Vec<S>> = vec![];
    let i0 = &ints[0];
    for x in ints {
        out.push(vec![S::Expr(x.clone())]);
        // compound assignment reads its target before the right-hand side runs
        out.push(vec![
            S::Let("x".into(), Some(Ty::Int(I32)), E::Int(1, None, I32)),
            S::Expr(E::Compound(
                vec!["x".into()],
                BinOp::Add,
                Box::new(E::Block(blk(
                    vec![S::Expr(E::Assign(vec!["x".into()], Box::new(E::Int(10, None, I32))))],
                    Some(x.clone()),
                ))),
            )),
            S::Expr(E::Host("emit_i32".into(), vec![var("x")])),
        ]);
        // nothing after return runs
        out.push(vec![S::Expr(E::Return(Some(Box::new(x.clone())))), S::Expr(em())]);
        // for over an effectful list
        out.push(vec![S::Expr(E::For(
            "v".into(),
            Box::new(E::ListLit(vec![x.clone(), i0.clone()])),
            blk(vec![S::Expr(E::Host("emit_i32".into(), vec![var("v")])), S::Expr(em())], None),
        ))]);
    }
    for b in bodies {
        // literal conditions: the body of `while false` / `if false` never runs, `if true` once
        out.push(vec![S::Expr(E::While(Box::new(E::Bool(false)), blk(b.clone(), None)))]);
        out.push(vec![S::Expr(E::If(Box::new(E::Bool(true)), blk(b.clone(), None), None))]);
        out.push(vec![S::Expr(E::If(Box::new(E::Bool(false)), blk(b.clone(), None), Some(blk(vec![S::Expr(em())], None))))]);
    }
    for c in bools {
        for b in bodies {
            for b2 in bodies.iter().take(2) {
                out.push(vec![S::Expr(E::If(Box::new(c.clone()), blk(b.clone(), None), Some(blk(b2.clone(), None))))]);
            }
            out.push(vec![S::Expr(E::If(Box::new(c.clone()), blk(b.clone(), None), None))]);
            // a loop condition runs once more than its body
            out.push(vec![
                S::Let("i".into(), Some(Ty::Int(I32)), E::Int(0, None, I32)),
                S::Expr(E::While(
                    Box::new(bin(BinOp::And, bin(BinOp::Lt, var("i"), E::Int(2, None, I32)), c.clone())),
                    blk(
                        {
                            let mut v = b.clone();
                            v.push(S::Expr(E::Assign(vec!["i".into()], Box::new(bin(BinOp::Add, var("i"), E::Int(1, None, I32))))));
                            v
                        },
                        None,
                    ),
                )),
            ]);
            // guards are tried in source order, also across `_` arms
            out.push(vec![S::Expr(E::Match(
                Box::new(E::Call("opt".into(), vec![c.clone(), i0.clone()])),
                vec![
                    Arm { variant: Some("Some".into()), binds: vec!["y".into()], guard: Some(ebm(1)), body: blk(b.clone(), None) },
                    Arm { variant: None, binds: vec![], guard: Some(ebm(2)), body: blk(vec![S::Expr(em())], None) },
                    Arm { variant: Some("Some".into()), binds: vec!["y".into()], guard: Some(ebm(3)), body: blk(vec![S::Expr(em())], None) },
                    Arm { variant: Some("Some".into()), binds: vec!["y".into()], guard: None, body: blk(vec![S::Expr(em())], None) },
                    Arm { variant: Some("None".into()), binds: vec![], guard: None, body: blk(b.clone(), None) },
                ],
            ))]);
            // `?` on None leaves the function: nothing after it runs
            out.push(vec![
                S::Expr(E::Call("tryit".into(), vec![c.clone()])),
                S::Expr(em()),
            ]);
            // early return from a nested block
            out.push(vec![
                S::Expr(E::If(Box::new(c.clone()), blk(vec![S::Expr(E::Return(Some(Box::new(i0.clone()))))], None), None)),
                S::Expr(em()),
            ]);
        }
    }
    out
}

fn bodies_upto(size: usize, full: bool) -> Vec<Vec<S>> {
    let (ints, bools) = effect_exprs(1, false);
    let ints = if full { ints } else { sample(&ints) };
    let bools = if full { bools } else { sample(&bools) };
    let mut level: Vec<Vec<S>> = vec![vec![S::Expr(em())]];
    let mut all = level.clone();
    for _ in 0..size {
        let inner: Vec<Vec<S>> = level.iter().take(if full { 12 } else { 4 }).cloned().collect();
        let forms = stmt_forms(&ints, &bools, &inner);
        // sequences of two statements: every form followed by a marker and
        // preceded by one
        let mut next = forms.clone();
        for f in forms.iter() {
            let mut v = vec![S::Expr(em())];
            v.extend(f.clone());
            v.push(S::Expr(em()));
            next.push(v);
        }
        all.extend(next.clone());
        level = next;
    }
    all
}

// ---- numbering --------------------------------------------------------

fn number_block(b: &mut Block, k: &mut i128) {
    for s in &mut b.stmts {
        match s {
            S::Let(_, _, e) | S::Expr(e) => number(e, k),
        }
    }
    if let Some(t) = &mut b.tail {
        number(t, k);
    }
}

fn number(e: &mut E, k: &mut i128) {
    match e {
        E::Host(f, args) if f == "e" || f == "eb" => {
            *k += 1;
            args[0] = E::Int(*k, None, I32);
            for a in args.iter_mut().skip(1) {
                number(a, k);
            }
        }
        E::Call(_, a) | E::Host(_, a) | E::Ctor(_, _, a) | E::ListLit(a) => a.iter_mut().for_each(|x| number(x, k)),
        E::Method(r, _, a) => {
            number(r, k);
            a.iter_mut().for_each(|x| number(x, k));
        }
        E::Neg(x) | E::Not(x) | E::Try(x) | E::Field(x, _) | E::Assign(_, x) | E::Compound(_, _, x) => number(x, k),
        E::Return(x) | E::Accept(x) | E::Reject(x) => {
            if let Some(x) = x {
                number(x, k)
            }
        }
        E::Bin(_, l, r) => {
            number(l, k);
            number(r, k);
        }
        E::If(c, t, f) => {
            number(c, k);
            number_block(t, k);
            if let Some(f) = f {
                number_block(f, k);
            }
        }
        E::Block(b) => number_block(b, k),
        E::Rec(_, fs) => fs.iter_mut().for_each(|(_, x)| number(x, k)),
        E::Match(x, arms) => {
            number(x, k);
            for a in arms {
                if let Some(g) = &mut a.guard {
                    number(g, k);
                }
                number_block(&mut a.body, k);
            }
        }
        E::FStr(parts) => {
            for p in parts {
                if let FPart::Expr(x) = p {
                    number(x, k);
                }
            }
        }
        E::While(c, b) => {
            number(c, k);
            number_block(b, k);
        }
        E::For(_, l, b) => {
            number(l, k);
            number_block(b, k);
        }
        _ => {}
    }
}

// ---- programs ---------------------------------------------------------

pub fn prelude() -> (Vec<RecDecl>, Vec<EnumDecl>, Vec<Func>) {
    let i = Ty::Int(I32);
    let f = |name: &str, params: Vec<(&str, Ty)>, ret: Ty, body: E| Func {
        name: name.into(),
        params: params.into_iter().map(|(n, t)| (n.to_string(), t)).collect(),
        ret,
        body: blk(vec![], Some(body)),
        filtermap: false,
    };
    let lit = |v: i128| E::Int(v, None, I32);
    let funcs = vec![
        f("h1", vec![("a", i.clone())], i.clone(), bin(BinOp::Add, var("a"), lit(1))),
        f("h2", vec![("a", i.clone()), ("b", i.clone())], i.clone(), bin(BinOp::Add, bin(BinOp::Mul, var("a"), lit(3)), var("b"))),
        f(
            "h3",
            vec![("a", i.clone()), ("b", i.clone()), ("c", i.clone())],
            i.clone(),
            bin(BinOp::Add, bin(BinOp::Add, bin(BinOp::Mul, var("a"), lit(3)), bin(BinOp::Mul, var("b"), lit(5))), var("c")),
        ),
        f(
            "h4",
            vec![("a", i.clone()), ("b", i.clone()), ("c", i.clone()), ("d", i.clone())],
            i.clone(),
            bin(BinOp::Sub, bin(BinOp::Add, var("a"), var("b")), bin(BinOp::Add, var("c"), var("d"))),
        ),
        f("b2i", vec![("b", Ty::Bool)], i.clone(), E::If(Box::new(var("b")), blk(vec![], Some(lit(1))), Some(blk(vec![], Some(lit(0)))))),
        f("lst", vec![("a", i.clone())], Ty::List(Box::new(i.clone())), E::ListLit(vec![var("a"), lit(2)])),
        f(
            "first",
            vec![("l", Ty::List(Box::new(i.clone())))],
            i.clone(),
            E::Match(
                Box::new(E::Method(Box::new(var("l")), "get".into(), vec![E::Int(0, None, IntTy::U64)])),
                vec![
                    Arm { variant: Some("Some".into()), binds: vec!["v".into()], guard: None, body: blk(vec![], Some(var("v"))) },
                    Arm { variant: Some("None".into()), binds: vec![], guard: None, body: blk(vec![], Some(lit(0))) },
                ],
            ),
        ),
        f(
            "pick",
            vec![("p", Ty::Named("P".into(), vec![]))],
            i.clone(),
            E::Match(
                Box::new(var("p")),
                vec![
                    Arm { variant: Some("Two".into()), binds: vec!["x".into(), "y".into()], guard: None, body: blk(vec![], Some(bin(BinOp::Sub, var("x"), var("y")))) },
                    Arm { variant: Some("Zero".into()), binds: vec![], guard: None, body: blk(vec![], Some(lit(0))) },
                ],
            ),
        ),
        f(
            "slen",
            vec![("s", Ty::Str)],
            i.clone(),
            E::Block(blk(vec![S::Expr(E::Host("emit_str".into(), vec![var("s")]))], Some(lit(7)))),
        ),
        f(
            "opt",
            vec![("c", Ty::Bool), ("x", i.clone())],
            Ty::Opt(Box::new(i.clone())),
            E::If(
                Box::new(var("c")),
                blk(vec![], Some(E::Ctor("Option".into(), "Some".into(), vec![var("x")]))),
                Some(blk(vec![], Some(E::Ctor("Option".into(), "None".into(), vec![])))),
            ),
        ),
        Func {
            name: "tryit".into(),
            params: vec![("c".into(), Ty::Bool)],
            ret: Ty::Opt(Box::new(i.clone())),
            body: blk(
                vec![
                    S::Let("v".into(), None, E::Try(Box::new(E::Call("opt".into(), vec![var("c"), E::Host("e".into(), vec![lit(90)])])))),
                    S::Expr(E::Host("e".into(), vec![lit(91)])),
                ],
                Some(E::Ctor("Option".into(), "Some".into(), vec![var("v")])),
            ),
            filtermap: false,
        },
    ];
    let mut funcs = funcs;
    funcs.extend(unit_helpers());
    let recs = vec![RecDecl { name: "R".into(), tparams: vec![], fields: vec![("a".into(), "i32".into()), ("b".into(), "i32".into())] }];
    let enums = vec![EnumDecl {
        name: "P".into(),
        tparams: vec![],
        variants: vec![("Two".into(), vec!["i32".into(), "i32".into()]), ("Zero".into(), vec![])],
    }];
    (recs, enums, funcs)
}

// ---- unit-typed effects -------------------------------------------------
// A call whose value is `()` has nothing to store, so every place that a value
// of type `()` can flow into is a place where an implementation may "optimise
// the store away" and lose the call with it (seeded change C08-5: the operand of
// `accept` / `reject`). Family: every unit-typed effect expression in every
// position that takes a unit value.

fn unit_helpers() -> Vec<Func> {
    let i = Ty::Int(I32);
    let lit = |v: i128| E::Int(v, None, I32);
    let emit = |x: E| E::Host("emit_i32".into(), vec![x]);
    let mark = |k: i128| E::Host("e".into(), vec![lit(k)]);
    let verdict = Ty::Verdict(Box::new(Ty::Unit), Box::new(Ty::Unit));
    let f = |name: &str, params: Vec<(&str, Ty)>, ret: Ty, body: Block| Func {
        name: name.into(),
        params: params.into_iter().map(|(n, t)| (n.to_string(), t)).collect(),
        ret,
        body,
        filtermap: false,
    };
    vec![
        // script function returning unit
        f("su", vec![("a", i.clone())], Ty::Unit, blk(vec![S::Expr(emit(var("a")))], None)),
        // takes a unit value in first / last position
        f("tu", vec![("u", Ty::Unit), ("b", i.clone())], i.clone(), blk(vec![], Some(var("b")))),
        f("ut", vec![("b", i.clone()), ("u", Ty::Unit)], i.clone(), blk(vec![], Some(var("b")))),
        // `return <unit call>` and a unit call as the tail of a unit function
        f(
            "ru",
            vec![("c", Ty::Bool)],
            Ty::Unit,
            blk(
                vec![S::Expr(E::If(Box::new(var("c")), blk(vec![S::Expr(E::Return(Some(Box::new(emit(mark(82))))))], None), None))],
                Some(emit(mark(83))),
            ),
        ),
        // accept / reject with a host call, a script call and a nested call as operand
        f(
            "va",
            vec![("c", Ty::Bool), ("d", Ty::Bool)],
            verdict.clone(),
            blk(
                vec![
                    S::Expr(E::If(Box::new(var("c")), blk(vec![S::Expr(E::Accept(Some(Box::new(emit(mark(84))))))], None), None)),
                    S::Expr(E::If(Box::new(var("d")), blk(vec![S::Expr(E::Reject(Some(Box::new(E::Call("su".into(), vec![mark(85)])))))], None), None)),
                ],
                Some(E::Accept(Some(Box::new(emit(bin(BinOp::Add, mark(86), mark(87))))))),
            ),
        ),
        f(
            "vr",
            vec![("c", Ty::Bool)],
            verdict,
            blk(
                vec![S::Expr(E::If(Box::new(var("c")), blk(vec![S::Expr(E::Reject(Some(Box::new(emit(mark(88))))))], None), None))],
                Some(E::Reject(Some(Box::new(E::Call("ru".into(), vec![var("c")]))))),
            ),
        ),
    ]
}

fn unit_bodies() -> Vec<Block> {
    let i = Ty::Int(I32);
    let lit = |v: i128| E::Int(v, None, I32);
    let emit = |x: E| E::Host("emit_i32".into(), vec![x]);
    // unit-typed effect expressions
    let units: Vec<E> = vec![
        emit(em()),
        E::Call("su".into(), vec![em()]),
        E::Host("emit_unit".into(), vec![emit(em())]),
        E::Block(blk(vec![S::Expr(em())], Some(emit(em())))),
        E::If(Box::new(ebm(0)), blk(vec![], Some(emit(em()))), Some(blk(vec![], Some(E::Call("su".into(), vec![em()]))))),
        E::Call("ru".into(), vec![ebm(1)]),
    ];
    let verdict_arms = |b1: E, b2: E| {
        vec![
            Arm { variant: Some("Accept".into()), binds: vec!["u".into()], guard: None, body: blk(vec![], Some(b1)) },
            Arm { variant: Some("Reject".into()), binds: vec!["u".into()], guard: None, body: blk(vec![], Some(b2)) },
        ]
    };
    let mut out: Vec<Block> = vec![];
    // the helper functions with accept / reject / return of a unit call, on every input
    out.push(blk(vec![], Some(E::Match(Box::new(E::Call("va".into(), vec![var("p"), var("q")])), verdict_arms(em(), em())))));
    out.push(blk(vec![], Some(E::Match(Box::new(E::Call("vr".into(), vec![var("p")])), verdict_arms(em(), em())))));
    out.push(blk(vec![S::Expr(E::Call("ru".into(), vec![var("p")]))], Some(em())));
    for u in &units {
        let u = || u.clone();
        // statement; let + use; assignment
        out.push(blk(vec![S::Expr(u())], Some(em())));
        out.push(blk(vec![S::Let("x".into(), None, u()), S::Expr(E::Host("emit_unit".into(), vec![var("x")]))], Some(em())));
        out.push(blk(vec![S::Let("x".into(), Some(Ty::Unit), E::Unit), S::Expr(E::Assign(vec!["x".into()], Box::new(u()))), S::Expr(em())], Some(lit(0))));
        // argument of a host function / script function (first, last)
        out.push(blk(vec![S::Expr(E::Host("emit_unit".into(), vec![u()]))], Some(em())));
        out.push(blk(vec![], Some(E::Call("tu".into(), vec![u(), em()]))));
        out.push(blk(vec![], Some(E::Call("ut".into(), vec![em(), u()]))));
        // constructor payloads, matched afterwards
        out.push(blk(
            vec![],
            Some(E::Match(
                Box::new(E::Ctor("Option".into(), "Some".into(), vec![u()])),
                vec![
                    Arm { variant: Some("Some".into()), binds: vec!["v".into()], guard: None, body: blk(vec![], Some(em())) },
                    Arm { variant: Some("None".into()), binds: vec![], guard: None, body: blk(vec![], Some(lit(0))) },
                ],
            )),
        ));
        for v in ["Accept", "Reject"] {
            out.push(blk(
                vec![S::Let("w".into(), Some(Ty::Verdict(Box::new(Ty::Unit), Box::new(Ty::Unit))), E::Ctor("Verdict".into(), v.into(), vec![u()]))],
                Some(E::Match(Box::new(var("w")), verdict_arms(em(), em()))),
            ));
        }
        // record fields (unit field first / last), list elements
        out.push(blk(vec![S::Let("rc".into(), None, E::Rec(None, vec![("a".into(), u()), ("b".into(), em())]))], Some(E::Field(Box::new(var("rc")), "b".into()))));
        out.push(blk(vec![S::Let("rc".into(), None, E::Rec(None, vec![("b".into(), em()), ("a".into(), u())]))], Some(E::Field(Box::new(var("rc")), "b".into()))));
        out.push(blk(vec![S::Let("l".into(), None, E::ListLit(vec![u(), u()]))], Some(em())));
        // comparison of two unit values, block and if values
        out.push(blk(vec![], Some(bin(BinOp::Eq, u(), u()).pipe_bool())));
        out.push(blk(vec![], Some(bin(BinOp::Ne, u(), E::Unit).pipe_bool())));
        out.push(blk(vec![S::Let("x".into(), None, E::Block(blk(vec![S::Expr(em())], Some(u()))))], Some(em())));
        out.push(blk(
            vec![S::Let("x".into(), None, E::If(Box::new(ebm(2)), blk(vec![], Some(u())), Some(blk(vec![], Some(u())))))],
            Some(em()),
        ));
        // inside loops: as often as control flow dictates
        out.push(blk(
            vec![
                S::Let("i".into(), Some(i.clone()), lit(0)),
                S::Expr(E::While(
                    Box::new(bin(BinOp::Lt, var("i"), lit(2))),
                    blk(vec![S::Let("x".into(), None, u()), S::Expr(E::Assign(vec!["i".into()], Box::new(bin(BinOp::Add, var("i"), lit(1)))))], None),
                )),
            ],
            Some(em()),
        ));
    }
    out
}

// ---- the examinee of a match is evaluated once ------------------------------
// (seeded change C08-7, the third independent rediscovery of C02-6 / C03-7: a matched
// local used in place). A failing guard assigns to the matched variable; the arms after
// it hand their bindings to host calls and use them in their own guards.

fn examinee_bodies() -> Vec<Block> {
    let i = Ty::Int(I32);
    let lit = |v: i128| E::Int(v, None, I32);
    let emit = |x: E| E::Host("emit_i32".into(), vec![x]);
    let some = |x: E| E::Ctor("Option".into(), "Some".into(), vec![x]);
    let none = || E::Ctor("Option".into(), "None".into(), vec![]);
    let mut out = vec![];
    for new_value in [some(bin(BinOp::Add, em(), lit(50))), none()] {
        for wildcard_first in [false, true] {
            // guard: assigns to the examinee, then an input-driven marker decides
            let guard = E::Block(blk(vec![S::Expr(E::Assign(vec!["x".into()], Box::new(new_value.clone())))], Some(ebm(1))));
            let first = if wildcard_first {
                Arm { variant: None, binds: vec![], guard: Some(guard), body: blk(vec![S::Expr(em())], None) }
            } else {
                Arm { variant: Some("Some".into()), binds: vec!["y".into()], guard: Some(guard), body: blk(vec![S::Expr(emit(var("y")))], None) }
            };
            let arms = vec![
                first,
                // a later guard reads its binding
                Arm {
                    variant: Some("Some".into()),
                    binds: vec!["y".into()],
                    guard: Some(bin(BinOp::And, bin(BinOp::Gt, var("y"), lit(40)), ebm(2))),
                    body: blk(vec![S::Expr(emit(var("y"))), S::Expr(em())], None),
                },
                Arm { variant: Some("Some".into()), binds: vec!["z".into()], guard: None, body: blk(vec![S::Expr(emit(var("z")))], None) },
                Arm { variant: Some("None".into()), binds: vec![], guard: None, body: blk(vec![S::Expr(em())], None) },
            ];
            out.push(blk(
                vec![
                    S::Let("x".into(), Some(Ty::Opt(Box::new(i.clone()))), E::Call("opt".into(), vec![ebm(0), em()])),
                    S::Expr(E::Match(Box::new(var("x")), arms)),
                    // what the variable holds afterwards
                    S::Expr(E::Match(
                        Box::new(var("x")),
                        vec![
                            Arm { variant: Some("Some".into()), binds: vec!["w".into()], guard: None, body: blk(vec![S::Expr(emit(var("w")))], None) },
                            Arm { variant: Some("None".into()), binds: vec![], guard: None, body: blk(vec![S::Expr(emit(lit(0 - 1 + 1)))], None) },
                        ],
                    )),
                ],
                Some(em()),
            ));
        }
    }
    out
}

// ---- f-string parts whose conversion is a host call --------------------------
// (seeded change C08-8: all part expressions lowered first, the `to_string` calls of the
// parts emitted afterwards). Built-in parts convert silently; a part of the harness's
// copy type K converts through a registered, logging `to_string`.

fn fstring_host_bodies() -> Vec<Block> {
    let lit = |v: i128| E::Int(v, None, IntTy::U32);
    let k = |v: i128| E::Host("mkk".into(), vec![lit(v)]);
    let part = |e: E| FPart::Expr(e);
    let text = |t: &str| FPart::Text(t.into());
    let slen = |f: E| E::Call("slen".into(), vec![f]);
    let mut out = vec![];
    let forms: Vec<Vec<FPart>> = vec![
        vec![part(k(1)), part(em()), part(k(2)), part(em())],
        vec![part(k(1)), text("-"), part(k(2))],
        vec![part(em()), part(k(1))],
        vec![part(k(1)), part(em())],
        vec![part(k(1)), text(" and "), part(E::Host("es".into(), vec![E::Int(0, None, I32)])), part(k(3))],
        vec![part(var("t")), text(" and "), part(em()), part(var("t"))],
        vec![part(k(1)), part(E::FStr(vec![part(k(2)), part(em())])), part(k(3))],
        vec![part(E::If(Box::new(ebm(0)), blk(vec![], Some(k(4))), Some(blk(vec![], Some(k(5)))))), part(em())],
    ];
    for f in forms {
        out.push(blk(vec![S::Let("t".into(), None, k(7))], Some(slen(E::FStr(f)))));
    }
    out
}

// ---- the iterable of a `for` is evaluated once -----------------------------------
// (seeded change C08-9: a bare local used in place as the source of every `get`, so a body
// that reassigns the variable changes what the following iterations see)

fn for_iterable_bodies() -> Vec<Block> {
    let lit = |v: i128| E::Int(v, None, I32);
    let emit = |x: E| E::Host("emit_i32".into(), vec![x]);
    let list = |v: Vec<E>| E::ListLit(v);
    let mut out = vec![];
    for new_list in [list(vec![lit(10), lit(20), lit(30), lit(40)]), list(vec![]), list(vec![em()])] {
        // over a local
        out.push(blk(
            vec![
                S::Let("xs".into(), None, list(vec![em(), em(), lit(3)])),
                S::Expr(E::For(
                    "x".into(),
                    Box::new(var("xs")),
                    blk(vec![S::Expr(emit(var("x"))), S::Expr(E::Assign(vec!["xs".into()], Box::new(new_list.clone()))), S::Expr(em())], None),
                )),
                // what the variable holds afterwards
                S::Expr(E::For("y".into(), Box::new(var("xs")), blk(vec![S::Expr(emit(var("y")))], None))),
            ],
            Some(em()),
        ));
        // over a parameter of a helper is covered by `lst`; over a field of a record
        out.push(blk(
            vec![
                S::Let("rc".into(), None, E::Rec(None, vec![("l".into(), list(vec![em(), lit(2)]))])),
                S::Expr(E::For(
                    "x".into(),
                    Box::new(E::Field(Box::new(var("rc")), "l".into())),
                    blk(vec![S::Expr(emit(var("x"))), S::Expr(E::Assign(vec!["rc".into(), "l".into()], Box::new(new_list.clone())))], None),
                )),
            ],
            Some(em()),
        ));
    }
    // pushes through the variable ARE seen (lists are shared): bounded by a length test
    out.push(blk(
        vec![
            S::Let("xs".into(), None, list(vec![em(), lit(2)])),
            S::Expr(E::For(
                "x".into(),
                Box::new(var("xs")),
                blk(
                    vec![
                        S::Expr(emit(var("x"))),
                        S::Expr(E::If(
                            Box::new(bin(BinOp::Lt, E::Method(Box::new(var("xs")), "len".into(), vec![]), E::Int(4, None, IntTy::U64))),
                            blk(vec![S::Expr(E::Method(Box::new(var("xs")), "push".into(), vec![em()]))], None),
                            None,
                        )),
                    ],
                    None,
                ),
            )),
        ],
        Some(em()),
    ));
    out
}

pub fn entry(name: &str, body: Block) -> Func {
    Func {
        name: name.into(),
        params: ["p", "q", "r", "s"].iter().map(|n| (n.to_string(), Ty::Bool)).collect(),
        ret: Ty::Int(I32),
        body,
        filtermap: false,
    }
}

/// all programs (entry bodies) of a tier
pub fn all_bodies(tier: Tier) -> Vec<Block> {
    let mut out = vec![];
    let (ints, bools) = effect_exprs(tier.pick(2, 3), tier == Tier::Thorough);
    for e in ints {
        out.push(blk(vec![], Some(e)));
    }
    for b in bools {
        out.push(blk(vec![], Some(b.pipe_bool())));
    }
    for b in bodies_upto(tier.pick(2, 3), tier == Tier::Thorough) {
        out.push(blk(b, Some(E::Int(0, None, I32))));
    }
    out.extend(unit_bodies());
    out.extend(examinee_bodies());
    out.extend(fstring_host_bodies());
    out.extend(for_iterable_bodies());
    for b in &mut out {
        let mut k = 0;
        number_block(b, &mut k);
    }
    out
}

pub fn cached(tier: Tier) -> &'static Vec<Block> {
    static C: std::sync::OnceLock<Vec<Block>> = std::sync::OnceLock::new();
    C.get_or_init(|| all_bodies(tier))
}

fn has_markers(b: &Block) -> usize {
    print_block(b).matches("e(").count() + print_block(b).matches("eb(").count()
}

struct C08;

impl Check for C08 {
    fn id(&self) -> &'static str {
        "C08"
    }
    fn units(&self, cfg: &Cfg) -> usize {
        cached(cfg.tier).len().div_ceil(CHUNK)
    }
    fn max_deaths_per_unit(&self, _cfg: &Cfg) -> u32 {
        // a well-typed generated program must never kill the process: a few
        // deaths are enough evidence, re-running the unit after each is wasted
        20
    }
    fn case_timeout_s(&self, cfg: &Cfg) -> f64 {
        cfg.tier.pick(60.0, 300.0)
    }
    fn run_unit(&self, unit: usize, cx: &mut Cx) {
        if !cx.case(SUB_SETUP) {
            return;
        }
        let all = cached(cx.cfg.tier);
        let lo = unit * CHUNK;
        let hi = (lo + CHUNK).min(all.len());
        let (recs, enums, helpers) = prelude();
        let mut prog = Program { records: recs, enums, funcs: helpers };
        for (i, b) in all[lo..hi].iter().enumerate() {
            prog.funcs.push(entry(&format!("f{i}"), b.clone()));
        }
        let rt = host::runtime();
        let text = print_program(&prog);
        let mut pkg = match host::compile(&rt, &text) {
            Ok(p) => Some(p),
            Err(_) => None,
        };
        for (i, b) in all[lo..hi].iter().enumerate() {
            let name = format!("f{i}");
            let mut single;
            let mut single_prog;
            let (pk, pr, fname): (&mut roto::Package<NoCtx>, &Program, String) = match pkg.as_mut() {
                Some(p) => (p, &prog, name.clone()),
                None => {
                    // batch failed: compile alone to find the culprit
                    let (recs, enums, helpers) = prelude();
                    single_prog = Program { records: recs, enums, funcs: helpers };
                    single_prog.funcs.push(entry("f", b.clone()));
                    if !cx.case(((i as u64) << 8) | 0xFF) {
                        continue;
                    }
                    match host::compile(&rt, &print_program(&single_prog)) {
                        Ok(p) => {
                            single = p;
                            (&mut single, &single_prog, "f".to_string())
                        }
                        Err(e) => {
                            cx.violation(
                                match e {
                                    host::CompileFail::Panic(_) => "compile-panic",
                                    host::CompileFail::Report(_) => "rejected",
                                },
                                (i as u64) << 8,
                                json!({"program": print_func(&entry("f", b.clone()))}),
                                json!("a well-typed program compiles"),
                                json!(format!("{e:?}")),
                            );
                            continue;
                        }
                    }
                }
            };
            let f: TypedFunc<NoCtx, fn(bool, bool, bool, bool) -> i32> = match pk.get_function(&fname) {
                Ok(f) => f,
                Err(e) => {
                    cx.violation("get_function", (i as u64) << 8, json!({"program": print_block(b)}), json!("Ok"), json!(e.to_string()));
                    continue;
                }
            };
            cx.states(1);
            let src = print_func(&entry("f", b.clone()));
            let mut logs = std::collections::HashSet::new();
            let mut reported = false;
            for v in 0..16u64 {
                let bits = [v & 1 != 0, v & 2 != 0, v & 4 != 0, v & 8 != 0];
                let args: Vec<V> = bits.iter().map(|b| V::Bool(*b)).collect();
                let expect = match eval_fn(pr, &fname, &args) {
                    Ok(o) => o,
                    Err(Stop::Unspecified(_)) | Err(Stop::Fuel) => {
                        cx.unspecified(1);
                        continue;
                    }
                    Err(Stop::Stuck(m)) => {
                        if !reported {
                            reported = true;
                            cx.violation("model-stuck", (i as u64) << 8, json!({"program": src}), json!("model evaluates"), json!(m));
                        }
                        continue;
                    }
                    Err(Stop::Return(_)) => unreachable!(),
                };
                let sub = ((i as u64) << 8) | v;
                if !cx.case(sub) {
                    continue;
                }
                host::clear_log();
                let got = f.call(bits[0], bits[1], bits[2], bits[3]);
                let log = host::take_log();
                cx.transitions(1);
                cx.validated(1);
                logs.insert(format!("{log:?}"));
                let want = match expect.value {
                    V::Int(_, x) => x as i32,
                    _ => 0,
                };
                if (log != expect.log || got != want) && !reported {
                    reported = true;
                    cx.violation(
                        if log != expect.log { "order-mismatch" } else { "value-mismatch" },
                        sub,
                        json!({"program": src, "inputs": {"p": bits[0], "q": bits[1], "r": bits[2], "s": bits[3]}}),
                        json!({"log": format!("{:?}", expect.log), "value": want}),
                        json!({"log": format!("{log:?}"), "value": got}),
                    );
                }
            }
            // non-trivial: at least two markers and the log depends on the inputs
            if has_markers(b) >= 2 && logs.len() > 1 {
                cx.nontrivial(vcore::util::fnv_str(&src));
            }
            let mut h = 0u64;
            for l in &logs {
                h ^= vcore::util::fnv_str(l);
            }
            cx.outcome(h);
            if i == 0 {
                cx.sample(json!({"program": src, "distinct_logs_over_16_inputs": logs.len()}));
            }
        }
    }
    fn describe(&self, cfg: &Cfg, unit: usize, sub: u64) -> Value {
        if sub == SUB_SETUP {
            return json!({"phase": "batch compile", "unit": unit});
        }
        let all = cached(cfg.tier);
        let i = unit * CHUNK + (sub >> 8) as usize;
        let v = sub & 0xFF;
        json!({"program": all.get(i).map(|b| print_func(&entry("f", b.clone()))), "input_vector": v})
    }
    fn matches(&self, _f: &Finding, _v: &Violation) -> bool {
        false
    }
    fn meta(&self, cfg: &Cfg) -> Meta {
        Meta {
            rule: "all effect-marker expressions over every multi-operand construct (binary/unary operators, calls with 1-4 arguments, method calls with an effectful receiver, record literals in non-declared order, list literals, enum constructors, f-strings, blocks, if/else, match) up to the depth bound, and all statement bodies (compound assignment, return, for, if, while, guarded match with interleaved `_` arms, `?`, early return) up to the size bound, each on all 16 input vectors; non-trivial = at least two markers and the log differs between input vectors".into(),
            assumptions: vec!["reference interpreter c00ref defines left-to-right, receiver-first, short-circuit order".into()],
            bounds: json!({"expr_depth": cfg.tier.pick(2, 3), "body_size": cfg.tier.pick(2, 3), "inputs": 16}),
            states_are: "distinct generated programs".into(),
            transitions_are: "calls of a compiled program on one input vector; log and value compared with the reference".into(),
        }
    }
}

pub fn run() -> ! {
    vcore::main(&C08)
}
