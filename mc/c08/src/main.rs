fn main() {
    c08::run()
}
