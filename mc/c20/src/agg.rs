//! Aggregate programs the IR evaluator can run: records nested to depth 3 and
//! enums with record payloads over ONE integer type (the evaluator stops loudly
//! on most mixed-width aggregates, strings and registered types, so C02's
//! programs never complete in it). Every template is instantiated for every
//! leaf of every aggregate type, so that every chain of field offsets — through
//! locals, copies, parameters, return values, enum payloads and the generated
//! equality functions — is taken at least once with a value that differs from
//! its neighbours.
//!
//! Entry: `fn tN(p: T, q: T) -> T`, T = i32 or i64. No host calls.

/// (type name, leaves as field paths)
const TYPES: [(&str, &[&str]); 3] = [
    ("Bar", &["a", "b"]),
    ("Foo", &["x.a", "x.b", "y.a", "y.b", "z"]),
    ("Deep", &["f.x.a", "f.x.b", "f.y.a", "f.y.b", "f.z", "g.a", "g.b"]),
];

pub fn decls(t: &str) -> String {
    format!(
        "record Bar {{ a: {t}, b: {t} }}\n\
         record Foo {{ x: Bar, y: Bar, z: {t} }}\n\
         record Deep {{ f: Foo, g: Bar }}\n\
         enum En {{ A({t}, {t}), B, C(Bar), D(Foo), E(Deep) }}\n"
    )
}

/// literal of type `ty` whose i-th leaf is `vals[i]`
fn lit(ty: &str, vals: &[String]) -> String {
    match ty {
        "Bar" => format!("Bar {{ a: {}, b: {} }}", vals[0], vals[1]),
        "Foo" => format!("Foo {{ x: {}, y: {}, z: {} }}", lit("Bar", &vals[0..2]), lit("Bar", &vals[2..4]), vals[4]),
        "Deep" => format!("Deep {{ f: {}, g: {} }}", lit("Foo", &vals[0..5]), lit("Bar", &vals[5..7])),
        _ => unreachable!(),
    }
}

/// distinct expressions over p and q, one per leaf
fn leaf_vals(n: usize) -> Vec<String> {
    ["p", "q", "p + 1", "q + 2", "p - q", "p + p", "q - 3"][..n].iter().map(|s| s.to_string()).collect()
}

fn weighted(var: &str, leaves: &[&str]) -> String {
    let w = [3, 5, 7, 11, 13, 17, 19];
    leaves.iter().enumerate().map(|(i, l)| format!("{var}.{l} * {}", w[i])).collect::<Vec<_>>().join(" + ")
}

/// type of the aggregate reached by `prefix` inside `ty`
fn type_at(ty: &str, prefix: &str) -> &'static str {
    match (ty, prefix) {
        ("Foo", "x" | "y") | ("Deep", "g" | "f.x" | "f.y") => "Bar",
        ("Deep", "f") => "Foo",
        _ => unreachable!(),
    }
}

pub struct AggProg {
    pub name: String,
    pub kind: String,
    pub src: String,
}

/// All programs for element type `t` (helpers are emitted with their program)
pub fn programs(t: &str) -> Vec<AggProg> {
    let mut out: Vec<AggProg> = vec![];
    let mut add = |kind: String, body: String, helpers: String| {
        let name = format!("t{}", out.len());
        let src = format!("{helpers}fn {name}(p: {t}, q: {t}) -> {t} {{ {body} }}\n").replace("NAME", &name);
        out.push(AggProg { name, kind, src });
    };
    for (ty, leaves) in TYPES {
        let n = leaves.len();
        let vals = leaf_vals(n);
        let build = lit(ty, &vals);
        for (li, leaf) in leaves.iter().enumerate() {
            // read one leaf of a literal / of a local
            add(format!("{ty}/read/{leaf}"), format!("let v = {build}; v.{leaf}"), String::new());
            // == and != of two values that differ in exactly this leaf
            let mut other = vals.clone();
            other[li] = format!("{} + 1", vals[li]);
            add(
                format!("{ty}/eq-differ/{leaf}"),
                format!("let l = {build}; let r = {}; let s = {build}; if l == r {{ 1 }} else if l != s {{ 2 }} else if r != l {{ 3 }} else {{ 0 }}", lit(ty, &other)),
                String::new(),
            );
            // the same with the difference only when p != q
            let mut other = vals.clone();
            other[li] = format!("{} + p - q", vals[li]);
            add(
                format!("{ty}/eq-input/{leaf}"),
                format!("let l = {build}; let r = {}; if l == r {{ 1 }} else {{ 0 }}", lit(ty, &other)),
                String::new(),
            );
            // write one leaf, read all
            add(format!("{ty}/write/{leaf}"), format!("let v = {build}; v.{leaf} = q * 100; {}", weighted("v", leaves)), String::new());
            // copy, write the original / the copy, read both
            add(
                format!("{ty}/copy-write-original/{leaf}"),
                format!("let v = {build}; let c = v; v.{leaf} = 1000; ({}) - ({})", weighted("v", leaves), weighted("c", leaves)),
                String::new(),
            );
            add(
                format!("{ty}/copy-write-copy/{leaf}"),
                format!("let v = {build}; let c = v; c.{leaf} = 1000; ({}) * 2 - ({})", weighted("v", leaves), weighted("c", leaves)),
                String::new(),
            );
            // by-value parameter: the callee writes, the caller must not see it
            add(
                format!("{ty}/param-write/{leaf}"),
                format!("let v = {build}; let r = NAME_h(v, q); r + ({})", weighted("v", leaves)),
                format!("fn NAME_h(x: {ty}, k: {t}) -> {t} {{ x.{leaf} = k * 50; {} }}\n", weighted("x", leaves)),
            );
            // returned aggregate
            add(
                format!("{ty}/return/{leaf}"),
                format!("let v = NAME_h(p, q); v.{leaf}"),
                format!("fn NAME_h(p: {t}, q: {t}) -> {ty} {{ {build} }}\n"),
            );
            // if/else join
            let mut other = vals.clone();
            other.rotate_left(1);
            add(
                format!("{ty}/join/{leaf}"),
                format!("let v = if p < q {{ {build} }} else {{ {} }}; v.{leaf}", lit(ty, &other)),
                String::new(),
            );
            // accumulate in a loop
            add(
                format!("{ty}/loop/{leaf}"),
                format!("let v = {build}; let i = 0; while i < 3 {{ v.{leaf} = v.{leaf} + p; i = i + 1; }} {}", weighted("v", leaves)),
                String::new(),
            );
            // through an Option (the evaluator may stop loudly here)
            add(
                format!("{ty}/option/{leaf}"),
                format!("let o = if p < q {{ Option.Some({build}) }} else {{ Option.None }}; match o {{ Some(v) => v.{leaf}, None => 0 - 1 }}"),
                String::new(),
            );
            // every proper prefix of the path: pass the sub-aggregate on, the callee takes the rest
            let segs: Vec<&str> = leaf.split('.').collect();
            for cut in 1..segs.len() {
                let prefix = segs[..cut].join(".");
                let rest = segs[cut..].join(".");
                let sub = type_at(ty, &prefix);
                add(
                    format!("{ty}/pass-sub/{prefix}|{rest}"),
                    format!("let v = {build}; NAME_h(v.{prefix}) + v.{leaf}"),
                    format!("fn NAME_h(x: {sub}) -> {t} {{ x.{rest} * 3 }}\n"),
                );
                // replace the sub-aggregate as a whole
                let sub_n = TYPES.iter().find(|x| x.0 == sub).unwrap().1.len();
                let fresh: Vec<String> = (0..sub_n).map(|i| format!("q + {}", 40 + i)).collect();
                add(
                    format!("{ty}/assign-sub/{prefix}|{rest}"),
                    format!("let v = {build}; v.{prefix} = {}; {}", lit(sub, &fresh), weighted("v", leaves)),
                    String::new(),
                );
                // compare sub-aggregates of two values
                add(
                    format!("{ty}/eq-sub/{prefix}|{rest}"),
                    format!("let l = {build}; let r = {build}; r.{leaf} = r.{leaf} + p - q; if l.{prefix} == r.{prefix} {{ 1 }} else {{ 0 }}"),
                    String::new(),
                );
            }
        }
        // enum payloads
        let ctor = match ty {
            "Bar" => "C",
            "Foo" => "D",
            _ => "E",
        };
        for (li, leaf) in leaves.iter().enumerate() {
            add(
                format!("{ty}/enum-match/{leaf}"),
                format!("let e = if p <= q {{ En.{ctor}({build}) }} else {{ En.A(p, q) }}; let m1 = match e {{ A(x, y) => x - y, B => 7, C(v) => v.a, D(v) => v.z, E(v) => v.g.b }}; let m2 = match e {{ {ctor}(v) => v.{leaf}, _ => 0 }}; m1 * 1000 + m2"),
                String::new(),
            );
            let mut other = vals.clone();
            other[li] = format!("{} + p - q", vals[li]);
            add(
                format!("{ty}/enum-eq/{leaf}"),
                format!("let l = En.{ctor}({build}); let r = En.{ctor}({}); if l == r {{ 1 }} else if l == En.B {{ 2 }} else {{ 0 }}", lit(ty, &other)),
                String::new(),
            );
        }
    }
    // variants with plain payloads
    add("enum/plain-eq".into(), "let l = En.A(p, q); let r = En.A(q, p); if l == r { 1 } else if l != En.B { 2 } else { 3 }".into(), String::new());
    add(
        "enum/variant-select".into(),
        "let e = if p < q { En.A(p, q) } else if p == q { En.B } else { En.C(Bar { a: p, b: q }) }; match e { A(x, y) => x * 2 - y, B => 77, C(b) => b.a - b.b * 2, D(f) => f.z, E(d) => d.g.a }".into(),
        String::new(),
    );
    out
}
