//! Aggregate programs the IR evaluator can run: records nested to depth 3 and
//! enums with record payloads over ONE integer type (the evaluator stops loudly
//! on most mixed-width aggregates, strings and registered types, so C02's
//! programs never complete in it). Every template is instantiated for every
//! leaf of every aggregate type, so that every chain of field offsets — through
//! locals, copies, parameters, return values, enum payloads and the generated
//! equality functions — is taken at least once with a value that differs from
//! its neighbours.
//!
//! Entry: `fn tN(p: T, q: T) -> T`, T = i32 or i64. No host calls.

/// (type name, leaves as field paths)
const TYPES: [(&str, &[&str]); 3] = [
    ("Bar", &["a", "b"]),
    ("Foo", &["x.a", "x.b", "y.a", "y.b", "z"]),
    ("Deep", &["f.x.a", "f.x.b", "f.y.a", "f.y.b", "f.z", "g.a", "g.b"]),
];

pub fn decls(t: &str) -> String {
    if t == CONST_TAG {
        return String::new();
    }
    format!(
        "record Bar {{ a: {t}, b: {t} }}\n\
         record Foo {{ x: Bar, y: Bar, z: {t} }}\n\
         record Deep {{ f: Foo, g: Bar }}\n\
         enum En {{ A({t}, {t}), B, C(Bar), D(Foo), E(Deep) }}\n"
    )
}

/// literal of type `ty` whose i-th leaf is `vals[i]`
fn lit(ty: &str, vals: &[String]) -> String {
    match ty {
        "Bar" => format!("Bar {{ a: {}, b: {} }}", vals[0], vals[1]),
        "Foo" => format!("Foo {{ x: {}, y: {}, z: {} }}", lit("Bar", &vals[0..2]), lit("Bar", &vals[2..4]), vals[4]),
        "Deep" => format!("Deep {{ f: {}, g: {} }}", lit("Foo", &vals[0..5]), lit("Bar", &vals[5..7])),
        _ => unreachable!(),
    }
}

/// distinct expressions over p and q, one per leaf
fn leaf_vals(n: usize) -> Vec<String> {
    ["p", "q", "p + 1", "q + 2", "p - q", "p + p", "q - 3"][..n].iter().map(|s| s.to_string()).collect()
}

fn weighted(var: &str, leaves: &[&str]) -> String {
    let w = [3, 5, 7, 11, 13, 17, 19];
    leaves.iter().enumerate().map(|(i, l)| format!("{var}.{l} * {}", w[i])).collect::<Vec<_>>().join(" + ")
}

/// type of the aggregate reached by `prefix` inside `ty`
fn type_at(ty: &str, prefix: &str) -> &'static str {
    match (ty, prefix) {
        ("Foo", "x" | "y") | ("Deep", "g" | "f.x" | "f.y") => "Bar",
        ("Deep", "f") => "Foo",
        _ => unreachable!(),
    }
}

pub struct AggProg {
    pub name: String,
    pub kind: String,
    pub src: String,
}

/// All programs for element type `t` (helpers are emitted with their program)
pub fn programs(t: &str) -> Vec<AggProg> {
    if t == CONST_TAG {
        return const_programs();
    }
    let mut out: Vec<AggProg> = vec![];
    let mut add = |kind: String, body: String, helpers: String| {
        let name = format!("t{}", out.len());
        let src = format!("{helpers}fn {name}(p: {t}, q: {t}) -> {t} {{ {body} }}\n").replace("NAME", &name);
        out.push(AggProg { name, kind, src });
    };
    for (ty, leaves) in TYPES {
        let n = leaves.len();
        let vals = leaf_vals(n);
        let build = lit(ty, &vals);
        for (li, leaf) in leaves.iter().enumerate() {
            // read one leaf of a literal / of a local
            add(format!("{ty}/read/{leaf}"), format!("let v = {build}; v.{leaf}"), String::new());
            // == and != of two values that differ in exactly this leaf
            let mut other = vals.clone();
            other[li] = format!("{} + 1", vals[li]);
            add(
                format!("{ty}/eq-differ/{leaf}"),
                format!("let l = {build}; let r = {}; let s = {build}; if l == r {{ 1 }} else if l != s {{ 2 }} else if r != l {{ 3 }} else {{ 0 }}", lit(ty, &other)),
                String::new(),
            );
            // the same with the difference only when p != q
            let mut other = vals.clone();
            other[li] = format!("{} + p - q", vals[li]);
            add(
                format!("{ty}/eq-input/{leaf}"),
                format!("let l = {build}; let r = {}; if l == r {{ 1 }} else {{ 0 }}", lit(ty, &other)),
                String::new(),
            );
            // write one leaf, read all
            add(format!("{ty}/write/{leaf}"), format!("let v = {build}; v.{leaf} = q * 100; {}", weighted("v", leaves)), String::new());
            // copy, write the original / the copy, read both
            add(
                format!("{ty}/copy-write-original/{leaf}"),
                format!("let v = {build}; let c = v; v.{leaf} = 1000; ({}) - ({})", weighted("v", leaves), weighted("c", leaves)),
                String::new(),
            );
            add(
                format!("{ty}/copy-write-copy/{leaf}"),
                format!("let v = {build}; let c = v; c.{leaf} = 1000; ({}) * 2 - ({})", weighted("v", leaves), weighted("c", leaves)),
                String::new(),
            );
            // by-value parameter: the callee writes, the caller must not see it
            add(
                format!("{ty}/param-write/{leaf}"),
                format!("let v = {build}; let r = NAME_h(v, q); r + ({})", weighted("v", leaves)),
                format!("fn NAME_h(x: {ty}, k: {t}) -> {t} {{ x.{leaf} = k * 50; {} }}\n", weighted("x", leaves)),
            );
            // returned aggregate
            add(
                format!("{ty}/return/{leaf}"),
                format!("let v = NAME_h(p, q); v.{leaf}"),
                format!("fn NAME_h(p: {t}, q: {t}) -> {ty} {{ {build} }}\n"),
            );
            // if/else join
            let mut other = vals.clone();
            other.rotate_left(1);
            add(
                format!("{ty}/join/{leaf}"),
                format!("let v = if p < q {{ {build} }} else {{ {} }}; v.{leaf}", lit(ty, &other)),
                String::new(),
            );
            // accumulate in a loop
            add(
                format!("{ty}/loop/{leaf}"),
                format!("let v = {build}; let i = 0; while i < 3 {{ v.{leaf} = v.{leaf} + p; i = i + 1; }} {}", weighted("v", leaves)),
                String::new(),
            );
            // through an Option (the evaluator may stop loudly here)
            add(
                format!("{ty}/option/{leaf}"),
                format!("let o = if p < q {{ Option.Some({build}) }} else {{ Option.None }}; match o {{ Some(v) => v.{leaf}, None => 0 - 1 }}"),
                String::new(),
            );
            // every proper prefix of the path: pass the sub-aggregate on, the callee takes the rest
            let segs: Vec<&str> = leaf.split('.').collect();
            for cut in 1..segs.len() {
                let prefix = segs[..cut].join(".");
                let rest = segs[cut..].join(".");
                let sub = type_at(ty, &prefix);
                add(
                    format!("{ty}/pass-sub/{prefix}|{rest}"),
                    format!("let v = {build}; NAME_h(v.{prefix}) + v.{leaf}"),
                    format!("fn NAME_h(x: {sub}) -> {t} {{ x.{rest} * 3 }}\n"),
                );
                // replace the sub-aggregate as a whole
                let sub_n = TYPES.iter().find(|x| x.0 == sub).unwrap().1.len();
                let fresh: Vec<String> = (0..sub_n).map(|i| format!("q + {}", 40 + i)).collect();
                add(
                    format!("{ty}/assign-sub/{prefix}|{rest}"),
                    format!("let v = {build}; v.{prefix} = {}; {}", lit(sub, &fresh), weighted("v", leaves)),
                    String::new(),
                );
                // compare sub-aggregates of two values
                add(
                    format!("{ty}/eq-sub/{prefix}|{rest}"),
                    format!("let l = {build}; let r = {build}; r.{leaf} = r.{leaf} + p - q; if l.{prefix} == r.{prefix} {{ 1 }} else {{ 0 }}"),
                    String::new(),
                );
            }
        }
        // enum payloads
        let ctor = match ty {
            "Bar" => "C",
            "Foo" => "D",
            _ => "E",
        };
        for (li, leaf) in leaves.iter().enumerate() {
            add(
                format!("{ty}/enum-match/{leaf}"),
                format!("let e = if p <= q {{ En.{ctor}({build}) }} else {{ En.A(p, q) }}; let m1 = match e {{ A(x, y) => x - y, B => 7, C(v) => v.a, D(v) => v.z, E(v) => v.g.b }}; let m2 = match e {{ {ctor}(v) => v.{leaf}, _ => 0 }}; m1 * 1000 + m2"),
                String::new(),
            );
            let mut other = vals.clone();
            other[li] = format!("{} + p - q", vals[li]);
            add(
                format!("{ty}/enum-eq/{leaf}"),
                format!("let l = En.{ctor}({build}); let r = En.{ctor}({}); if l == r {{ 1 }} else if l == En.B {{ 2 }} else {{ 0 }}", lit(ty, &other)),
                String::new(),
            );
        }
    }
    // variants with plain payloads
    add("enum/plain-eq".into(), "let l = En.A(p, q); let r = En.A(q, p); if l == r { 1 } else if l != En.B { 2 } else { 3 }".into(), String::new());
    add(
        "enum/variant-select".into(),
        "let e = if p < q { En.A(p, q) } else if p == q { En.B } else { En.C(Bar { a: p, b: q }) }; match e { A(x, y) => x * 2 - y, B => 77, C(b) => b.a - b.b * 2, D(f) => f.z, E(d) => d.g.a }".into(),
        String::new(),
    );
    out
}

// ---------------------------------------------------------------- registered constants
// Compound constants registered by the host (Option / Result / Verdict with a payload
// behind the tag byte, next to a droppable payload in the other variant): reading one
// makes the generated clone function take an offset into the constant's storage. On
// the pinned tree the evaluator stops loudly there ("Don't offset global pointer"),
// which is allowed; an evaluator that learns to do it must read the right bytes
// (seeded change C20-6 applied the offset in `get` but not in `read_slice`).

/// pseudo element type of this family: entry `fn tN(p: i32, q: i32) -> i32`
pub const CONST_TAG: &str = "i32c";

pub fn const_runtime() -> roto::Runtime<roto::NoCtx> {
    use roto::{Verdict, library};
    let mut rt = host::runtime();
    rt.add(library! {
        const RC_OK: Result<u8, roto::RotoString> = Ok(7);
        const RC_ERR: Result<roto::RotoString, u8> = Err(9);
        const RC_OKB: Result<bool, roto::RotoString> = Ok(true);
        const RC_OK16: Result<u16, roto::RotoString> = Ok(300);
        const RC_OK32: Result<u32, roto::RotoString> = Ok(70000);
        const RC_OPT: Option<u8> = Some(5);
        const RC_OPT32: Option<u32> = Some(70001);
        const RC_VER: Verdict<u16, roto::RotoString> = Verdict::Accept(301);
        const RC_REJ: Verdict<roto::RotoString, u8> = Verdict::Reject(11);
        const RC_PLAIN: Result<u8, u8> = Err(13);
    })
    .expect("constants library registers");
    rt
}

fn const_programs() -> Vec<AggProg> {
    // (constant, type as written in the script, variant with the scalar payload, other variant, value)
    let consts: [(&str, &str, &str, &str, &str); 10] = [
        ("RC_OK", "Result[u8, String]", "Ok", "Err", "7"),
        ("RC_ERR", "Result[String, u8]", "Err", "Ok", "9"),
        ("RC_OKB", "Result[bool, String]", "Ok", "Err", "true"),
        ("RC_OK16", "Result[u16, String]", "Ok", "Err", "300"),
        ("RC_OK32", "Result[u32, String]", "Ok", "Err", "70000"),
        ("RC_OPT", "u8?", "Some", "None", "5"),
        ("RC_OPT32", "u32?", "Some", "None", "70001"),
        ("RC_VER", "Verdict[u16, String]", "Accept", "Reject", "301"),
        ("RC_REJ", "Verdict[String, u8]", "Reject", "Accept", "11"),
        ("RC_PLAIN", "Result[u8, u8]", "Err", "Ok", "13"),
    ];
    let mut out: Vec<AggProg> = vec![];
    let mut add = |kind: String, body: String, helpers: String| {
        let name = format!("t{}", out.len());
        let src = format!("{helpers}fn {name}(p: i32, q: i32) -> i32 {{ {body} }}\n").replace("NAME", &name);
        out.push(AggProg { name, kind, src });
    };
    for (c, ty, v, o, val) in consts {
        let other_arm = if o == "None" { "None => 0 - 2".to_string() } else { format!("{o}(e) => 0 - 2") };
        // the payload decides between three results: right value, zero-ish value, anything else
        let judge = |x: &str| {
            if val == "true" {
                format!("if {x} {{ p + 1 }} else {{ q + 100 }}")
            } else {
                format!("if {x} == {val} {{ p + 1 }} else if {x} == 0 {{ q + 100 }} else if {x} == 1 {{ q + 200 }} else {{ q + 300 }}")
            }
        };
        let m = |scrutinee: &str| format!("match {scrutinee} {{ {v}(x) => {}, {other_arm} }}", judge("x"));
        add(format!("const-direct {c}"), m(c), String::new());
        add(format!("const-let {c}"), format!("let v = {c}; {}", m("v")), String::new());
        add(format!("const-let-twice {c}"), format!("let v = {c}; let w = v; {}", m("w")), String::new());
        add(
            format!("const-argument {c}"),
            format!("NAME_h({c}, p, q)"),
            format!("fn NAME_h(r: {ty}, p: i32, q: i32) -> i32 {{ {} }}\n", m("r")),
        );
        add(
            format!("const-returned {c}"),
            m("NAME_g()"),
            format!("fn NAME_g() -> {ty} {{ {c} }}\n"),
        );
        add(format!("const-eq {c}"), format!("if {c} == {c} {{ {} }} else {{ 0 - 3 }}", m(c)), String::new());
        add(format!("const-in-record {c}"), format!("let r = {{ k: p, c: {c} }}; {}", m("r.c")), String::new());
    }
    out
}
