//! C20 — the IR evaluator agrees with the compiled code or stops loudly.
//!
//! Every program is lowered ONCE (hook H4); the lowered IR is evaluated by the
//! crate's IR evaluator (inside catch_unwind, fresh memory) for every input
//! vector and then turned into machine code and called with the same
//! arguments. A completed evaluation must give the same value and the same
//! host-call log as the JIT; a panic of the evaluator is allowed ("stops
//! loudly") and counted per message class so that vacuity is visible.

use c00ref::call::get_fn2;
use c00ref::*;
use c01::{Family, Kind, families, family_inputs, programs, rename_main};
use roto::verif::Scalar;
use vcore::{Cfg, Check, Cx, Finding, Meta, SUB_SETUP, Tier, Value, Violation, json};

mod agg;

const CHUNK: usize = 150;

fn c20_families(tier: Tier) -> Vec<Family> {
    // quick: two rotating types (by position) get the larger families, every
    // type gets the truth-table programs, depth-1 expressions and skeletons <= 2
    let wide = |t: &Ty| matches!(t, Ty::Int(IntTy::U8) | Ty::Int(IntTy::I64) | Ty::F64);
    families(tier)
        .into_iter()
        .filter(|f| match (&f.kind, tier) {
            (Kind::Templates, _) => false, // own signature; calls are covered by the skeleton constructs
            (Kind::Table, _) => true,      // run on boundary inputs here, not on the full table
            (Kind::Skel { size, .. }, Tier::Quick) => *size <= 2,
            (Kind::Skel { size, .. }, Tier::Thorough) => *size <= 2 || (*size == 3 && wide(&f.t)) || (*size == 3 && f.t == Ty::Int(IntTy::I32)),
            (Kind::Num { depth, .. }, _) => *depth <= 1,
            (Kind::Bools { d_num, .. }, Tier::Quick) => *d_num == 0 && wide(&f.t),
            (Kind::Bools { d_num, .. }, Tier::Thorough) => *d_num == 0,
            (Kind::NumOneDeep | Kind::CmpOneDeep, _) => wide(&f.t),
            (Kind::Snapshot, _) => true,
            (Kind::ConstOperand, _) => false,
        })
        .collect()
}

/// A thin but path-covering input set: every boundary value occurs as `a` and
/// as `b`, paired with itself, with its successor and with a far partner.
fn inputs_for(f: &Family, tier: Tier) -> Vec<(V, V)> {
    let one: Vec<V> = match (&f.kind, &f.t) {
        (Kind::Skel { .. }, Ty::Int(it)) => {
            let mut v: Vec<i128> = vec![0, 1, 2, 3, 4, 5, it.max_val(), it.min_val()];
            if it.signed() {
                v.extend([-1, -2]);
            }
            v.sort();
            v.dedup();
            v.into_iter().map(|x| V::Int(*it, x)).collect()
        }
        _ => gen_expr::inputs(&f.t),
    };
    // expressions of depth <= 1 and the truth-table programs are cheap: they
    // get the full boundary cross product (quotients / remainders / products
    // of every pair of boundary values, e.g. MAX / 1, 2^40 / 2)
    if matches!(f.kind, Kind::Num { .. } | Kind::Table | Kind::Snapshot) {
        let mut v = vec![];
        for a in &one {
            for b in &one {
                v.push((a.clone(), b.clone()));
            }
        }
        return v;
    }
    let n = one.len();
    let mut v = vec![];
    let steps: &[usize] = match tier {
        Tier::Quick => &[0, 1, 5],
        Tier::Thorough => &[0, 1, 3, 5],
    };
    for i in 0..n {
        for s in steps {
            v.push((one[i].clone(), one[(i + s) % n].clone()));
        }
    }
    let _ = family_inputs;
    v
}

fn to_scalar(v: &V) -> Scalar {
    match v {
        V::Int(IntTy::U8, x) => Scalar::U8(*x as u8),
        V::Int(IntTy::I8, x) => Scalar::I8(*x as i8),
        V::Int(IntTy::U16, x) => Scalar::U16(*x as u16),
        V::Int(IntTy::I16, x) => Scalar::I16(*x as i16),
        V::Int(IntTy::U32, x) => Scalar::U32(*x as u32),
        V::Int(IntTy::I32, x) => Scalar::I32(*x as i32),
        V::Int(IntTy::U64, x) => Scalar::U64(*x as u64),
        V::Int(IntTy::I64, x) => Scalar::I64(*x as i64),
        V::F32(x) => Scalar::F32(*x),
        V::F64(x) => Scalar::F64(*x),
        V::Bool(x) => Scalar::Bool(*x),
        V::Char(x) => Scalar::Char(*x),
        o => panic!("not a scalar: {}", o.show()),
    }
}

fn from_scalar(s: &Scalar) -> V {
    match *s {
        Scalar::U8(x) => V::Int(IntTy::U8, x as i128),
        Scalar::I8(x) => V::Int(IntTy::I8, x as i128),
        Scalar::U16(x) => V::Int(IntTy::U16, x as i128),
        Scalar::I16(x) => V::Int(IntTy::I16, x as i128),
        Scalar::U32(x) => V::Int(IntTy::U32, x as i128),
        Scalar::I32(x) => V::Int(IntTy::I32, x as i128),
        Scalar::U64(x) => V::Int(IntTy::U64, x as i128),
        Scalar::I64(x) => V::Int(IntTy::I64, x as i128),
        Scalar::F32(x) => V::F32(x),
        Scalar::F64(x) => V::F64(x),
        Scalar::Bool(x) => V::Bool(x),
        Scalar::Char(x) => V::Char(x),
    }
}

fn unit_table(cfg: &Cfg) -> &'static Vec<(usize, usize)> {
    static T: std::sync::OnceLock<Vec<(usize, usize)>> = std::sync::OnceLock::new();
    T.get_or_init(|| {
        let mut v = vec![];
        for (fi, f) in c20_families(cfg.tier).iter().enumerate() {
            let n = programs(f, cfg).len();
            for c in 0..n.div_ceil(CHUNK) {
                v.push((fi, c));
            }
        }
        // effect-marker programs of C08 (bool arguments, i32 result, host calls)
        let n = effect_bodies(cfg).len();
        for c in 0..n.div_ceil(EFFECT_CHUNK) {
            v.push((usize::MAX, c));
        }
        // aggregate programs (agg.rs)
        for c in 0..agg_units(cfg).len() {
            v.push((AGG, c));
        }
        v
    })
}

const EFFECT_CHUNK: usize = 120;
const AGG: usize = usize::MAX - 1;

const AGG_CHUNK: usize = 100;
const AGG_TYS: [&str; 4] = ["i32", "i64", agg::CONST_TAG, "u64"];

/// (element type, programs) of the aggregate family, see agg.rs
fn agg_programs() -> &'static Vec<(&'static str, Vec<agg::AggProg>)> {
    static C: std::sync::OnceLock<Vec<(&'static str, Vec<agg::AggProg>)>> = std::sync::OnceLock::new();
    C.get_or_init(|| AGG_TYS.iter().map(|t| (*t, agg::programs(t))).collect())
}

/// (type index, first program) per aggregate unit
fn agg_units(_cfg: &Cfg) -> Vec<(usize, usize)> {
    let mut v = vec![];
    for (ti, (_, ps)) in agg_programs().iter().enumerate() {
        for lo in (0..ps.len()).step_by(AGG_CHUNK) {
            v.push((ti, lo));
        }
    }
    v
}

fn agg_inputs(t: &str) -> Vec<(i64, i64)> {
    if t == "u64" {
        // unsigned: values that need more than 32 bits (seeded change C20-8: the evaluator
        // stored only the low four bytes of a u64), no negative ones
        let one = [0i64, 1, 2, 7, 100, 1 << 20, 1 << 32, (1 << 32) + 5, 1 << 40, i64::MAX];
        let mut v = vec![];
        for a in one {
            for b in one {
                v.push((a, b));
            }
        }
        return v;
    }
    // moderate values: the evaluator (built with overflow checks) stops loudly on wrapping
    // arithmetic, and offsets, not arithmetic, are the subject here; one wide value per type
    let wide = if t != "i64" { 1 << 20 } else { 1i64 << 40 };
    let one = [0i64, 1, 2, 7, -1, -5, 100, wide, -wide];
    let mut v = vec![];
    for a in one {
        for b in one {
            v.push((a, b));
        }
    }
    v
}

/// Aggregate programs (records nested to depth 3, enums with record payloads, over
/// i32 and i64): evaluator against JIT on every input pair.
fn run_aggregates(c: usize, cx: &mut Cx) {
    use roto::{NoCtx, TypedFunc};
    let (ti, lo) = agg_units(&cx.cfg)[c];
    let (t, all) = &agg_programs()[ti];
    let progs = &all[lo..(lo + AGG_CHUNK).min(all.len())];
    let mut src = agg::decls(t);
    for p in progs {
        src.push_str(&p.src);
    }
    let rt = if *t == agg::CONST_TAG { agg::const_runtime() } else { host::runtime() };
    let tree = roto::FileTree::test_file("c20a.roto", &src, 0);
    let lowered = match vcore::util::catch(|| roto::verif::lower(tree, &rt)) {
        Ok(Ok(l)) => l,
        Ok(Err(e)) => {
            // the family is made of valid programs: a rejection is a mistake of the generator
            cx.count("agg_chunks_rejected", 1);
            cx.note(format!("aggregate chunk {t}/{lo} rejected: {}", e.to_string().lines().take(12).collect::<Vec<_>>().join(" / ")));
            return;
        }
        Err(_) => {
            cx.count("chunks_not_lowered", 1);
            return;
        }
    };
    let inputs = agg_inputs(t);
    let scalar = |x: i64| match *t { "i64" => Scalar::I64(x), "u64" => Scalar::U64(x as u64), _ => Scalar::I32(x as i32) };
    let mut results: Vec<Vec<Option<Option<Scalar>>>> = vec![];
    for (i, p) in progs.iter().enumerate() {
        let mut row = vec![];
        for (k, (a, b)) in inputs.iter().enumerate() {
            let sub = ((i as u64) << 20) | ((k as u64) << 1);
            if !cx.case(sub) {
                row.push(None);
                continue;
            }
            let name = p.name.clone();
            match vcore::util::catch(|| lowered.eval_named(&name, &[scalar(*a), scalar(*b)], false, 0)) {
                Ok(ev) => {
                    cx.count("eval_completed", 1);
                    cx.count("agg_eval_completed", 1);
                    row.push(Some(ev.value));
                }
                Err(m) => {
                    cx.count("eval_panicked", 1);
                    cx.count(&format!("eval_panic[{}]", panic_class(&m)), 1);
                    row.push(None);
                }
            }
        }
        results.push(row);
    }
    if !cx.case(SUB_SETUP) {
        return;
    }
    let mut pkg = match vcore::util::catch(move || lowered.codegen()) {
        Ok(p) => p,
        Err(_) => {
            cx.count("chunks_codegen_panicked", 1);
            return;
        }
    };
    enum F {
        A(TypedFunc<NoCtx, fn(i32, i32) -> i32>),
        B(TypedFunc<NoCtx, fn(i64, i64) -> i64>),
        C(TypedFunc<NoCtx, fn(u64, u64) -> u64>),
    }
    for (i, p) in progs.iter().enumerate() {
        let f = match *t {
            "i64" => pkg.get_function(&p.name).map(F::B).map_err(|e| e.to_string()),
            "u64" => pkg.get_function(&p.name).map(F::C).map_err(|e| e.to_string()),
            _ => pkg.get_function(&p.name).map(F::A).map_err(|e| e.to_string()),
        };
        let Ok(f) = f else {
            cx.count("agg_get_function_failed", 1);
            continue;
        };
        cx.states(1);
        let mut vals = std::collections::HashSet::new();
        let mut reported = false;
        let mut completed = 0;
        for (k, (a, b)) in inputs.iter().enumerate() {
            let Some(ev) = &results[i][k] else { continue };
            let sub = ((i as u64) << 20) | ((k as u64) << 1) | 1;
            if !cx.case(sub) {
                continue;
            }
            completed += 1;
            let got = match &f {
                F::A(f) => Scalar::I32(f.call(*a as i32, *b as i32)),
                F::B(f) => Scalar::I64(f.call(*a, *b)),
                F::C(f) => Scalar::U64(f.call(*a as u64, *b as u64)),
            };
            cx.transitions(1);
            cx.validated(1);
            vals.insert(format!("{got:?}"));
            if *ev != Some(got) && !reported {
                reported = true;
                cx.violation(
                    "eval-differs",
                    sub,
                    json!({"family": "aggregates", "kind": p.kind, "type": t, "program": format!("{}{}", agg::decls(t), p.src), "p": a, "q": b}),
                    json!({"jit_value": format!("{got:?}")}),
                    json!({"eval_value": format!("{ev:?}")}),
                );
            }
        }
        if vals.len() > 1 {
            cx.nontrivial(vcore::util::fnv_str(&format!("agg/{t}/{}", p.kind)));
        }
        cx.outcome(vcore::util::fnv_str(&format!("{vals:?}")));
        if i == 0 {
            cx.sample(json!({"family": "aggregates", "kind": p.kind, "type": t, "program": p.src, "evaluations_completed": completed}));
        }
    }
}

/// quick: every fourth effect program (the slice rotates with VERIF_SEED);
/// thorough: all of them
fn effect_bodies(cfg: &Cfg) -> &'static Vec<Block> {
    static C: std::sync::OnceLock<Vec<Block>> = std::sync::OnceLock::new();
    C.get_or_init(|| {
        let all = c08::cached(cfg.tier);
        match cfg.tier {
            Tier::Quick => all.iter().enumerate().filter(|(i, _)| (*i as u64 + cfg.seed) % 4 == 0).map(|(_, b)| b.clone()).collect(),
            Tier::Thorough => all.clone(),
        }
    })
}

/// C08's effect programs: records, enums, lists, strings, match, loops, `?`
/// and host calls in every position; four bool arguments, all 16 vectors.
fn run_effects(c: usize, cx: &mut Cx) {
    use roto::{NoCtx, TypedFunc};
    let all = effect_bodies(&cx.cfg);
    let lo = c * EFFECT_CHUNK;
    let hi = (lo + EFFECT_CHUNK).min(all.len());
    let (recs, enums, helpers) = c08::prelude();
    let mut prog = Program { records: recs, enums, funcs: helpers };
    for (i, b) in all[lo..hi].iter().enumerate() {
        prog.funcs.push(c08::entry(&format!("f{i}"), b.clone()));
    }
    let rt = host::runtime();
    let tree = roto::FileTree::test_file("c20e.roto", &print_program(&prog), 0);
    let lowered = match vcore::util::catch(|| roto::verif::lower(tree, &rt)) {
        Ok(Ok(l)) => l,
        _ => {
            cx.count("chunks_not_lowered", 1);
            return;
        }
    };
    let n = hi - lo;
    let mut results: Vec<Vec<Option<(Option<Scalar>, Vec<Ev>)>>> = vec![];
    for i in 0..n {
        let mut row = vec![];
        for v in 0..16u64 {
            let bits = [v & 1 != 0, v & 2 != 0, v & 4 != 0, v & 8 != 0];
            let args: Vec<V> = bits.iter().map(|b| V::Bool(*b)).collect();
            if eval_fn(&prog, &format!("f{i}"), &args).is_err() {
                cx.unspecified(1);
                row.push(None);
                continue;
            }
            let sub = ((i as u64) << 20) | (v << 1);
            if !cx.case(sub) {
                row.push(None);
                continue;
            }
            host::clear_log();
            let sargs: Vec<Scalar> = bits.iter().map(|b| Scalar::Bool(*b)).collect();
            let name = format!("f{i}");
            match vcore::util::catch(|| lowered.eval_named(&name, &sargs, false, 0)) {
                Ok(ev) => {
                    cx.count("eval_completed", 1);
                    row.push(Some((ev.value, host::take_log())));
                }
                Err(m) => {
                    host::clear_log();
                    cx.count("eval_panicked", 1);
                    cx.count(&format!("eval_panic[{}]", panic_class(&m)), 1);
                    row.push(None);
                }
            }
        }
        results.push(row);
    }
    if !cx.case(SUB_SETUP) {
        return;
    }
    let mut pkg = match vcore::util::catch(move || lowered.codegen()) {
        Ok(p) => p,
        Err(_) => {
            cx.count("chunks_codegen_panicked", 1);
            return;
        }
    };
    for i in 0..n {
        let f: TypedFunc<NoCtx, fn(bool, bool, bool, bool) -> i32> = match pkg.get_function(&format!("f{i}")) {
            Ok(f) => f,
            Err(_) => continue,
        };
        let src = print_func(&c08::entry("f", all[lo + i].clone()));
        cx.states(1);
        let mut reported = false;
        let mut logs = std::collections::HashSet::new();
        for v in 0..16u64 {
            let Some((ev_val, ev_log)) = &results[i][v as usize] else { continue };
            let bits = [v & 1 != 0, v & 2 != 0, v & 4 != 0, v & 8 != 0];
            let sub = ((i as u64) << 20) | (v << 1) | 1;
            if !cx.case(sub) {
                continue;
            }
            host::clear_log();
            let got = f.call(bits[0], bits[1], bits[2], bits[3]);
            let log = host::take_log();
            cx.transitions(1);
            cx.validated(1);
            logs.insert(format!("{log:?}"));
            let same = *ev_val == Some(Scalar::I32(got)) && *ev_log == log;
            if !same && !reported {
                reported = true;
                cx.violation(
                    "eval-differs",
                    sub,
                    json!({"family": "effects", "program": src, "inputs": format!("{bits:?}")}),
                    json!({"jit_value": got, "jit_log": format!("{log:?}")}),
                    json!({"eval_value": format!("{ev_val:?}"), "eval_log": format!("{ev_log:?}")}),
                );
            }
        }
        if logs.len() > 1 {
            cx.nontrivial(vcore::util::fnv_str(&src));
        }
        cx.outcome(vcore::util::fnv_str(&format!("{logs:?}")));
        if i == 0 {
            cx.sample(json!({"family": "effects", "program": src, "evaluations_completed": logs.len()}));
        }
    }
}

thread_local! {
    static LAST: std::cell::RefCell<Option<(usize, std::rc::Rc<Vec<Program>>)>> = const { std::cell::RefCell::new(None) };
}

fn family_programs(fi: usize, cfg: &Cfg) -> std::rc::Rc<Vec<Program>> {
    LAST.with(|l| {
        let mut l = l.borrow_mut();
        if let Some((i, p)) = &*l {
            if *i == fi {
                return p.clone();
            }
        }
        let p = std::rc::Rc::new(programs(&c20_families(cfg.tier)[fi], cfg));
        *l = Some((fi, p.clone()));
        p
    })
}

/// first words of a panic message, digits removed: the message class
fn panic_class(m: &str) -> String {
    let head = m.split(" @ ").next().unwrap_or(m);
    let loc = m.split(" @ ").nth(1).unwrap_or("");
    let words: String = head.split_whitespace().take(6).collect::<Vec<_>>().join(" ");
    let words: String = words.chars().map(|c| if c.is_ascii_digit() { '#' } else { c }).collect();
    format!("{words} @ {}", loc.rsplit('/').next().unwrap_or(loc))
}

struct C20;

impl Check for C20 {
    fn id(&self) -> &'static str {
        "C20"
    }
    fn units(&self, cfg: &Cfg) -> usize {
        unit_table(cfg).len()
    }
    fn max_deaths_per_unit(&self, _cfg: &Cfg) -> u32 {
        // a well-typed generated program must never kill the process: a few
        // deaths are enough evidence, re-running the unit after each is wasted
        20
    }
    fn case_timeout_s(&self, cfg: &Cfg) -> f64 {
        cfg.tier.pick(60.0, 300.0)
    }
    fn run_unit(&self, unit: usize, cx: &mut Cx) {
        cx.case(SUB_SETUP);
        let (fi, c) = unit_table(&cx.cfg)[unit];
        if fi == usize::MAX {
            run_effects(c, cx);
            return;
        }
        if fi == AGG {
            run_aggregates(c, cx);
            return;
        }
        let f = c20_families(cx.cfg.tier)[fi].clone();
        let all = family_programs(fi, &cx.cfg);
        let lo = c * CHUNK;
        let hi = (lo + CHUNK).min(all.len());
        let progs = &all[lo..hi];
        let inputs = inputs_for(&f, cx.cfg.tier);

        // one package for the chunk
        let mut text = String::new();
        let mut helper_done = false;
        for (i, p) in progs.iter().enumerate() {
            let q = rename_main(p, &format!("p{i}_"));
            for func in &q.funcs {
                let is_helper = !func.name.starts_with(&format!("p{i}_"));
                if is_helper && helper_done {
                    continue;
                }
                text.push_str(&print_func(func));
            }
            if q.funcs.len() > 1 {
                helper_done = true;
            }
        }
        let rt = host::runtime();
        let tree = roto::FileTree::test_file("c20.roto", &text, 0);
        let lowered = match vcore::util::catch(|| roto::verif::lower(tree, &rt)) {
            Ok(Ok(l)) => l,
            Ok(Err(_)) | Err(_) => {
                // rejected / compiler panic on a well-typed program is C01's and
                // C06's business; here the chunk cannot be judged
                cx.count("chunks_not_lowered", 1);
                cx.note(format!("family {} chunk {c}: lowering failed", f.name));
                return;
            }
        };
        // phase 1: evaluator
        #[derive(Clone)]
        enum Ev1 {
            Skip,
            Panic,
            Done(Option<Scalar>, Vec<Ev>),
        }
        let mut results: Vec<Vec<Ev1>> = vec![];
        for (i, p) in progs.iter().enumerate() {
            let mut row = vec![];
            for (k, (a, b)) in inputs.iter().enumerate() {
                // the reference filters out inputs the language leaves open
                // (division by zero would trap in the JIT)
                match eval_fn(p, "f", &[a.clone(), b.clone()]) {
                    Ok(_) => {}
                    Err(_) => {
                        cx.unspecified(1);
                        row.push(Ev1::Skip);
                        continue;
                    }
                }
                let sub = ((i as u64) << 20) | ((k as u64) << 1);
                if !cx.case(sub) {
                    row.push(Ev1::Skip);
                    continue;
                }
                host::clear_log();
                let args = [to_scalar(a), to_scalar(b)];
                let name = format!("p{i}_f");
                match vcore::util::catch(|| lowered.eval_named(&name, &args, false, 0)) {
                    Ok(ev) => {
                        cx.count("eval_completed", 1);
                        row.push(Ev1::Done(ev.value, host::take_log()));
                    }
                    Err(m) => {
                        host::clear_log();
                        cx.count("eval_panicked", 1);
                        cx.count(&format!("eval_panic[{}]", panic_class(&m)), 1);
                        row.push(Ev1::Panic);
                    }
                }
            }
            results.push(row);
        }
        // phase 2: machine code from the same IR
        if !cx.case(SUB_SETUP) {
            return;
        }
        let mut pkg = match vcore::util::catch(move || lowered.codegen()) {
            Ok(p) => p,
            Err(m) => {
                cx.count("chunks_codegen_panicked", 1);
                cx.note(format!("family {} chunk {c}: codegen panicked: {m}", f.name));
                return;
            }
        };
        for (i, p) in progs.iter().enumerate() {
            let src = print_program(p);
            let func = match get_fn2(&mut pkg, &format!("p{i}_f"), &f.t, &f.ret) {
                Ok(func) => func,
                Err(e) => {
                    cx.violation("get_function", (i as u64) << 20, json!({"program": src}), json!("Ok"), json!(e));
                    continue;
                }
            };
            cx.states(1);
            let mut reported = false;
            let mut completed = 0;
            let mut outs = std::collections::HashSet::new();
            for (k, (a, b)) in inputs.iter().enumerate() {
                let Ev1::Done(ev_val, ev_log) = &results[i][k] else { continue };
                let sub = ((i as u64) << 20) | ((k as u64) << 1) | 1;
                if !cx.case(sub) {
                    continue;
                }
                host::clear_log();
                let got = func(a, b);
                let log = host::take_log();
                cx.transitions(1);
                cx.validated(1);
                completed += 1;
                outs.insert(got.show());
                let same = match ev_val {
                    Some(s) => from_scalar(s).obs_eq(&got),
                    None => false,
                } && *ev_log == log;
                if !same && !reported {
                    reported = true;
                    cx.violation(
                        "eval-differs",
                        sub,
                        json!({"family": f.name, "program": src, "a": a.show(), "b": b.show()}),
                        json!({"jit_value": got.show(), "jit_log": format!("{log:?}")}),
                        json!({"eval_value": format!("{ev_val:?}"), "eval_log": format!("{ev_log:?}")}),
                    );
                }
            }
            if completed > 0 && outs.len() > 1 {
                cx.nontrivial(vcore::util::fnv_str(&src));
            }
            let mut h = vcore::util::fnv_str(&f.name);
            let mut o: Vec<_> = outs.into_iter().collect();
            o.sort();
            for x in o.iter().take(6) {
                h = vcore::util::mix(h, vcore::util::fnv_str(x));
            }
            cx.outcome(h);
            if i == 0 {
                cx.sample(json!({"family": f.name, "program": src, "inputs": inputs.len(), "evaluations_completed": completed}));
            }
        }
    }
    fn describe(&self, cfg: &Cfg, unit: usize, sub: u64) -> Value {
        let (fi, c) = unit_table(cfg)[unit];
        if fi == usize::MAX {
            let all = effect_bodies(cfg);
            let i = c * EFFECT_CHUNK + (sub >> 20) as usize;
            return json!({"family": "effects", "program": all.get(i).map(|b| print_func(&c08::entry("f", b.clone()))),
                          "input_vector": (sub & 0xFFFFF) >> 1});
        }
        if fi == AGG {
            let (ti, lo) = agg_units(cfg)[c];
            let (t, all) = &agg_programs()[ti];
            if sub == SUB_SETUP {
                return json!({"family": "aggregates", "type": t, "first_program": lo, "phase": "lower/codegen"});
            }
            let i = lo + (sub >> 20) as usize;
            let k = ((sub & 0xFFFFF) >> 1) as usize;
            let (a, b) = agg_inputs(t).get(k).copied().unwrap_or_default();
            return json!({"family": "aggregates", "type": t, "kind": all.get(i).map(|p| p.kind.clone()),
                          "program": all.get(i).map(|p| format!("{}{}", agg::decls(t), p.src)), "p": a, "q": b,
                          "phase": if sub & 1 == 0 { "evaluator" } else { "jit" }});
        }
        let f = c20_families(cfg.tier)[fi].clone();
        if sub == SUB_SETUP {
            return json!({"family": f.name, "chunk": c, "phase": "lower/codegen"});
        }
        let all = family_programs(fi, cfg);
        let i = c * CHUNK + (sub >> 20) as usize;
        let k = ((sub & 0xFFFFF) >> 1) as usize;
        let inputs = inputs_for(&f, cfg.tier);
        let (a, b) = inputs.get(k).map(|(a, b)| (a.show(), b.show())).unwrap_or_default();
        json!({"family": f.name, "program": all.get(i).map(print_program), "a": a, "b": b,
               "phase": if sub & 1 == 0 { "evaluator" } else { "jit" }})
    }
    fn matches(&self, f: &Finding, v: &Violation) -> bool {
        match f.matcher.as_str() {
            // the evaluator's `Not` returns its operand: every program with a
            // `!` whose evaluation differs
            "eval_not" => {
                v.class == "eval-differs" && v.case["program"].as_str().is_some_and(|p| p.contains('!') && !p.replace("!=", "").contains('!') == false)
            }
            _ => false,
        }
    }
    fn meta(&self, cfg: &Cfg) -> Meta {
        Meta {
            rule: "(a) the effect-marker programs of C08 and (b) aggregate programs over i32 and i64 (records nested to depth 3 and enums with record payloads; every template — read, write, copy then write, by-value parameter, returned value, if/else join, loop, Option, sub-aggregate passed on / replaced / compared, enum match and equality — instantiated for every leaf of every type), and (c) the C01 program families restricted to scalar parameters (expressions of all operators and widths, truth-table programs on boundary inputs, control-flow skeletons incl. calls, match, loops, early return) x boundary input vectors; each program is lowered once, evaluated by the IR evaluator and JIT-compiled from the same IR; non-trivial = evaluator completed and the result differs between two inputs".into(),
            assumptions: vec!["inputs on which the language leaves the result open (division by zero, MIN / -1) are skipped: the JIT would trap".into()],
            bounds: json!({"families": c20_families(cfg.tier).iter().map(|f| f.name.clone()).collect::<Vec<_>>(),
                           "effect_programs": effect_bodies(cfg).len(),
                           "aggregate_programs": agg_programs().iter().map(|(t, p)| json!({"type": t, "programs": p.len()})).collect::<Vec<_>>()}),
            states_are: "distinct generated programs".into(),
            transitions_are: "completed evaluator runs compared with the JIT run of the same IR on the same input".into(),
        }
    }
}

/// triage aid: `c20 --src <file>`: every `fn NAME(p: i32, q: i32) -> i32` of the file,
/// evaluator against JIT on a few inputs
fn src_debug(path: &str) {
    use roto::{NoCtx, TypedFunc};
    vcore::util::install_quiet_panic_hook();
    let src = std::fs::read_to_string(path).expect("read");
    let names: Vec<String> = src
        .lines()
        .filter_map(|l| l.strip_prefix("fn ").and_then(|r| r.split('(').next()).map(|s| s.to_string()))
        .filter(|n| src.contains(&format!("fn {n}(p: i32, q: i32) -> i32")))
        .collect();
    let rt = host::runtime();
    let lowered = match vcore::util::catch(|| roto::verif::lower(roto::FileTree::test_file("d.roto", &src, 0), &rt)) {
        Ok(Ok(l)) => l,
        Ok(Err(e)) => return println!("not lowered: {e}"),
        Err(m) => return println!("lowering panicked: {m}"),
    };
    let mut evs = vec![];
    for n in &names {
        for (p, q) in [(4, 5), (7, 7), (-3, 9)] {
            let r = match vcore::util::catch(|| lowered.eval_named(n, &[Scalar::I32(p), Scalar::I32(q)], false, 0)) {
                Ok(ev) => format!("{:?}", ev.value),
                Err(m) => format!("PANIC {}", panic_class(&m)),
            };
            evs.push(r);
        }
    }
    let mut pkg = lowered.codegen();
    let mut k = 0;
    for n in &names {
        let f: TypedFunc<NoCtx, fn(i32, i32) -> i32> = pkg.get_function(n).expect("get");
        for (p, q) in [(4, 5), (7, 7), (-3, 9)] {
            println!("{n}({p},{q}): jit={} eval={}", f.call(p, q), evs[k]);
            k += 1;
        }
    }
}

fn main() {
    let args: Vec<String> = std::env::args().collect();
    if args.get(1).map(|s| s.as_str()) == Some("--src") {
        return src_debug(&args[2]);
    }
    if args.get(1).map(|s| s.as_str()) == Some("--agg-dump") {
        // the aggregate family as source text (triage aid)
        let t = args.get(2).map(|s| s.as_str()).unwrap_or("i32");
        print!("{}", agg::decls(t));
        for p in agg::programs(t) {
            print!("// {}\n{}", p.kind, p.src);
        }
        return;
    }
    vcore::main(&C20)
}
